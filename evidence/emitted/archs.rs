// GENERATED on every run by /verif/vx from the working tree of the repository. Do not edit.
#![feature(allocator_api)]
#![allow(unused_imports, unused_variables, unused_mut, dead_code, unused_unsafe, unused_parens, unused_braces)]
use vstd::prelude::*;
verus! {

use std::collections::VecDeque;
use core::ops::Range;
use std::marker::PhantomData;

// ---- assumed std specs (assumption A1) -------------------------------------------------
pub uninterp spec fn vx_range_is_empty<Idx>(r: Range<Idx>) -> bool;
pub assume_specification<Idx> [Range::<Idx>::is_empty] (r: &Range<Idx>) -> (b: bool)
    where Idx: std::cmp::PartialOrd + std::cmp::PartialOrd,
    ensures b == vx_range_is_empty(*r);
#[verifier::external_body]
pub proof fn vx_axiom_range_is_empty_usize(r: Range<usize>)
    ensures vx_range_is_empty(r) == !(r.start < r.end) {}

pub assume_specification<T, A> [VecDeque::<T, A>::shrink_to_fit] (v: &mut VecDeque<T, A>)
    where A: std::alloc::Allocator,
    ensures final(v)@ == old(v)@;

pub assume_specification<T, A> [Vec::<T, A>::shrink_to_fit] (v: &mut Vec<T, A>)
    where A: std::alloc::Allocator,
    ensures final(v)@ == old(v)@;

// R2b: unreachable_unchecked() becomes a call that must be proved unreachable.
#[verifier::external_body]
pub fn vx_unreachable() -> !
    requires false
{
    unreachable!()
}


pub trait Registry {}


pub mod archetype {
    use super::*;
    // R7: archetype::IdentifierRef<R> is an opaque, copyable token (a pointer into the buffer
    // owned by the archetype); equality of tokens is equality of the abstract archetype key.
    #[verifier::external_body]
    #[verifier::accept_recursive_types(R)]
    pub struct IdentifierRef<R: Registry> { p: PhantomData<R> }
    impl<R: Registry> Clone for IdentifierRef<R> {
        #[verifier::external_body]
        fn clone(&self) -> (r: Self) ensures r == *self { unimplemented!() }
    }
    impl<R: Registry> Copy for IdentifierRef<R> {}


    // ---- R7: the owning identifier buffer is opaque; `as_ref` yields its token --------------
    #[verifier::external_body]
    #[verifier::accept_recursive_types(R)]
    pub struct Identifier<R: Registry> { p: PhantomData<R> }
    pub mod identifier {
        use super::*;
        #[verifier::external_body]
        #[verifier::accept_recursive_types(R)]
        pub struct Iter<R: Registry> { p: PhantomData<R> }
    }
    impl<R: Registry> Identifier<R> {
        pub uninterp spec fn spec_ref(&self) -> IdentifierRef<R>;
        /// the bytes of the buffer (K-bits: `as_slice`, `iter`)
        pub uninterp spec fn spec_bits(&self) -> Seq<u8>;
        #[verifier::external_body]
        pub unsafe fn new(bytes: Vec<u8>) -> (r: Self) ensures r.spec_bits() == bytes@ { unimplemented!() }
        #[verifier::external_body]
        pub unsafe fn as_ref(&self) -> (r: IdentifierRef<R>) ensures r == self.spec_ref() { unimplemented!() }
        #[verifier::external_body]
        pub unsafe fn iter(&self) -> (r: identifier::Iter<R>) { unimplemented!() }
        #[verifier::external_body]
        pub fn count(&self) -> (r: usize) { unimplemented!() }
        #[verifier::external_body]
        pub fn size_of_components(&self) -> (r: usize) { unimplemented!() }
    }

    // ---- R6: type-erased columns.  One abstract row per entity. ------------------------------
    #[verifier::external_body]
    pub struct VxRow { p: PhantomData<u8> }
    #[verifier::external_body]
    pub struct VxColumns { p: PhantomData<u8> }
    impl VxColumns {
        pub uninterp spec fn view(&self) -> Seq<VxRow>;
        #[verifier::external_body]
        pub fn vx_with_capacity(n: usize) -> (r: VxColumns) ensures r@.len() == 0 { unimplemented!() }
    }
    pub uninterp spec fn vx_entity_row<E>(e: E) -> VxRow;
    pub uninterp spec fn vx_batch_rows<E>(e: E) -> Seq<VxRow>;
    pub uninterp spec fn vx_row_set<C>(row: VxRow, c: C) -> VxRow;
    pub uninterp spec fn vx_row_add<C>(row: VxRow, c: C) -> VxRow;
    pub uninterp spec fn vx_row_remove<C>(row: VxRow, c: PhantomData<C>) -> VxRow;
    pub uninterp spec fn vx_buffer_row(bytes: Seq<u8>) -> VxRow;
    pub uninterp spec fn vx_ptr_row(p: *const u8) -> VxRow;
    /// R6b: the pointer handed to push_from_buffer_* denotes the packed row held by the Vec
    #[verifier::external_body]
    pub fn vx_as_ptr(v: &Vec<u8>) -> (p: *const u8) ensures vx_ptr_row(p) == vx_buffer_row(v@) { unimplemented!() }

    pub open spec fn vx_swap_remove<T>(s: Seq<T>, i: int) -> Seq<T> {
        if i == s.len() - 1 { s.drop_last() } else { s.update(i, s.last()).drop_last() }
    }

    // R4: `Vec::from_raw_parts(ptr, L, cap)` over a buffer holding >= L initialised elements is
    // the vector of the first L of them.
    pub fn vx_raw_vec_len<T>(v: &mut Vec<T>, len: usize)
        requires old(v)@.len() >= len,
        ensures final(v)@ == old(v)@.take(len as int),
    {
        v.truncate(len);
        proof { assert(v@ =~= old(v)@.take(len as int)); }
    }

    #[verifier::external_body]
    pub unsafe fn vx_new_components_with_capacity<R: Registry>(components: &mut VxColumns, capacity: usize, it: identifier::Iter<R>)
        ensures final(components)@.len() == 0 { unimplemented!() }
    #[verifier::external_body]
    pub unsafe fn vx_push_components<E>(entity: E, components: &mut VxColumns, length: usize)
        requires old(components)@.len() == length,
        ensures final(components)@ == old(components)@.push(vx_entity_row(entity)) { unimplemented!() }
    #[verifier::external_body]
    pub fn vx_component_len<E>(entities: &E) -> (n: usize)
        ensures n == vx_batch_rows(*entities).len() { unimplemented!() }
    #[verifier::external_body]
    pub unsafe fn vx_extend_components<E>(entities: E, components: &mut VxColumns, length: usize)
        requires old(components)@.len() == length,
        ensures final(components)@ == old(components)@ + vx_batch_rows(entities) { unimplemented!() }
    #[verifier::external_body]
    pub unsafe fn vx_set_component<R: Registry, C>(index: usize, component: C, components: &mut VxColumns, length: usize, it: identifier::Iter<R>)
        requires old(components)@.len() == length, index < length,
        ensures final(components)@ == old(components)@.update(index as int, vx_row_set(old(components)@[index as int], component)) { unimplemented!() }
    #[verifier::external_body]
    pub unsafe fn vx_remove_component_row<R: Registry>(index: usize, components: &mut VxColumns, length: usize, it: identifier::Iter<R>)
        requires old(components)@.len() == length, index < length,
        ensures final(components)@ == vx_swap_remove(old(components)@, index as int) { unimplemented!() }
    #[verifier::external_body]
    pub unsafe fn vx_pop_component_row<R: Registry>(index: usize, bytes: &mut Vec<u8>, components: &mut VxColumns, length: usize, it: identifier::Iter<R>)
        requires old(components)@.len() == length, index < length,
        ensures final(components)@ == vx_swap_remove(old(components)@, index as int),
                vx_buffer_row(final(bytes)@) == old(components)@[index as int] { unimplemented!() }
    #[verifier::external_body]
    pub unsafe fn vx_push_components_from_buffer_and_component<R: Registry, C>(buffer: *const u8, component: C, components: &mut VxColumns, length: usize, it: identifier::Iter<R>)
        requires old(components)@.len() == length,
        ensures final(components)@ == old(components)@.push(vx_row_add(vx_ptr_row(buffer), component)) { unimplemented!() }
    #[verifier::external_body]
    pub unsafe fn vx_push_components_from_buffer_skipping_component<R: Registry, C>(buffer: *const u8, component: PhantomData<C>, components: &mut VxColumns, length: usize, it: identifier::Iter<R>)
        requires old(components)@.len() == length,
        ensures final(components)@ == old(components)@.push(vx_row_remove(vx_ptr_row(buffer), component)) { unimplemented!() }
    #[verifier::external_body]
    pub unsafe fn vx_clear_components<R: Registry>(components: &mut VxColumns, length: usize, it: identifier::Iter<R>)
        requires old(components)@.len() == length,
        ensures final(components)@.len() == 0 { unimplemented!() }
    #[verifier::external_body]
    pub unsafe fn vx_shrink_components_to_fit<R: Registry>(components: &mut VxColumns, length: usize, it: identifier::Iter<R>)
        requires old(components)@.len() == length,
        ensures final(components)@ == old(components)@ { unimplemented!() }
    #[verifier::external_body]
    pub unsafe fn vx_reserve_components(components: &mut VxColumns, length: usize, additional: usize)
        requires old(components)@.len() == length,
        ensures final(components)@ == old(components)@ { unimplemented!() }

pub struct Archetype<R>
where
    R: Registry, {
    pub identifier: Identifier<R>,

    pub entity_identifiers: Vec<entity::Identifier>,
    pub components: VxColumns,
    pub length: usize,
}


    impl<R: Registry> Archetype<R> {
        pub open spec fn key(&self) -> IdentifierRef<R> { self.identifier.spec_ref() }
        /// the entity identifier column: the first `length` elements of the raw buffer
        pub open spec fn ids(&self) -> Seq<entity::Identifier> { self.entity_identifiers@.take(self.length as int) }
        pub open spec fn rows(&self) -> Seq<VxRow> { self.components@ }
        pub open spec fn wf(&self) -> bool {
            self.entity_identifiers@.len() >= self.length && self.components@.len() == self.length
        }
        /// C13 / C02: every stored row is reachable through exactly the identifier attached to
        /// it: that identifier resolves, to (this table, that row)
        pub open spec fn agrees(&self, a: &Allocator<R>) -> bool {
            forall|r: int| 0 <= r < self.length ==> a.resolves(#[trigger] self.ids()[r])
                && a.view()[self.ids()[r]] == (Location { identifier: self.key(), index: r as usize })
        }
        /// the identifier of the last row (the one a swap-remove moves) is live
        pub proof fn lemma_last_resolves(&self, a: &Allocator<R>)
            requires self.agrees(a), self.wf(), self.length > 0,
            ensures a.resolves(self.entity_identifiers@.take(self.length as int).last()),
                    a.resolves(self.entity_identifiers@[self.length - 1]),
        {
            assert(self.ids()[self.length - 1] == self.entity_identifiers@[self.length - 1]);
        }
        pub proof fn lemma_ids_distinct(&self, a: &Allocator<R>)
            requires self.agrees(a), self.wf(),
            ensures forall|r: int, q: int| 0 <= r < q < self.length ==> self.ids()[r] != self.ids()[q],
        {
            assert forall|r: int, q: int| 0 <= r < q < self.length implies self.ids()[r] != self.ids()[q] by {
                assert(a.view()[self.ids()[r]].index == r as usize);
                assert(a.view()[self.ids()[q]].index == q as usize);
            }
        }
    }

impl<R> Archetype<R> where R: Registry {
    pub fn new(identifier: Identifier<R>) -> (r: Self)
        ensures
            r.wf(),
            r.length == 0 && r.ids().len() == 0 && r.rows().len() == 0,
            r.key() == identifier.spec_ref(),
    {

        let mut entity_identifiers = Vec::new();

        let components_len = identifier.count();
        let mut components = VxColumns::vx_with_capacity(components_len);

        unsafe {
            vx_new_components_with_capacity(&mut components, 0, identifier.iter());
        }

        unsafe {
            Self::from_raw_parts(
                identifier,
                entity_identifiers,
                components,
                0,
            )
        }
    
    }

    pub unsafe fn from_raw_parts(identifier: Identifier<R>, entity_identifiers: Vec<entity::Identifier>, components: VxColumns, length: usize) -> (r: Self)
        ensures
            r.identifier == identifier && r.entity_identifiers == entity_identifiers && r.components == components && r.length == length,
    {

        Self {
            identifier,

            entity_identifiers,
            components,
            length,
        }
    
    }

    pub unsafe fn push<E>(&mut self, entity: E, entity_allocator: &mut Allocator<R>,) -> (id: entity::Identifier)
        requires
            old(self).wf(),
            old(entity_allocator).wf(),
            old(self).agrees(old(entity_allocator)),
            old(self).length < usize::MAX,
        ensures
            final(self).wf(),
            final(self).key() == old(self).key(),
            final(entity_allocator).wf_free_in_bounds(),
            final(entity_allocator).wf_free_inactive(),
            final(entity_allocator).wf_free_distinct(),
            final(entity_allocator).wf_free_complete(),
            final(self).agrees(final(entity_allocator)),
            final(self).length == old(self).length + 1,
            final(self).ids() == old(self).ids().push(id),
            final(self).rows() == old(self).rows().push(vx_entity_row(entity)),
            final(entity_allocator).active_count() == old(entity_allocator).active_count() + 1,
            Allocator::allocate_post(old(entity_allocator), final(entity_allocator), Location { identifier: old(self).key(), index: old(self).length }, id),
    {

let ghost vx_self0 = *self; let ghost vx_alloc0 = *entity_allocator;


        unsafe { vx_push_components(entity, &mut self.components, self.length) };

        let entity_identifier = entity_allocator.allocate(Location {
            identifier:

                unsafe { self.identifier.as_ref() },
            index: self.length,
        });

        vx_raw_vec_len(&mut self.entity_identifiers, self.length);
        self.entity_identifiers.push(entity_identifier);
        /* R4: write-back of self.entity_identifiers dropped */

        self.length += 1;

proof {
            assert(self.ids() =~= vx_self0.ids().push(entity_identifier));
            assert forall|r: int| 0 <= r < self.length implies entity_allocator.resolves(#[trigger] self.ids()[r])
                && entity_allocator.view()[self.ids()[r]] == (Location { identifier: self.key(), index: r as usize }) by {
                if r < vx_self0.length {
                    assert(self.ids()[r] == vx_self0.ids()[r]);
                    assert(vx_alloc0.resolves(vx_self0.ids()[r]));
                    assert(vx_alloc0.view().dom().contains(vx_self0.ids()[r]));
                }
            }
        }
        entity_identifier

    }

    pub unsafe fn extend<E>(&mut self, entities: entities::Batch<E>, entity_allocator: &mut Allocator<R>,) -> (ids: Vec<entity::Identifier>)
        requires
            old(self).wf(),
            old(entity_allocator).wf(),
            old(self).agrees(old(entity_allocator)),
            old(self).length + vx_batch_rows(entities.entities).len() <= usize::MAX,
            old(entity_allocator).slots@.len() + vx_batch_rows(entities.entities).len() <= usize::MAX,
        ensures
            final(self).wf(),
            final(self).key() == old(self).key(),
            final(entity_allocator).wf_free_in_bounds(),
            final(entity_allocator).wf_free_inactive(),
            final(entity_allocator).wf_free_distinct(),
            final(entity_allocator).wf_free_complete(),
            final(self).agrees(final(entity_allocator)),
            final(self).length == old(self).length + vx_batch_rows(entities.entities).len(),
            final(self).ids() == old(self).ids() + ids@,
            final(self).rows() == old(self).rows() + vx_batch_rows(entities.entities),
            ids@.len() == vx_batch_rows(entities.entities).len(),
            final(entity_allocator).active_count() == old(entity_allocator).active_count() + ids@.len(),
            forall|k: int| 0 <= k < ids@.len() ==> !old(entity_allocator).resolves(#[trigger] ids@[k]),
            forall|i: entity::Identifier| old(entity_allocator).resolves(i) ==> final(entity_allocator).resolves(i) && final(entity_allocator).view()[i] == old(entity_allocator).view()[i],
            forall|i: entity::Identifier| final(entity_allocator).resolves(i) == (old(entity_allocator).resolves(i) || ids@.contains(i)),
    {

let ghost vx_self0 = *self; let ghost vx_alloc0 = *entity_allocator;

        let component_len = vx_component_len(&entities.entities);

        unsafe {
            vx_extend_components(entities.entities, &mut self.components, self.length);
        }

        let entity_identifiers = entity_allocator.allocate_batch(Locations::new(
            self.length..(self.length + component_len),

            unsafe { self.identifier.as_ref() },
        ));

        vx_raw_vec_len(&mut self.entity_identifiers, self.length);
let ghost vx_mid = *self; proof { assert(self.entity_identifiers@ =~= vx_self0.ids() + entity_identifiers@.take(0)); }

        { let mut vx_i: usize = 0; while vx_i < entity_identifiers.len() 
            invariant
                vx_i <= entity_identifiers@.len(),
                self.entity_identifiers@ == vx_self0.ids() + entity_identifiers@.take(vx_i as int),
                self.length == vx_self0.length && self.components == vx_mid.components && self.identifier == vx_self0.identifier,
            decreases entity_identifiers@.len() - vx_i
{
 self.entity_identifiers.push(entity_identifiers[vx_i]);
 vx_i += 1;
 } }
        /* R4: write-back of self.entity_identifiers dropped */

        self.length += component_len;

proof {
            assert(entity_identifiers@.take(entity_identifiers@.len() as int) =~= entity_identifiers@);
            assert(self.ids() =~= vx_self0.ids() + entity_identifiers@);
            assert forall|r: int| 0 <= r < self.length implies entity_allocator.resolves(#[trigger] self.ids()[r])
                && entity_allocator.view()[self.ids()[r]] == (Location { identifier: self.key(), index: r as usize }) by {
                if r < vx_self0.length {
                    assert(self.ids()[r] == vx_self0.ids()[r]);
                    assert(vx_alloc0.resolves(vx_self0.ids()[r]));
                } else {
                    let k = r - vx_self0.length;
                    assert(self.ids()[r] == entity_identifiers@[k]);
                }
            }
        }
        entity_identifiers

    }

    pub unsafe fn set_component_unchecked<C>(&mut self, index: usize, component: C)
        requires
            old(self).wf(),
            index < old(self).length,
        ensures
            final(self).wf(),
            final(self).key() == old(self).key(),
            final(self).rows() == old(self).rows().update(index as int, vx_row_set(old(self).rows()[index as int], component)),
            final(self).ids() == old(self).ids() && final(self).length == old(self).length,
    {


        unsafe {
            vx_set_component(
                index,
                component,
                &mut self.components,
                self.length,
                self.identifier.iter(),
            );
        }
    
    }

    pub unsafe fn remove_row_unchecked(&mut self, index: usize, entity_allocator: &mut Allocator<R>,)
        requires
            old(self).wf(),
            old(entity_allocator).wf(),
            old(self).agrees(old(entity_allocator)),
            index < old(self).length,
        ensures
            final(self).wf(),
            final(self).key() == old(self).key(),
            final(entity_allocator).wf_free_in_bounds(),
            final(entity_allocator).wf_free_inactive(),
            final(entity_allocator).wf_free_distinct(),
            final(entity_allocator).wf_free_complete(),
            final(self).length == old(self).length - 1,
            final(self).ids() == vx_swap_remove(old(self).ids(), index as int),
            final(self).rows() == vx_swap_remove(old(self).rows(), index as int),
            final(self).agrees(final(entity_allocator)),
            forall|i: entity::Identifier| #![trigger final(entity_allocator).resolves(i)] #![trigger old(entity_allocator).resolves(i)] (final(entity_allocator).resolves(i) == old(entity_allocator).resolves(i)) && (old(entity_allocator).resolves(i) && !(index < old(self).length - 1 && i == old(self).ids().last()) ==> final(entity_allocator).view()[i] == old(entity_allocator).view()[i]),
            final(entity_allocator).view() == (if index < old(self).length - 1 { old(entity_allocator).view().insert(old(self).ids().last(), Location { identifier: old(self).key(), index: index }) } else { old(entity_allocator).view() }),
            final(entity_allocator).active_count() == old(entity_allocator).active_count(),
            final(entity_allocator).free@ == old(entity_allocator).free@,
            final(entity_allocator).slots@.len() == old(entity_allocator).slots@.len(),
            forall|s: int| 0 <= s < old(entity_allocator).slots@.len() ==> (#[trigger] final(entity_allocator).slots@[s]).generation == old(entity_allocator).slots@[s].generation,
    {

let ghost vx_self0 = *self; let ghost vx_alloc0 = *entity_allocator; proof { vx_self0.lemma_ids_distinct(&vx_alloc0); vx_self0.lemma_last_resolves(&vx_alloc0); }


        unsafe {
            vx_remove_component_row(index, &mut self.components, self.length, self.identifier.iter());
        }

        vx_raw_vec_len(&mut self.entity_identifiers, self.length);

        if index < self.length - 1 {

            unsafe {
                entity_allocator.modify_location_index_unchecked(
                    *self.entity_identifiers.last().unwrap(),
                    index,
                );
            }
        }
        self.entity_identifiers.swap_remove(index);

        self.length -= 1;
proof {
            let len = vx_self0.length as int;
            let idx = index as int;
            vx_self0.lemma_ids_distinct(&vx_alloc0);
            assert(self.ids() =~= vx_swap_remove(vx_self0.ids(), idx));
            assert forall|r: int| 0 <= r < self.length implies entity_allocator.resolves(#[trigger] self.ids()[r])
                && entity_allocator.view()[self.ids()[r]] == (Location { identifier: self.key(), index: r as usize }) by {
                if r == idx {
                    assert(self.ids()[r] == vx_self0.ids()[len - 1]);
                } else {
                    assert(self.ids()[r] == vx_self0.ids()[r]);
                    assert(vx_self0.ids()[r] != vx_self0.ids()[len - 1]);
                    assert(vx_alloc0.view().dom().contains(vx_self0.ids()[r]));
                }
            }
        }

    }

    pub unsafe fn pop_row_unchecked(&mut self, index: usize, entity_allocator: &mut Allocator<R>,) -> (r: (entity::Identifier, Vec<u8>))
        requires
            old(self).wf(),
            old(entity_allocator).wf(),
            old(self).agrees(old(entity_allocator)),
            index < old(self).length,
        ensures
            final(self).wf(),
            final(self).key() == old(self).key(),
            final(entity_allocator).wf_free_in_bounds(),
            final(entity_allocator).wf_free_inactive(),
            final(entity_allocator).wf_free_distinct(),
            final(entity_allocator).wf_free_complete(),
            final(self).length == old(self).length - 1,
            final(self).ids() == vx_swap_remove(old(self).ids(), index as int),
            final(self).rows() == vx_swap_remove(old(self).rows(), index as int),
            r.0 == old(self).ids()[index as int] && vx_buffer_row(r.1@) == old(self).rows()[index as int],
            final(self).agrees(final(entity_allocator)),
            forall|i: entity::Identifier| #![trigger final(entity_allocator).resolves(i)] #![trigger old(entity_allocator).resolves(i)] (final(entity_allocator).resolves(i) == old(entity_allocator).resolves(i)) && (old(entity_allocator).resolves(i) && !(index < old(self).length - 1 && i == old(self).ids().last()) ==> final(entity_allocator).view()[i] == old(entity_allocator).view()[i]),
            final(entity_allocator).view() == (if index < old(self).length - 1 { old(entity_allocator).view().insert(old(self).ids().last(), Location { identifier: old(self).key(), index: index }) } else { old(entity_allocator).view() }),
            final(entity_allocator).active_count() == old(entity_allocator).active_count(),
            final(entity_allocator).free@ == old(entity_allocator).free@,
            final(entity_allocator).slots@.len() == old(entity_allocator).slots@.len(),
            forall|s: int| 0 <= s < old(entity_allocator).slots@.len() ==> (#[trigger] final(entity_allocator).slots@[s]).generation == old(entity_allocator).slots@[s].generation,
    {

let ghost vx_self0 = *self; let ghost vx_alloc0 = *entity_allocator; proof { vx_self0.lemma_ids_distinct(&vx_alloc0); vx_self0.lemma_last_resolves(&vx_alloc0); }

        let size_of_components = self.identifier.size_of_components();
        let mut bytes: Vec<u8> = Vec::with_capacity(size_of_components);

        unsafe {
            vx_pop_component_row(
                index,
                &mut bytes,
                &mut self.components,
                self.length,
                self.identifier.iter(),
            );
        }

        

        vx_raw_vec_len(&mut self.entity_identifiers, self.length);

        if index < self.length - 1 {

            unsafe {
                entity_allocator.modify_location_index_unchecked(
                    *self.entity_identifiers.last().unwrap(),
                    index,
                );
            }
        }
        let entity_identifier = self.entity_identifiers.swap_remove(index);

        self.length -= 1;

proof {
            let len = vx_self0.length as int;
            let idx = index as int;
            vx_self0.lemma_ids_distinct(&vx_alloc0);
            assert(self.ids() =~= vx_swap_remove(vx_self0.ids(), idx));
            assert forall|r: int| 0 <= r < self.length implies entity_allocator.resolves(#[trigger] self.ids()[r])
                && entity_allocator.view()[self.ids()[r]] == (Location { identifier: self.key(), index: r as usize }) by {
                if r == idx {
                    assert(self.ids()[r] == vx_self0.ids()[len - 1]);
                } else {
                    assert(self.ids()[r] == vx_self0.ids()[r]);
                    assert(vx_self0.ids()[r] != vx_self0.ids()[len - 1]);
                    assert(vx_alloc0.view().dom().contains(vx_self0.ids()[r]));
                }
            }
        }
        (entity_identifier, bytes)

    }

    pub unsafe fn push_from_buffer_and_component<C>(&mut self, entity_identifier: entity::Identifier, buffer: *const u8, component: C,) -> (r: usize)
        requires
            old(self).wf(),
            old(self).length < usize::MAX,
        ensures
            final(self).wf(),
            final(self).key() == old(self).key(),
            r == old(self).length,
            final(self).length == old(self).length + 1,
            final(self).ids() == old(self).ids().push(entity_identifier),
            final(self).rows() == old(self).rows().push(vx_row_add(vx_ptr_row(buffer), component)),
    {

let ghost vx_self0 = *self;


        unsafe {
            vx_push_components_from_buffer_and_component(
                buffer,
                component,
                &mut self.components,
                self.length,
                self.identifier.iter(),
            );
        }

        vx_raw_vec_len(&mut self.entity_identifiers, self.length);
        self.entity_identifiers.push(entity_identifier);
        /* R4: write-back of self.entity_identifiers dropped */

        self.length += 1;

proof { assert(self.ids() =~= vx_self0.ids().push(entity_identifier)); }
        self.length - 1

    }

    pub unsafe fn push_from_buffer_skipping_component<C>(&mut self, entity_identifier: entity::Identifier, buffer: *const u8,) -> (r: usize)
        requires
            old(self).wf(),
            old(self).length < usize::MAX,
        ensures
            final(self).wf(),
            final(self).key() == old(self).key(),
            r == old(self).length,
            final(self).length == old(self).length + 1,
            final(self).ids() == old(self).ids().push(entity_identifier),
            final(self).rows() == old(self).rows().push(vx_row_remove(vx_ptr_row(buffer), PhantomData::<C>)),
    {

let ghost vx_self0 = *self;


        unsafe {
            vx_push_components_from_buffer_skipping_component(
                buffer,
                PhantomData::<C>,
                &mut self.components,
                self.length,
                self.identifier.iter(),
            );
        }

        vx_raw_vec_len(&mut self.entity_identifiers, self.length);
        self.entity_identifiers.push(entity_identifier);
        /* R4: write-back of self.entity_identifiers dropped */

        self.length += 1;

proof { assert(self.ids() =~= vx_self0.ids().push(entity_identifier)); }
        self.length - 1

    }

    pub unsafe fn clear(&mut self, entity_allocator: &mut Allocator<R>)
        requires
            old(self).wf(),
            old(entity_allocator).wf(),
            old(self).agrees(old(entity_allocator)),
        ensures
            final(self).wf(),
            final(self).key() == old(self).key(),
            final(entity_allocator).wf_free_in_bounds(),
            final(entity_allocator).wf_free_inactive(),
            final(entity_allocator).wf_free_distinct(),
            final(entity_allocator).wf_free_complete(),
            final(self).length == 0 && final(self).rows().len() == 0 && final(self).ids().len() == 0,
            forall|k: int| 0 <= k < old(self).length ==> !final(entity_allocator).resolves(#[trigger] old(self).ids()[k]),
            forall|i: entity::Identifier| final(entity_allocator).resolves(i) == (old(entity_allocator).resolves(i) && !old(self).ids().contains(i)),
            forall|i: entity::Identifier| final(entity_allocator).resolves(i) ==> final(entity_allocator).view()[i] == old(entity_allocator).view()[i],
            final(entity_allocator).active_count() + old(self).length == old(entity_allocator).active_count(),
            final(entity_allocator).slots@.len() == old(entity_allocator).slots@.len(),
            forall|s: int| 0 <= s < old(entity_allocator).slots@.len() ==> (#[trigger] final(entity_allocator).slots@[s]).generation == old(entity_allocator).slots@[s].generation,
    {

let ghost vx_self0 = *self; let ghost vx_alloc0 = *entity_allocator; proof { vx_self0.lemma_ids_distinct(&vx_alloc0); }


        unsafe { vx_clear_components(&mut self.components, self.length, self.identifier.iter()) };

        vx_raw_vec_len(&mut self.entity_identifiers, self.length);
        for entity_identifier in vx_it: self.entity_identifiers.iter() 
            invariant
                entity_allocator.wf(),
                self.entity_identifiers@ == vx_self0.ids(),
                vx_it.index@ <= vx_self0.length,
                vx_self0.ids().len() == vx_self0.length,
                forall|r: int| vx_it.index@ <= r < vx_self0.length ==> entity_allocator.resolves(#[trigger] vx_self0.ids()[r]),
                forall|i: entity::Identifier| entity_allocator.resolves(i) == (vx_alloc0.resolves(i) && !vx_self0.ids().take(vx_it.index@).contains(i)),
                forall|i: entity::Identifier| entity_allocator.resolves(i) ==> entity_allocator.view()[i] == vx_alloc0.view()[i],
                entity_allocator.slots@.len() == vx_alloc0.slots@.len(),
                entity_allocator.active_count() + vx_it.index@ == vx_alloc0.active_count(),
                forall|s: int| 0 <= s < vx_alloc0.slots@.len() ==> (#[trigger] entity_allocator.slots@[s]).generation == vx_alloc0.slots@[s].generation,
                forall|r: int, q: int| 0 <= r < q < vx_self0.length ==> vx_self0.ids()[r] != vx_self0.ids()[q],
{

let ghost vx_pre = *entity_allocator; let ghost vx_k = vx_it.index@; proof { assert(vx_k < vx_self0.length); assert(*entity_identifier == vx_self0.ids()[vx_k]); }
            unsafe { entity_allocator.free_unchecked(*entity_identifier) };
proof {
                let k = vx_k;
                let idk = vx_self0.ids()[k];
                assert(*entity_identifier == idk);
                let t0 = vx_self0.ids().take(k);
                let t1 = vx_self0.ids().take(k + 1);
                assert(t1 =~= t0.push(idk));
                assert forall|i: entity::Identifier| entity_allocator.resolves(i) == (vx_alloc0.resolves(i) && !t1.contains(i)) by {
                    assert(entity_allocator.resolves(i) == (vx_pre.resolves(i) && i != idk));
                    assert(vx_pre.resolves(i) == (vx_alloc0.resolves(i) && !t0.contains(i)));
                    assert(t1.contains(i) == (t0.contains(i) || i == idk)) by {
                        if t1.contains(i) {
                            let j = choose|j: int| 0 <= j < t1.len() && t1[j] == i;
                            if j < k { assert(t0[j] == i); }
                        }
                        if t0.contains(i) {
                            let j = choose|j: int| 0 <= j < t0.len() && t0[j] == i;
                            assert(t1[j] == i);
                        }
                        if i == idk { assert(t1[k] == idk); }
                    }
                }
                assert forall|r: int| k + 1 <= r < vx_self0.length implies entity_allocator.resolves(#[trigger] vx_self0.ids()[r]) by {
                    assert(vx_self0.ids()[r] != idk);
                    assert(vx_pre.resolves(vx_self0.ids()[r]));
                }
                assert forall|i: entity::Identifier| entity_allocator.resolves(i) implies entity_allocator.view()[i] == vx_alloc0.view()[i] by {
                    assert(vx_pre.resolves(i));
                }
            }

        }
        self.entity_identifiers.clear();

        self.length = 0;
proof {
            assert(vx_self0.ids().take(vx_self0.length as int) =~= vx_self0.ids());
            assert(self.ids() =~= Seq::<entity::Identifier>::empty());
        }

    }

    pub unsafe fn reserve<E>(&mut self, additional: usize)
        requires
            old(self).wf(),
        ensures
            final(self).wf(),
            final(self).key() == old(self).key(),
            final(self).length == old(self).length && final(self).rows() == old(self).rows() && final(self).ids() == old(self).ids(),
    {


        unsafe { vx_reserve_components(&mut self.components, self.length, additional) }

        vx_raw_vec_len(&mut self.entity_identifiers, self.length);
        self.entity_identifiers.reserve(additional);
        /* R4: write-back of self.entity_identifiers dropped */
    
    }

    pub fn clear_detached(&mut self)
        requires
            old(self).wf(),
        ensures
            final(self).wf(),
            final(self).key() == old(self).key(),
            final(self).length == 0 && final(self).rows().len() == 0 && final(self).ids().len() == 0,
    {


        unsafe { vx_clear_components(&mut self.components, self.length, self.identifier.iter()) };

        self.length = 0;
    
    }

    pub fn shrink_to_fit(&mut self)
        requires
            old(self).wf(),
        ensures
            final(self).wf(),
            final(self).key() == old(self).key(),
            final(self).length == old(self).length && final(self).rows() == old(self).rows() && final(self).ids() == old(self).ids(),
    {


        unsafe {
            vx_shrink_components_to_fit(&mut self.components, self.length, self.identifier.iter());
        }

        vx_raw_vec_len(&mut self.entity_identifiers, self.length);
        self.entity_identifiers.shrink_to_fit();
        /* R4: write-back of self.entity_identifiers dropped */
    
    }

    pub unsafe fn identifier(&self) -> (r: IdentifierRef<R>)
        ensures
            r == self.key(),
    {


        unsafe { self.identifier.as_ref() }
    
    }

    pub fn len(&self) -> (r: usize)
        ensures
            r == self.length,
    {

        self.length
    
    }

    pub fn is_empty(&self) -> (r: bool)
        ensures
            r == (self.length == 0),
    {

        self.len() == 0
    
    }

}

}

// R7: hashbrown::HashMap is an opaque type whose abstract value is a (possibly infinite-domain)
// map; `get` is assumed to be lookup in that map (assumption A3).
pub struct FnvBuildHasher;
#[verifier::external_body]
#[verifier::accept_recursive_types(K)]
#[verifier::accept_recursive_types(V)]
#[verifier::accept_recursive_types(S)]
pub struct HashMap<K, V, S> { p: PhantomData<(K, V, S)> }
impl<K, V, S> HashMap<K, V, S> {
    pub uninterp spec fn view(&self) -> IMap<K, V>;
    #[verifier::external_body]
    pub fn get(&self, k: &K) -> (r: Option<&V>)
        ensures r == (if self@.dom().contains(*k) { Some(&self@[*k]) } else { None::<&V> })
    { unimplemented!() }
}

pub mod entity {
    use super::*;
#[derive(Clone, Copy)]
pub struct Identifier {
    pub index: usize,
    pub generation: u64,
}

impl Identifier {
    pub fn new(index: usize, generation: u64) -> (r: Self)
        ensures
            r.index == index,
            r.generation == generation,
    {

        Self { index, generation }
    
    }

}

}
pub struct Location<R>
where
    R: Registry, {

    pub identifier: archetype::IdentifierRef<R>,

    pub index: usize,
}

impl<R> Clone for Location<R> where R: Registry {
     fn clone(&self) -> (r: Self)
        ensures
            r == *self,
    {

        *self
    
    }

}

impl<R> Copy for Location<R> where R: Registry {}

impl<R> Location<R> where R: Registry {
    pub fn new(identifier: archetype::IdentifierRef<R>, index: usize) -> (r: Self)
        ensures
            r == (Location { identifier, index }),
    {

        Self { identifier, index }
    
    }

    pub unsafe fn clone_with_new_identifier(&self, identifier_map: &HashMap< archetype::IdentifierRef<R>, archetype::IdentifierRef<R>, FnvBuildHasher, >,) -> (r: Self)
        requires
            identifier_map@.dom().contains(self.identifier),
        ensures
            r == (Location { identifier: identifier_map@[self.identifier], index: self.index }),
    {

        Self {

            identifier: *unsafe { identifier_map.get(&self.identifier).unwrap() },
            index: self.index,
        }
    
    }

}

pub struct Locations<R>
where
    R: Registry, {

    pub indices: Range<usize>,

    pub identifier: archetype::IdentifierRef<R>,
}

pub struct Slot<R>
where
    R: Registry, {

    pub generation: u64,

    pub location: Option<Location<R>>,
}

pub struct Allocator<R>
where
    R: Registry, {
    pub slots: Vec<Slot<R>>,
    pub free: VecDeque<usize>,
}


impl<R: Registry> Locations<R> {
    pub open spec fn wf(&self) -> bool { self.indices.start <= self.indices.end }
    pub open spec fn spec_len(&self) -> nat { (self.indices.end - self.indices.start) as nat }
    /// the k-th location this iterator will still yield
    pub open spec fn nth(&self, k: int) -> Location<R> {
        Location { identifier: self.identifier, index: (self.indices.start + k) as usize }
    }
}

impl<R: Registry> Allocator<R> {
    // ---- representation invariant (C13) ----
    pub open spec fn wf_free_in_bounds(&self) -> bool {
        forall|i: int| 0 <= i < self.free@.len() ==> (#[trigger] self.free@[i]) < self.slots@.len()
    }
    pub open spec fn wf_free_inactive(&self) -> bool {
        forall|i: int| 0 <= i < self.free@.len() ==> self.slots@[(#[trigger] self.free@[i]) as int].location is None
    }
    pub open spec fn wf_free_distinct(&self) -> bool {
        forall|i: int, j: int| 0 <= i < j < self.free@.len() ==> self.free@[i] != self.free@[j]
    }
    /// every released slot is available for reuse: none is lost
    pub open spec fn wf_free_complete(&self) -> bool {
        forall|s: int| 0 <= s < self.slots@.len() && (#[trigger] self.slots@[s]).location is None
            ==> self.free@.contains(s as usize)
    }
    pub open spec fn wf(&self) -> bool {
        self.wf_free_in_bounds() && self.wf_free_inactive() && self.wf_free_distinct() && self.wf_free_complete()
    }

    // ---- abstract view: the map identifier -> location (C01 / C02) ----
    pub open spec fn resolves(&self, id: entity::Identifier) -> bool {
        id.index < self.slots@.len()
            && self.slots@[id.index as int].generation == id.generation
            && self.slots@[id.index as int].location is Some
    }
    pub open spec fn view(&self) -> IMap<entity::Identifier, Location<R>> {
        IMap::new(|id: entity::Identifier| self.resolves(id), |id: entity::Identifier| self.slots@[id.index as int].location->0)
    }
    pub proof fn lemma_slots_len_fits(&self) ensures self.slots@.len() <= usize::MAX {
        assert(self.slots.len() == self.slots@.len());
    }
    pub open spec fn active_count(&self) -> nat { vx_active_count(self.slots@) }
    /// slot `s` is the same in `self` and `o`
    pub open spec fn same_slot(&self, o: &Self, s: int) -> bool {
        s < self.slots@.len() && s < o.slots@.len() && self.slots@[s] == o.slots@[s]
    }
}

pub open spec fn vx_min(a: int, b: int) -> int { if a <= b { a } else { b } }

/// number of active slots == number of live identifiers (C13: World::len())
pub open spec fn vx_active_count<R: Registry>(s: Seq<Slot<R>>) -> nat
    decreases s.len()
{
    if s.len() == 0 { 0 } else { vx_active_count(s.drop_last()) + (if s.last().location is Some { 1nat } else { 0nat }) }
}
pub proof fn lemma_count_push<R: Registry>(s: Seq<Slot<R>>, x: Slot<R>)
    ensures vx_active_count(s.push(x)) == vx_active_count(s) + (if x.location is Some { 1nat } else { 0nat })
{
    assert(s.push(x).drop_last() =~= s);
}
pub proof fn lemma_count_update<R: Registry>(s: Seq<Slot<R>>, i: int, x: Slot<R>)
    requires 0 <= i < s.len(),
    ensures vx_active_count(s.update(i, x)) + (if s[i].location is Some { 1nat } else { 0nat })
        == vx_active_count(s) + (if x.location is Some { 1nat } else { 0nat })
    decreases s.len()
{
    if i == s.len() - 1 {
        assert(s.update(i, x).drop_last() =~= s.drop_last());
    } else {
        assert(s.update(i, x).drop_last() =~= s.drop_last().update(i, x));
        lemma_count_update(s.drop_last(), i, x);
    }
}
pub proof fn lemma_count_same_activity<R: Registry>(s: Seq<Slot<R>>, t: Seq<Slot<R>>)
    requires s.len() == t.len(), forall|i: int| 0 <= i < s.len() ==> ((#[trigger] s[i]).location is Some) == (t[i].location is Some),
    ensures vx_active_count(s) == vx_active_count(t)
    decreases s.len()
{
    if s.len() > 0 {
        assert(s.last().location is Some == t.last().location is Some);
        lemma_count_same_activity(s.drop_last(), t.drop_last());
    }
}
/// an active slot makes the count positive
pub proof fn lemma_count_positive<R: Registry>(s: Seq<Slot<R>>, i: int)
    requires 0 <= i < s.len(), s[i].location is Some,
    ensures vx_active_count(s) >= 1
    decreases s.len()
{
    if i == s.len() - 1 { } else { lemma_count_positive(s.drop_last(), i); }
}
pub proof fn lemma_count_bound<R: Registry>(s: Seq<Slot<R>>)
    ensures vx_active_count(s) <= s.len()
    decreases s.len()
{
    if s.len() > 0 { lemma_count_bound(s.drop_last()); }
}
/// no slot active  <=>  count 0
pub proof fn lemma_count_zero<R: Registry>(s: Seq<Slot<R>>)
    requires forall|i: int| 0 <= i < s.len() ==> (#[trigger] s[i]).location is None,
    ensures vx_active_count(s) == 0
    decreases s.len()
{
    if s.len() > 0 { assert(s.last().location is None); lemma_count_zero(s.drop_last()); }
}

/// a location re-keyed through the old-archetype -> new-archetype identifier map (C10)
pub open spec fn vx_remap<R: Registry>(l: Option<Location<R>>, m: IMap<archetype::IdentifierRef<R>, archetype::IdentifierRef<R>>) -> Option<Location<R>> {
    match l { Some(l) => Some(Location { identifier: m[l.identifier], index: l.index }), None => None }
}

impl<R: Registry> Allocator<R> {
    /// safety precondition of clone / clone_from: the map covers every archetype some slot refers to
    pub open spec fn map_covers(&self, m: IMap<archetype::IdentifierRef<R>, archetype::IdentifierRef<R>>) -> bool {
        forall|s: int| 0 <= s < self.slots@.len() && (#[trigger] self.slots@[s]).location is Some ==> m.dom().contains(self.slots@[s].location->0.identifier)
    }
    /// `self` is `src` with every location re-keyed through `m`: same slots, same generations,
    /// same free list -- so the same identifiers resolve, to the corresponding rows (C10, C02)
    pub open spec fn is_remapped_copy_of(&self, src: &Self, m: IMap<archetype::IdentifierRef<R>, archetype::IdentifierRef<R>>) -> bool {
        &&& self.slots@.len() == src.slots@.len()
        &&& forall|s: int| 0 <= s < src.slots@.len() ==> (#[trigger] self.slots@[s]).generation == src.slots@[s].generation
        &&& forall|s: int| 0 <= s < src.slots@.len() ==> (#[trigger] self.slots@[s]).location == vx_remap(src.slots@[s].location, m)
        &&& self.free@ == src.free@
    }
    pub proof fn lemma_remapped_copy_wf(&self, src: &Self, m: IMap<archetype::IdentifierRef<R>, archetype::IdentifierRef<R>>)
        requires self.is_remapped_copy_of(src, m), src.wf(),
        ensures self.wf(), forall|id: entity::Identifier| self.resolves(id) == src.resolves(id),
    {
        assert forall|s: int| 0 <= s < self.slots@.len() && (#[trigger] self.slots@[s]).location is None implies self.free@.contains(s as usize) by {
            assert(src.slots@[s].location is None);
        }
        assert forall|i: int| 0 <= i < self.free@.len() implies self.slots@[(#[trigger] self.free@[i]) as int].location is None by {
            assert(src.slots@[src.free@[i] as int].location is None);
        }
    }
}

impl<R> Locations<R> where R: Registry {
    pub fn new(indices: Range<usize>, identifier: archetype::IdentifierRef<R>) -> (r: Self)
        ensures
            r.indices == indices && r.identifier == identifier,
    {

        Self {
            indices,
            identifier,
        }
    
    }

    pub fn len(&self) -> (n: usize)
        requires
            self.wf(),
        ensures
            n == self.spec_len(),
    {

        assert(self.indices.end >= self.indices.start);
        self.indices.end - self.indices.start
    
    }

    pub fn is_empty(&self) -> (b: bool)
        ensures
            b == !(self.indices.start < self.indices.end),
    {

proof { vx_axiom_range_is_empty_usize(self.indices); }

        self.indices.is_empty()
    
    }

    pub fn next(&mut self) -> (r: Option<Location<R>>)
        requires
            old(self).wf(),
        ensures
            old(self).indices.start < old(self).indices.end ==> r == Some(old(self).nth(0)) && final(self).indices.start == old(self).indices.start + 1,
            old(self).indices.start >= old(self).indices.end ==> r is None && final(self).indices.start == old(self).indices.start,
            final(self).indices.end == old(self).indices.end && final(self).identifier == old(self).identifier,
            final(self).wf(),
    {

        match self.indices.next() { Some(index) => Some(Location {
            identifier: self.identifier,
            index,
        }), None => None }
    
    }

}

impl<R> Slot<R> where R: Registry {
    pub fn new(location: Location<R>) -> (r: Self)
        ensures
            r.generation == 0 && r.location == Some(location),
    {

        Self {
            generation: 0,
            location: Some(location),
        }
    
    }

    pub unsafe fn activate_unchecked(&mut self, location: Location<R>)
        requires
            old(self).location is None,
        ensures
            final(self).generation == old(self).generation.wrapping_add(1),
            final(self).location == Some(location),
    {

        self.generation = self.generation.wrapping_add(1);
        self.location = Some(location);
    
    }

    pub fn deactivate(&mut self)
        ensures
            final(self).generation == old(self).generation,
            final(self).location is None,
    {

        self.location = None;
    
    }

    pub fn is_active(&self) -> (b: bool)
        ensures
            b == (self.location is Some),
    {

        self.location.is_some()
    
    }

    pub unsafe fn clone_with_new_identifier(&self, identifier_map: &HashMap< archetype::IdentifierRef<R>, archetype::IdentifierRef<R>, FnvBuildHasher, >,) -> (r: Self)
        requires
            self.location is Some ==> identifier_map@.dom().contains(self.location->0.identifier),
        ensures
            r.generation == self.generation,
            r.location == vx_remap(self.location, identifier_map@),
    {

        Self {
            generation: self.generation,
            location: match self.location { Some(location) => Some(unsafe { location.clone_with_new_identifier(identifier_map) }), None => None },
        }
    
    }

}

impl<R> Allocator<R> where R: Registry {
    pub fn new() -> (r: Self)
        ensures
            r.wf(),
            r.slots@.len() == 0 && r.free@.len() == 0,
            r.view() == IMap::<entity::Identifier, Location<R>>::empty(),
    {

        Self {
            slots: Vec::new(),
            free: VecDeque::new(),
        }
    
    }

    pub fn allocate(&mut self, location: Location<R>) -> (id: entity::Identifier)
        requires
            old(self).wf(),
        ensures
            final(self).wf_free_in_bounds(),
            final(self).wf_free_inactive(),
            final(self).wf_free_distinct(),
            final(self).wf_free_complete(),
            !old(self).resolves(id),
            final(self).resolves(id),
            final(self).view() == old(self).view().insert(id, location),
            forall|i: entity::Identifier| #![trigger final(self).resolves(i)] #![trigger old(self).resolves(i)] (final(self).resolves(i) == (old(self).resolves(i) || i == id)) && (old(self).resolves(i) ==> final(self).view()[i] == old(self).view()[i]),
            final(self).view()[id] == location,
            id.index < old(self).slots@.len() ==> id.generation == old(self).slots@[id.index as int].generation.wrapping_add(1),
            id.index >= old(self).slots@.len() ==> id.index == old(self).slots@.len() && id.generation == 0,
            final(self).slots@.len() == (if id.index < old(self).slots@.len() { old(self).slots@.len() } else { old(self).slots@.len() + 1 }),
            forall|s: int| 0 <= s < old(self).slots@.len() && s != id.index ==> final(self).slots@[s] == old(self).slots@[s],
            old(self).free@.len() > 0 ==> id.index == old(self).free@[0] && final(self).free@ == old(self).free@.subrange(1, old(self).free@.len() as int),
            old(self).free@.len() == 0 ==> final(self).free@ == old(self).free@ && id.index == old(self).slots@.len(),
            Self::allocate_post(old(self), final(self), location, id),
            final(self).active_count() == old(self).active_count() + 1,
    {

let ghost vx_old = *self;

        let (index, generation) = if let Some(index) = self.free.pop_front() {
            let slot =

                &mut self.slots[index];

            unsafe { slot.activate_unchecked(location) };
            (index, slot.generation)
        } else {
            let index = self.slots.len();
            self.slots.push(Slot::new(location));

            (index, 0)
        };

proof {
            let id = entity::Identifier { index, generation };
            self.lemma_slots_len_fits(); vx_old.lemma_slots_len_fits();
            if vx_old.free@.len() > 0 {
                assert(self.slots@ =~= vx_old.slots@.update(index as int, self.slots@[index as int]));
                lemma_count_update(vx_old.slots@, index as int, self.slots@[index as int]);
            } else {
                assert(self.slots@ =~= vx_old.slots@.push(self.slots@[index as int]));
                lemma_count_push(vx_old.slots@, self.slots@[index as int]);
            }
            if vx_old.free@.len() > 0 {
                assert(index == vx_old.free@[0]);
                assert(self.free@ =~= vx_old.free@.subrange(1, vx_old.free@.len() as int));
                assert forall|i: int| 0 <= i < self.free@.len() implies self.free@[i] == vx_old.free@[i + 1] by {}
                assert forall|i: int| 0 <= i < self.free@.len() implies #[trigger] self.free@[i] != index by {
                    assert(vx_old.free@[0] != vx_old.free@[i + 1]);
                }
                assert forall|s: int| 0 <= s < self.slots@.len() && (#[trigger] self.slots@[s]).location is None
                    implies self.free@.contains(s as usize) by {
                    assert(s != index);
                    assert(vx_old.slots@[s].location is None);
                    assert(vx_old.free@.contains(s as usize));
                    let k = choose|k: int| 0 <= k < vx_old.free@.len() && vx_old.free@[k] == s as usize;
                    assert(k != 0);
                    assert(self.free@[k - 1] == s as usize);
                }
            } else {
                assert(self.free@ =~= vx_old.free@);
                assert forall|s: int| 0 <= s < self.slots@.len() && (#[trigger] self.slots@[s]).location is None
                    implies self.free@.contains(s as usize) by {
                    assert(s != index);
                    assert(vx_old.slots@[s].location is None);
                }
            }
            assert(self.view() =~= vx_old.view().insert(id, location)) by {
                assert forall|i: entity::Identifier| self.resolves(i) == (i == id || vx_old.resolves(i)) by {
                    if i.index != index && i.index < vx_old.slots@.len() { assert(self.slots@[i.index as int] == vx_old.slots@[i.index as int]); }
                }
                assert forall|i: entity::Identifier| self.resolves(i) implies
                    #[trigger] self.view()[i] == vx_old.view().insert(id, location)[i] by {
                    if i.index != index && i.index < vx_old.slots@.len() { assert(self.slots@[i.index as int] == vx_old.slots@[i.index as int]); }
                }
            }
        }
        entity::Identifier::new(index, generation)

    }

    pub fn allocate_batch(&mut self, mut locations: Locations<R>,) -> (ids: Vec<entity::Identifier>)
        requires
            old(self).wf(),
            locations.wf(),
            old(self).slots@.len() + locations.spec_len() <= usize::MAX,
        ensures
            final(self).wf_free_in_bounds(),
            final(self).wf_free_inactive(),
            final(self).wf_free_distinct(),
            final(self).wf_free_complete(),
            ids@.len() == locations.spec_len(),
            forall|k: int| 0 <= k < ids@.len() ==> final(self).resolves(#[trigger] ids@[k]) && final(self).view()[ids@[k]] == locations.nth(k),
            forall|k: int| 0 <= k < ids@.len() ==> !old(self).resolves(#[trigger] ids@[k]),
            forall|j: int, k: int| 0 <= j < k < ids@.len() ==> ids@[j].index != ids@[k].index,
            forall|k: int| 0 <= k < ids@.len() ==> (#[trigger] ids@[k]).index == (if k < old(self).free@.len() { old(self).free@[k] as int } else { old(self).slots@.len() + k - vx_min(old(self).free@.len() as int, ids@.len() as int) }),
            forall|k: int| 0 <= k < ids@.len() && k < old(self).free@.len() ==> (#[trigger] ids@[k]).generation == old(self).slots@[old(self).free@[k] as int].generation.wrapping_add(1),
            forall|k: int| 0 <= k < ids@.len() && k >= old(self).free@.len() ==> (#[trigger] ids@[k]).generation == 0,
            final(self).free@ == old(self).free@.subrange(vx_min(old(self).free@.len() as int, ids@.len() as int), old(self).free@.len() as int),
            final(self).slots@.len() == old(self).slots@.len() + ids@.len() - vx_min(old(self).free@.len() as int, ids@.len() as int),
            final(self).active_count() == old(self).active_count() + ids@.len(),
            forall|s: int| 0 <= s < old(self).slots@.len() && !(exists|k: int| 0 <= k < ids@.len() && (#[trigger] ids@[k]).index == s) ==> final(self).slots@[s] == old(self).slots@[s],
            forall|i: entity::Identifier| final(self).resolves(i) == (old(self).resolves(i) || ids@.contains(i)),
            forall|i: entity::Identifier| old(self).resolves(i) ==> final(self).view()[i] == old(self).view()[i],
    {

let ghost vx_old = *self; let ghost vx_l0 = locations;

        let mut identifiers: Vec<entity::Identifier> = Vec::with_capacity(locations.len());

        while !locations.is_empty() 
            invariant
                self.wf_free_in_bounds(),
                self.wf_free_inactive(),
                self.wf_free_distinct(),
                self.wf_free_complete(),
                locations.wf(),
                locations.indices.end == vx_l0.indices.end,
                locations.identifier == vx_l0.identifier,
                identifiers@.len() == locations.indices.start - vx_l0.indices.start,
                identifiers@.len() <= vx_old.free@.len(),
                self.free@ == vx_old.free@.subrange(identifiers@.len() as int, vx_old.free@.len() as int),
                self.slots@.len() == vx_old.slots@.len(),
                vx_active_count(self.slots@) == vx_active_count(vx_old.slots@) + identifiers@.len(),
                forall|k: int| 0 <= k < identifiers@.len() ==> (#[trigger] identifiers@[k]).index == vx_old.free@[k] && identifiers@[k].generation == vx_old.slots@[vx_old.free@[k] as int].generation.wrapping_add(1),
                forall|k: int| 0 <= k < identifiers@.len() ==> (#[trigger] self.slots@[vx_old.free@[k] as int]) == (Slot { generation: vx_old.slots@[vx_old.free@[k] as int].generation.wrapping_add(1), location: Some(vx_l0.nth(k)) }),
                forall|s: int| 0 <= s < vx_old.slots@.len() && !(exists|k: int| 0 <= k < identifiers@.len() && #[trigger] vx_old.free@[k] == s) ==> self.slots@[s] == vx_old.slots@[s],
                vx_old.wf(),
                vx_old.slots@.len() + vx_l0.spec_len() <= usize::MAX,
                vx_l0.wf(),
            ensures
                self.free@.len() == 0 || !(locations.indices.start < locations.indices.end),
            decreases self.free@.len()
{
            let Some(index) = self.free.pop_front() else {
                break;
            };
proof {
                let k = identifiers@.len() as int;
                assert(index == vx_old.free@[k]);
                assert(self.free@ =~= vx_old.free@.subrange(k + 1, vx_old.free@.len() as int));
                assert forall|j: int| 0 <= j < k implies vx_old.free@[j] != index by { }
                assert(self.slots@[index as int] == vx_old.slots@[index as int]) by {
                    if exists|j: int| 0 <= j < k && #[trigger] vx_old.free@[j] == index as int {
                        let j = choose|j: int| 0 <= j < k && #[trigger] vx_old.free@[j] == index as int;
                        assert(vx_old.free@[j] != vx_old.free@[k]);
                    }
                }
            }
            let ghost vx_pre = *self; let ghost vx_k = identifiers@.len() as int;
            let slot =

                &mut self.slots[index];

            unsafe { slot.activate_unchecked(locations.next().unwrap()) };
            identifiers.push(entity::Identifier::new(index, slot.generation));
proof {
                let k = vx_k;
                self.lemma_slots_len_fits(); vx_old.lemma_slots_len_fits();
                assert(self.slots@ =~= vx_pre.slots@.update(index as int, self.slots@[index as int]));
                lemma_count_update(vx_pre.slots@, index as int, self.slots@[index as int]);
                assert(vx_pre.slots@[index as int].location is None);
                assert(self.free@ == vx_pre.free@);
                assert forall|i: int| 0 <= i < self.free@.len() implies (#[trigger] self.free@[i]) != index by {
                    assert(self.free@[i] == vx_old.free@[k + 1 + i]);
                    assert(vx_old.free@[k] != vx_old.free@[k + 1 + i]);
                }
                assert forall|j: int| 0 <= j < identifiers@.len() implies
                    (#[trigger] self.slots@[vx_old.free@[j] as int]) == (Slot { generation: vx_old.slots@[vx_old.free@[j] as int].generation.wrapping_add(1), location: Some(vx_l0.nth(j)) }) by {
                    if j < k { assert(vx_old.free@[j] != vx_old.free@[k]); assert(self.slots@[vx_old.free@[j] as int] == vx_pre.slots@[vx_old.free@[j] as int]); }
                }
                assert forall|s: int| 0 <= s < vx_old.slots@.len() && !(exists|j: int| 0 <= j < identifiers@.len() && #[trigger] vx_old.free@[j] == s)
                    implies self.slots@[s] == vx_old.slots@[s] by {
                    assert(vx_old.free@[k] != s);
                    assert(!(exists|j: int| 0 <= j < k && #[trigger] vx_old.free@[j] == s)) by {
                        if exists|j: int| 0 <= j < k && #[trigger] vx_old.free@[j] == s {
                            let j = choose|j: int| 0 <= j < k && #[trigger] vx_old.free@[j] == s;
                            assert(0 <= j < identifiers@.len() && vx_old.free@[j] == s);
                        }
                    }
                }
                assert forall|s: int| 0 <= s < self.slots@.len() && (#[trigger] self.slots@[s]).location is None
                    implies self.free@.contains(s as usize) by {
                    if exists|j: int| 0 <= j < k + 1 && #[trigger] vx_old.free@[j] == s {
                        let j = choose|j: int| 0 <= j < k + 1 && #[trigger] vx_old.free@[j] == s;
                        assert(self.slots@[vx_old.free@[j] as int].location is Some);
                    } else {
                        assert(self.slots@[s] == vx_old.slots@[s]);
                        assert(vx_old.free@.contains(s as usize));
                        let m = choose|m: int| 0 <= m < vx_old.free@.len() && vx_old.free@[m] == s as usize;
                        assert(m >= k + 1);
                        assert(self.free@[m - k - 1] == s as usize);
                    }
                }
            }

        }

        let remaining_locations = locations.len();
        let slots_len = self.slots.len();
let ghost vx_mid = *self; let ghost vx_mid_start = locations.indices.start as int; let ghost vx_reused = identifiers@.len() as int; let ghost vx_ids1 = identifiers@;

        while let Some(location) = locations.next() 
            invariant
                locations.wf(),
                locations.indices.end == vx_l0.indices.end,
                locations.identifier == vx_l0.identifier,
                self.slots@.len() - slots_len == locations.indices.start - vx_mid_start,
                self.free@ == vx_mid.free@,
                forall|s: int| 0 <= s < slots_len ==> self.slots@[s] == vx_mid.slots@[s],
                forall|s: int| slots_len <= s < self.slots@.len() ==> (#[trigger] self.slots@[s]) == (Slot { generation: 0, location: Some(vx_l0.nth(vx_mid_start - vx_l0.indices.start + s - slots_len)) }),
                vx_mid_start <= locations.indices.start <= locations.indices.end,
                slots_len == vx_mid.slots@.len(),
                vx_active_count(self.slots@) == vx_active_count(vx_mid.slots@) + self.slots@.len() - slots_len,
            ensures
                locations.indices.start == locations.indices.end,
            decreases locations.indices.end - locations.indices.start
{
let ghost vx_s = self.slots@;
 self.slots.push(Slot::new(location));
proof { assert(self.slots@ =~= vx_s.push(self.slots@.last())); lemma_count_push(vx_s, self.slots@.last()); }

 }
        for index in 0..remaining_locations 
            invariant
                identifiers@.len() == vx_reused + index,
                forall|k: int| 0 <= k < vx_reused ==> identifiers@[k] == vx_ids1[k],
                forall|k: int| vx_reused <= k < identifiers@.len() ==> (#[trigger] identifiers@[k]) == (entity::Identifier { index: (slots_len + k - vx_reused) as usize, generation: 0 }),
                slots_len + remaining_locations <= usize::MAX,
{
 identifiers.push(entity::Identifier::new(slots_len + index, 0));
 }

proof {
            let k1 = vx_reused;
            self.lemma_slots_len_fits(); vx_old.lemma_slots_len_fits(); vx_mid.lemma_slots_len_fits();
            let n = vx_l0.spec_len() as int;
            let ids = identifiers@;
            assert(k1 == vx_min(vx_old.free@.len() as int, n));
            assert(ids.len() == n);
            assert(self.free@ == vx_mid.free@);
            // --- shape of every returned identifier and of the slot it names
            assert forall|k: int| 0 <= k < n implies
                (#[trigger] ids[k]).index < self.slots@.len()
                && self.slots@[ids[k].index as int] == (Slot { generation: ids[k].generation, location: Some(vx_l0.nth(k)) })
                && (k < k1 ==> ids[k].index == vx_old.free@[k] && ids[k].generation == vx_old.slots@[vx_old.free@[k] as int].generation.wrapping_add(1))
                && (k >= k1 ==> ids[k].index == slots_len + k - k1 && ids[k].generation == 0) by {
                if k < k1 {
                    assert(ids[k] == vx_ids1[k]);
                    assert(self.slots@[vx_old.free@[k] as int] == vx_mid.slots@[vx_old.free@[k] as int]);
                } else {
                    assert(ids[k] == (entity::Identifier { index: (slots_len + k - k1) as usize, generation: 0 }));
                    let s = slots_len + k - k1;
                    assert(self.slots@[s] == (Slot { generation: 0, location: Some(vx_l0.nth(vx_mid_start - vx_l0.indices.start + s - slots_len)) }));
                }
            }
            // --- slots that no returned identifier names are unchanged
            assert forall|s: int| 0 <= s < vx_old.slots@.len() && !(exists|k: int| 0 <= k < n && (#[trigger] ids[k]).index == s)
                implies self.slots@[s] == vx_old.slots@[s] by {
                assert(self.slots@[s] == vx_mid.slots@[s]);
                assert(!(exists|k: int| 0 <= k < k1 && #[trigger] vx_old.free@[k] == s)) by {
                    if exists|k: int| 0 <= k < k1 && #[trigger] vx_old.free@[k] == s {
                        let k = choose|k: int| 0 <= k < k1 && #[trigger] vx_old.free@[k] == s;
                        assert(ids[k].index == s);
                    }
                }
            }
            // --- wf of the final state
            assert forall|i: int| 0 <= i < self.free@.len() implies
                self.slots@[(#[trigger] self.free@[i]) as int].location is None by {
                let s = self.free@[i] as int;
                assert(self.free@[i] == vx_old.free@[k1 + i]);
                assert(self.slots@[s] == vx_mid.slots@[s]);
            }
            assert forall|s: int| 0 <= s < self.slots@.len() && (#[trigger] self.slots@[s]).location is None
                implies self.free@.contains(s as usize) by {
                assert(s < slots_len);
                assert(vx_mid.slots@[s].location is None);
                assert(vx_mid.free@.contains(s as usize));
            }
            // --- freshness, distinctness
            assert forall|k: int| 0 <= k < n implies !vx_old.resolves(#[trigger] ids[k]) by {
                if k < k1 { assert(vx_old.slots@[vx_old.free@[k] as int].location is None); }
            }
            assert forall|j: int, k: int| 0 <= j < k < n implies ids[j].index != ids[k].index by {
                if k < k1 { assert(vx_old.free@[j] != vx_old.free@[k]); }
            }
            // --- the map view
            assert forall|i: entity::Identifier| self.resolves(i) == (vx_old.resolves(i) || ids.contains(i)) by {
                if ids.contains(i) {
                    let k = choose|k: int| 0 <= k < ids.len() && ids[k] == i;
                    assert(self.resolves(ids[k]));
                } else if i.index < self.slots@.len() {
                    let s = i.index as int;
                    if exists|k: int| 0 <= k < n && (#[trigger] ids[k]).index == s {
                        let k = choose|k: int| 0 <= k < n && (#[trigger] ids[k]).index == s;
                        assert(self.slots@[s].generation == ids[k].generation);
                        if self.resolves(i) { assert(i == ids[k]); }
                        if k < k1 { assert(vx_old.slots@[vx_old.free@[k] as int].location is None); }
                        assert(!vx_old.resolves(i));
                    } else if s < vx_old.slots@.len() {
                        assert(self.slots@[s] == vx_old.slots@[s]);
                    } else {
                        let k = s - slots_len + k1;
                        assert(ids[k].index == s);
                    }
                }
            }
            assert forall|i: entity::Identifier| vx_old.resolves(i) implies self.view()[i] == vx_old.view()[i] by {
                let s = i.index as int;
                if exists|k: int| 0 <= k < n && (#[trigger] ids[k]).index == s {
                    let k = choose|k: int| 0 <= k < n && (#[trigger] ids[k]).index == s;
                    if k < k1 { assert(vx_old.slots@[vx_old.free@[k] as int].location is None); }
                } else {
                    assert(self.slots@[s] == vx_old.slots@[s]);
                }
            }
            assert(self.free@ =~= vx_old.free@.subrange(vx_min(vx_old.free@.len() as int, ids.len() as int), vx_old.free@.len() as int));
        }
        identifiers

    }

    pub fn get(&self, identifier: entity::Identifier) -> (r: Option<Location<R>>)
        ensures
            r == (if self.resolves(identifier) { Some(self.view()[identifier]) } else { None::<Location<R>> }),
    {

        let slot = self.slots.get(identifier.index)?;
        if slot.generation == identifier.generation {
            slot.location
        } else {
            None
        }
    
    }

    pub fn is_active(&self, identifier: entity::Identifier) -> (b: bool)
        ensures
            b == self.resolves(identifier),
    {

        if let Some(slot) = self.slots.get(identifier.index) {
            if slot.is_active() && slot.generation == identifier.generation {
                return true;
            }
        }
        false
    
    }

    pub unsafe fn free_unchecked(&mut self, identifier: entity::Identifier)
        requires
            old(self).wf(),
            old(self).resolves(identifier),
        ensures
            final(self).wf_free_in_bounds(),
            final(self).wf_free_inactive(),
            final(self).wf_free_distinct(),
            final(self).wf_free_complete(),
            !final(self).resolves(identifier),
            final(self).view() == old(self).view().remove(identifier),
            forall|i: entity::Identifier| #![trigger final(self).resolves(i)] #![trigger old(self).resolves(i)] (final(self).resolves(i) == (old(self).resolves(i) && i != identifier)) && (final(self).resolves(i) ==> final(self).view()[i] == old(self).view()[i]),
            final(self).free@ == old(self).free@.push(identifier.index),
            final(self).slots@.len() == old(self).slots@.len(),
            forall|s: int| 0 <= s < old(self).slots@.len() ==> (#[trigger] final(self).slots@[s]).generation == old(self).slots@[s].generation,
            forall|s: int| 0 <= s < old(self).slots@.len() && s != identifier.index ==> final(self).slots@[s] == old(self).slots@[s],
            Self::free_post(old(self), final(self), identifier),
            final(self).active_count() + 1 == old(self).active_count(),
    {

let ghost vx_old = *self;

        let slot =

            &mut self.slots[identifier.index];
        slot.deactivate();
        self.free.push_back(identifier.index);
proof {
            self.lemma_slots_len_fits(); vx_old.lemma_slots_len_fits();
            assert(self.slots@ =~= vx_old.slots@.update(identifier.index as int, self.slots@[identifier.index as int]));
            lemma_count_update(vx_old.slots@, identifier.index as int, self.slots@[identifier.index as int]);
            assert(self.free@ =~= vx_old.free@.push(identifier.index));
            assert forall|i: int| 0 <= i < vx_old.free@.len() implies vx_old.free@[i] != identifier.index by {
                assert(vx_old.slots@[vx_old.free@[i] as int].location is None);
            }
            assert forall|s: int| 0 <= s < self.slots@.len() && (#[trigger] self.slots@[s]).location is None
                implies self.free@.contains(s as usize) by {
                if s == identifier.index {
                    assert(self.free@[vx_old.free@.len() as int] == s as usize);
                } else {
                    assert(vx_old.slots@[s].location is None);
                    let k = choose|k: int| 0 <= k < vx_old.free@.len() && vx_old.free@[k] == s as usize;
                    assert(self.free@[k] == s as usize);
                }
            }
            assert(self.view() =~= vx_old.view().remove(identifier)) by {
                assert forall|i: entity::Identifier| self.resolves(i) == (i != identifier && vx_old.resolves(i)) by {
                    if i.index != identifier.index && i.index < vx_old.slots@.len() { assert(self.slots@[i.index as int] == vx_old.slots@[i.index as int]); }
                }
                assert forall|i: entity::Identifier| self.resolves(i) implies
                    #[trigger] self.view()[i] == vx_old.view().remove(identifier)[i] by {
                    if i.index != identifier.index && i.index < vx_old.slots@.len() { assert(self.slots@[i.index as int] == vx_old.slots@[i.index as int]); }
                }
            }
        }

    
    }

    pub unsafe fn modify_location_unchecked(&mut self, identifier: entity::Identifier, location: Location<R>,)
        requires
            old(self).wf(),
            old(self).resolves(identifier),
        ensures
            final(self).wf_free_in_bounds(),
            final(self).wf_free_inactive(),
            final(self).wf_free_distinct(),
            final(self).wf_free_complete(),
            final(self).view() == old(self).view().insert(identifier, location),
            forall|i: entity::Identifier| #![trigger final(self).resolves(i)] #![trigger old(self).resolves(i)] (final(self).resolves(i) == old(self).resolves(i)) && (old(self).resolves(i) && i != identifier ==> final(self).view()[i] == old(self).view()[i]),
            final(self).view()[identifier] == location,
            final(self).active_count() == old(self).active_count(),
            final(self).free@ == old(self).free@,
            final(self).slots@.len() == old(self).slots@.len(),
            forall|s: int| 0 <= s < old(self).slots@.len() ==> (#[trigger] final(self).slots@[s]).generation == old(self).slots@[s].generation,
            forall|s: int| 0 <= s < old(self).slots@.len() && s != identifier.index ==> final(self).slots@[s] == old(self).slots@[s],
    {

let ghost vx_old = *self;


        (self.slots[identifier.index]).location = Some(location);
proof {
            self.lemma_slots_len_fits(); vx_old.lemma_slots_len_fits();
            assert(self.slots@ =~= vx_old.slots@.update(identifier.index as int, self.slots@[identifier.index as int]));
            lemma_count_update(vx_old.slots@, identifier.index as int, self.slots@[identifier.index as int]);
            assert(self.view() =~= vx_old.view().insert(identifier, location)) by {
                assert forall|i: entity::Identifier| self.resolves(i) == (i == identifier || vx_old.resolves(i)) by {
                    if i.index != identifier.index && i.index < vx_old.slots@.len() { assert(self.slots@[i.index as int] == vx_old.slots@[i.index as int]); }
                }
                assert forall|i: entity::Identifier| self.resolves(i) implies
                    #[trigger] self.view()[i] == vx_old.view().insert(identifier, location)[i] by {
                    if i.index != identifier.index && i.index < vx_old.slots@.len() { assert(self.slots@[i.index as int] == vx_old.slots@[i.index as int]); }
                }
            }
            assert forall|s: int| 0 <= s < self.slots@.len() && (#[trigger] self.slots@[s]).location is None
                implies self.free@.contains(s as usize) by {
                assert(s != identifier.index);
                assert(vx_old.slots@[s].location is None);
            }
        }

    }

    pub unsafe fn modify_location_index_unchecked(&mut self, identifier: entity::Identifier, index: usize,)
        requires
            old(self).wf(),
            old(self).resolves(identifier),
        ensures
            final(self).wf_free_in_bounds(),
            final(self).wf_free_inactive(),
            final(self).wf_free_distinct(),
            final(self).wf_free_complete(),
            final(self).view() == old(self).view().insert(identifier, Location { identifier: old(self).view()[identifier].identifier, index }),
            forall|i: entity::Identifier| #![trigger final(self).resolves(i)] #![trigger old(self).resolves(i)] (final(self).resolves(i) == old(self).resolves(i)) && (old(self).resolves(i) && i != identifier ==> final(self).view()[i] == old(self).view()[i]),
            final(self).view()[identifier] == (Location { identifier: old(self).view()[identifier].identifier, index }),
            final(self).active_count() == old(self).active_count(),
            final(self).free@ == old(self).free@,
            final(self).slots@.len() == old(self).slots@.len(),
            forall|s: int| 0 <= s < old(self).slots@.len() ==> (#[trigger] final(self).slots@[s]).generation == old(self).slots@[s].generation,
            forall|s: int| 0 <= s < old(self).slots@.len() && s != identifier.index ==> final(self).slots@[s] == old(self).slots@[s],
    {

let ghost vx_old = *self;


        (self.slots[identifier.index]
                .location
                .as_mut()
                .unwrap()).index = index;
proof {
            self.lemma_slots_len_fits(); vx_old.lemma_slots_len_fits();
            assert(self.slots@ =~= vx_old.slots@.update(identifier.index as int, self.slots@[identifier.index as int]));
            lemma_count_update(vx_old.slots@, identifier.index as int, self.slots@[identifier.index as int]);
            let nl = Location { identifier: vx_old.view()[identifier].identifier, index };
            assert(self.view() =~= vx_old.view().insert(identifier, nl)) by {
                assert forall|i: entity::Identifier| self.resolves(i) == (i == identifier || vx_old.resolves(i)) by {
                    if i.index != identifier.index && i.index < vx_old.slots@.len() { assert(self.slots@[i.index as int] == vx_old.slots@[i.index as int]); }
                }
                assert forall|i: entity::Identifier| self.resolves(i) implies
                    #[trigger] self.view()[i] == vx_old.view().insert(identifier, nl)[i] by {
                    if i.index != identifier.index && i.index < vx_old.slots@.len() { assert(self.slots@[i.index as int] == vx_old.slots@[i.index as int]); }
                }
            }
            assert forall|s: int| 0 <= s < self.slots@.len() && (#[trigger] self.slots@[s]).location is None
                implies self.free@.contains(s as usize) by {
                assert(s != identifier.index);
                assert(vx_old.slots@[s].location is None);
            }
        }

    }

}

impl<R> Allocator<R> where R: Registry {
    pub fn shrink_to_fit(&mut self)
        ensures
            final(self).slots@ == old(self).slots@,
            final(self).free@ == old(self).free@,
            final(self).active_count() == old(self).active_count(),
    {

        self.free.shrink_to_fit();
    
    }

    pub unsafe fn clone(&self, identifier_map: &HashMap< archetype::IdentifierRef<R>, archetype::IdentifierRef<R>, FnvBuildHasher, >,) -> (r: Self)
        requires
            self.map_covers(identifier_map@),
        ensures
            r.is_remapped_copy_of(self, identifier_map@),
    {

        Self {
            slots: { let mut vx_v: Vec<Slot<R>> = Vec::new(); let mut vx_i: usize = 0; while vx_i < self.slots.len() 
            invariant
                vx_i <= self.slots@.len() && vx_v@.len() == vx_i,
                forall|s: int| 0 <= s < vx_i ==> (#[trigger] vx_v@[s]).generation == self.slots@[s].generation,
                forall|s: int| 0 <= s < vx_i ==> (#[trigger] vx_v@[s]).location == vx_remap(self.slots@[s].location, identifier_map@),
                self.map_covers(identifier_map@),
            decreases self.slots@.len() - vx_i
{
 let slot = &self.slots[vx_i];
 vx_v.push(unsafe {slot.clone_with_new_identifier(identifier_map)});
 vx_i += 1;
 } vx_v },
            free: self.free.clone(),
        }
    
    }

    pub unsafe fn clone_from(&mut self, source: &Self, identifier_map: &HashMap< archetype::IdentifierRef<R>, archetype::IdentifierRef<R>, FnvBuildHasher, >,)
        requires
            source.map_covers(identifier_map@),
        ensures
            final(self).is_remapped_copy_of(source, identifier_map@),
    {

        self.slots.clear();
        { let mut vx_i: usize = 0; while vx_i < source.slots.len() 
            invariant
                vx_i <= source.slots@.len() && self.slots@.len() == vx_i,
                forall|s: int| 0 <= s < vx_i ==> (#[trigger] self.slots@[s]).generation == source.slots@[s].generation,
                forall|s: int| 0 <= s < vx_i ==> (#[trigger] self.slots@[s]).location == vx_remap(source.slots@[s].location, identifier_map@),
                source.map_covers(identifier_map@),
            decreases source.slots@.len() - vx_i
{
 let slot = &source.slots[vx_i];
 self.slots.push(unsafe {slot.clone_with_new_identifier(identifier_map)});
 vx_i += 1;
 } }

        self.free = source.free.clone();
    
    }

}


/// Ghost history of one allocator: every identifier ever issued.
pub struct Hist {
    pub issued: ISet<entity::Identifier>,
}

impl<R: Registry> Allocator<R> {
    /// History invariant: every issued identifier belongs to an existing slot whose generation
    /// has reached it; every identifier that currently resolves was issued; and the generation a
    /// slot currently shows was issued (so the *next* one is new).
    pub open spec fn hist_inv(&self, h: Hist) -> bool {
        &&& forall|id: entity::Identifier| #[trigger] h.issued.contains(id) ==>
                id.index < self.slots@.len() && id.generation <= self.slots@[id.index as int].generation
        &&& forall|s: int| 0 <= s < self.slots@.len() ==>
                #[trigger] h.issued.contains(entity::Identifier { index: s as usize, generation: self.slots@[s].generation })
    }

    /// what `allocate` promises (conjunction of its labelled postconditions that C02 uses)
    pub open spec fn allocate_post(old: &Self, new: &Self, location: Location<R>, id: entity::Identifier) -> bool {
        &&& new.view() == old.view().insert(id, location)
        &&& !old.resolves(id)
        &&& id.index < old.slots@.len() ==> id.generation == old.slots@[id.index as int].generation.wrapping_add(1)
        &&& id.index >= old.slots@.len() ==> id.index == old.slots@.len() && id.generation == 0
        &&& new.slots@.len() == (if id.index < old.slots@.len() { old.slots@.len() } else { old.slots@.len() + 1 })
        &&& forall|s: int| 0 <= s < old.slots@.len() && s != id.index ==> new.slots@[s] == old.slots@[s]
        &&& new.resolves(id)
    }

    /// what `free_unchecked` promises
    pub open spec fn free_post(old: &Self, new: &Self, id: entity::Identifier) -> bool {
        &&& new.view() == old.view().remove(id)
        &&& new.slots@.len() == old.slots@.len()
        &&& forall|s: int| 0 <= s < old.slots@.len() ==> (#[trigger] new.slots@[s]).generation == old.slots@[s].generation
    }

    /// C02 "every identifier returned differs from every identifier returned before it":
    /// one allocation step from a state satisfying the history invariant issues an identifier
    /// never issued before, and re-establishes the invariant.  A5: the slot's generation has
    /// not wrapped.
    pub proof fn lemma_allocate_fresh(old: &Self, new: &Self, h: Hist, location: Location<R>, id: entity::Identifier)
        requires
            old.hist_inv(h),
            Self::allocate_post(old, new, location, id),
            id.index < old.slots@.len() ==> old.slots@[id.index as int].generation < u64::MAX,
        ensures
            !h.issued.contains(id),
            new.hist_inv(Hist { issued: h.issued.insert(id) }),
    {
        let h2 = Hist { issued: h.issued.insert(id) };
        assert(new.resolves(id));
        assert forall|i: entity::Identifier| #[trigger] h2.issued.contains(i) implies
            i.index < new.slots@.len() && i.generation <= new.slots@[i.index as int].generation by {
            if i == id {
            } else {
                assert(h.issued.contains(i));
                if i.index != id.index { assert(new.slots@[i.index as int] == old.slots@[i.index as int]); }
            }
        }
        assert forall|s: int| 0 <= s < new.slots@.len() implies
            #[trigger] h2.issued.contains(entity::Identifier { index: s as usize, generation: new.slots@[s].generation }) by {
            if s == id.index {
                assert(entity::Identifier { index: s as usize, generation: new.slots@[s].generation } == id);
            } else {
                assert(new.slots@[s] == old.slots@[s]);
                assert(h.issued.contains(entity::Identifier { index: s as usize, generation: old.slots@[s].generation }));
            }
        }
    }

    /// freeing keeps the history invariant (generations never go down)
    pub proof fn lemma_free_keeps_hist(old: &Self, new: &Self, h: Hist, id: entity::Identifier)
        requires old.hist_inv(h), Self::free_post(old, new, id),
        ensures new.hist_inv(h),
    {
        assert forall|s: int| 0 <= s < new.slots@.len() implies
            #[trigger] h.issued.contains(entity::Identifier { index: s as usize, generation: new.slots@[s].generation }) by {
            assert(new.slots@[s].generation == old.slots@[s].generation);
        }
    }

    /// C02 "once removed ... never resolves again even after its slot is reused": an identifier
    /// that was issued and does not resolve now does not resolve after any further allocation
    /// (the only operation that can make a slot active again), because the identifier then
    /// issued is fresh.
    pub proof fn lemma_dead_stays_dead(old: &Self, new: &Self, h: Hist, location: Location<R>, id: entity::Identifier, stale: entity::Identifier)
        requires
            old.hist_inv(h),
            Self::allocate_post(old, new, location, id),
            id.index < old.slots@.len() ==> old.slots@[id.index as int].generation < u64::MAX,
            h.issued.contains(stale),
            !old.resolves(stale),
        ensures
            !new.resolves(stale),
            stale != id,
    {
        Self::lemma_allocate_fresh(old, new, h, location, id);
        assert(new.view().dom().contains(stale) == old.view().insert(id, location).dom().contains(stale));
    }

    /// C02 "a live identifier keeps resolving to the same entity" across allocations and frees
    /// of *other* identifiers: whole-map equality gives it directly.
    pub proof fn lemma_live_stays_live(old: &Self, new: &Self, location: Location<R>, id: entity::Identifier, live: entity::Identifier)
        requires Self::allocate_post(old, new, location, id), old.resolves(live),
        ensures new.resolves(live), new.view()[live] == old.view()[live],
    {
        assert(old.view().dom().contains(live));
        assert(new.view().dom().contains(live));
    }

    pub proof fn lemma_free_other_stays_live(old: &Self, new: &Self, id: entity::Identifier, live: entity::Identifier)
        requires Self::free_post(old, new, id), old.resolves(live), live != id,
        ensures new.resolves(live), new.view()[live] == old.view()[live], !new.resolves(id),
    {
        assert(old.view().dom().contains(live));
        assert(new.view().dom().contains(live));
        assert(!new.view().dom().contains(id));
    }
}

/// reachability witnesses for the preconditions used above (vacuity guard)
pub proof fn witness_hist_inv_reachable<R: Registry>(a: &Allocator<R>)
    requires a.slots@.len() == 0,
    ensures a.hist_inv(Hist { issued: ISet::empty() }),
{
}


/// R10b: `assert!(c)` returns only if `c` holds (it panics, i.e. does not return, otherwise)
#[verifier::external_body]
pub fn vx_assert(c: bool)
    ensures c { unimplemented!() }
#[verifier::external_body]
pub fn vx_check_len<E>(e: &E) -> (b: bool) { unimplemented!() }


/// identifier `i` is attached to some stored row
pub open spec fn vx_stored<R: Registry>(m: IMap<archetype::IdentifierRef<R>, archetype::Archetype<R>>, i: entity::Identifier) -> bool {
    exists|k: archetype::IdentifierRef<R>, r: int| m.dom().contains(k) && 0 <= r < m[k].length && #[trigger] m[k].ids()[r] == i
}

/// W1: every table is well formed, keyed by its own key, and every stored row is reachable
/// through the identifier attached to it
pub open spec fn vx_tables_ok<R: Registry>(m: IMap<archetype::IdentifierRef<R>, archetype::Archetype<R>>, a: &Allocator<R>) -> bool {
    forall|k: archetype::IdentifierRef<R>| m.dom().contains(k) ==>
        (#[trigger] m[k]).wf() && m[k].key() == k && m[k].agrees(a)
}

/// `ks` lists every stored table key exactly once
pub open spec fn vx_enum<R: Registry>(m: IMap<archetype::IdentifierRef<R>, archetype::Archetype<R>>, ks: Seq<archetype::IdentifierRef<R>>) -> bool {
    &&& forall|i: int, j: int| 0 <= i < j < ks.len() ==> ks[i] != ks[j]
    &&& forall|k: archetype::IdentifierRef<R>| m.dom().contains(k) == ks.contains(k)
}
/// sum of the lengths of the tables under `ks`
pub open spec fn vx_sum_keys<R: Registry>(m: IMap<archetype::IdentifierRef<R>, archetype::Archetype<R>>, ks: Seq<archetype::IdentifierRef<R>>) -> nat
    decreases ks.len()
{
    if ks.len() == 0 { 0 } else { vx_sum_keys(m, ks.drop_last()) + m[ks.last()].length as nat }
}
/// C13: the number of stored entities (rows of all tables; independent of the enumeration, see
/// lemma_total_rows)
pub open spec fn vx_total_rows<R: Registry>(m: IMap<archetype::IdentifierRef<R>, archetype::Archetype<R>>) -> nat {
    vx_sum_keys(m, choose|ks: Seq<archetype::IdentifierRef<R>>| vx_enum(m, ks))
}
pub proof fn lemma_sum_remove<R: Registry>(m: IMap<archetype::IdentifierRef<R>, archetype::Archetype<R>>, b: Seq<archetype::IdentifierRef<R>>, j: int)
    requires 0 <= j < b.len(),
    ensures vx_sum_keys(m, b) == vx_sum_keys(m, b.remove(j)) + m[b[j]].length as nat
    decreases b.len()
{
    if j == b.len() - 1 {
        assert(b.remove(j) =~= b.drop_last());
    } else {
        assert(b.remove(j).drop_last() =~= b.drop_last().remove(j));
        assert(b.remove(j).last() == b.last());
        lemma_sum_remove(m, b.drop_last(), j);
    }
}
pub open spec fn vx_nodup<K>(a: Seq<K>) -> bool { forall|i: int, j: int| 0 <= i < j < a.len() ==> a[i] != a[j] }
/// two duplicate-free listings of the same key set have the same sum
pub proof fn lemma_sum_perm<R: Registry>(m: IMap<archetype::IdentifierRef<R>, archetype::Archetype<R>>, a: Seq<archetype::IdentifierRef<R>>, b: Seq<archetype::IdentifierRef<R>>)
    requires vx_nodup(a), vx_nodup(b), forall|k: archetype::IdentifierRef<R>| a.contains(k) == b.contains(k),
    ensures vx_sum_keys(m, a) == vx_sum_keys(m, b)
    decreases a.len()
{
    if a.len() == 0 {
        if b.len() > 0 { assert(b.contains(b[0])); assert(a.contains(b[0])); }
    } else {
        let x = a.last();
        assert(a.contains(x));
        assert(b.contains(x));
        let j = choose|j: int| 0 <= j < b.len() && b[j] == x;
        let a1 = a.drop_last();
        let b1 = b.remove(j);
        assert(vx_nodup(a1));
        assert(vx_nodup(b1)) by {
            assert forall|p: int, q: int| 0 <= p < q < b1.len() implies b1[p] != b1[q] by {
                let pp = if p < j { p } else { p + 1 };
                let qq = if q < j { q } else { q + 1 };
                assert(b1[p] == b[pp] && b1[q] == b[qq]);
            }
        }
        assert forall|k: archetype::IdentifierRef<R>| a1.contains(k) == b1.contains(k) by {
            if a1.contains(k) {
                let p = choose|p: int| 0 <= p < a1.len() && a1[p] == k;
                assert(a[p] == k); assert(k != x);
                assert(a.contains(k)); assert(b.contains(k));
                let q = choose|q: int| 0 <= q < b.len() && b[q] == k;
                assert(q != j);
                let qq = if q < j { q } else { q - 1 };
                assert(b1[qq] == k);
            }
            if b1.contains(k) {
                let q = choose|q: int| 0 <= q < b1.len() && b1[q] == k;
                let qq = if q < j { q } else { q + 1 };
                assert(b[qq] == k); assert(qq != j); assert(k != x);
                assert(b.contains(k)); assert(a.contains(k));
                let p = choose|p: int| 0 <= p < a.len() && a[p] == k;
                assert(p != a.len() - 1);
                assert(a1[p] == k);
            }
        }
        lemma_sum_perm(m, a1, b1);
        lemma_sum_remove(m, b, j);
    }
}
pub proof fn lemma_total_rows<R: Registry>(m: IMap<archetype::IdentifierRef<R>, archetype::Archetype<R>>, ks: Seq<archetype::IdentifierRef<R>>)
    requires vx_enum(m, ks),
    ensures vx_total_rows(m) == vx_sum_keys(m, ks)
{
    let c = choose|c: Seq<archetype::IdentifierRef<R>>| vx_enum(m, c);
    assert(vx_enum(m, c));
    assert forall|k: archetype::IdentifierRef<R>| c.contains(k) == ks.contains(k) by { assert(m.dom().contains(k) == c.contains(k)); }
    lemma_sum_perm(m, c, ks);
}
pub proof fn lemma_sum_take_step<R: Registry>(m: IMap<archetype::IdentifierRef<R>, archetype::Archetype<R>>, ks: Seq<archetype::IdentifierRef<R>>, n: int)
    requires 0 <= n < ks.len(),
    ensures vx_sum_keys(m, ks.take(n + 1)) == vx_sum_keys(m, ks.take(n)) + m[ks[n]].length as nat
{
    assert(ks.take(n + 1).drop_last() =~= ks.take(n));
    assert(ks.take(n + 1).last() == ks[n]);
}

pub mod entities {
    use super::*;
pub struct Batch<Entities> {
    pub entities: Entities,
    pub len: usize,
}


    impl<Entities> Batch<Entities> {
        /// type invariant established by both constructors
        pub open spec fn wf(&self) -> bool { self.len == archetype::vx_batch_rows(self.entities).len() }
    }

impl<Entities> Batch<Entities> {
    pub fn new(entities: Entities) -> (r: Self)
        ensures
            r.wf() && r.entities == entities,
    {

        vx_assert(vx_check_len(&entities));

        unsafe { Self::new_unchecked(entities) }
    
    }

    pub unsafe fn new_unchecked(entities: Entities) -> (r: Self)
        ensures
            r.wf() && r.entities == entities,
    {

        Self {
            len: archetype::vx_component_len(&entities),
            entities,
        }
    
    }

    pub fn len(&self) -> (n: usize)
        ensures
            n == self.len,
    {

        self.len
    
    }

}

}

use core::any::TypeId;
#[verifier::external_type_specification]
#[verifier::external_body]
pub struct ExTypeId(TypeId);

pub type VxBits = Seq<u8>;
pub uninterp spec fn vx_bits_of<E>() -> VxBits;
pub uninterp spec fn vx_key_bits<R: Registry>(k: archetype::IdentifierRef<R>) -> VxBits;
/// component bytes of the canonical entity type with this TypeId (type-level, R8)
pub uninterp spec fn vx_type_bits(t: TypeId) -> VxBits;

/// A3: the token of an owned buffer denotes the buffer's bytes
#[verifier::external_body]
pub proof fn vx_axiom_ref_bits<R: Registry>(id: &archetype::Identifier<R>)
    ensures vx_key_bits(id.spec_ref()) == id.spec_bits() {}
/// A9 (allocator): an owned identifier buffer that is not stored in the table lives at an address
/// different from every stored table's buffer
#[verifier::external_body]
pub proof fn vx_axiom_fresh_buffer<R: Registry>(t: &VxRawTable<R>, id: &archetype::Identifier<R>)
    ensures !t@.dom().contains(id.spec_ref()) {}

/// A9 (allocator): a table that is not yet stored owns a buffer at an address different from
/// every stored table's buffer
#[verifier::external_body]
pub proof fn vx_axiom_fresh_table<R: Registry>(t: &VxRawTable<R>, a: &archetype::Archetype<R>)
    ensures !t@.dom().contains(a.key()) {}

#[verifier::external_body]
pub fn vx_type_id<E>() -> (t: TypeId) ensures vx_type_bits(t) == vx_bits_of::<E>() { unimplemented!() }
#[verifier::external_body]
pub fn vx_create_archetype_identifier<R: Registry, E>() -> (r: archetype::Identifier<R>)
    ensures r.spec_bits() == vx_bits_of::<E>() { unimplemented!() }
#[verifier::external_body]
pub fn vx_as_bytes_ref<R: Registry>(id: archetype::IdentifierRef<R>) -> (b: Ghost<Seq<u8>>)
    ensures b@ == vx_key_bits(id) { unimplemented!() }
#[verifier::external_body]
pub fn vx_as_bytes<R: Registry>(id: &archetype::Identifier<R>) -> (b: Ghost<Seq<u8>>)
    ensures b@ == id.spec_bits() { unimplemented!() }

use crate::archetype::Archetype;
impl FnvBuildHasher {
    #[verifier::external_body]
    pub fn default() -> (r: Self) { unimplemented!() }
}
pub uninterp spec fn vx_hash<R: Registry>(k: archetype::IdentifierRef<R>) -> u64;
#[verifier::external_body]
pub fn vx_make_hash<R: Registry>(identifier: archetype::IdentifierRef<R>, hash_builder: &FnvBuildHasher) -> (h: u64)
    ensures h == vx_hash(identifier) { unimplemented!() }

// ---- hashbrown::raw::RawTable<Archetype<R>> keyed by the token of each table (A3) ----------
#[verifier::external_body]
#[verifier::accept_recursive_types(R)]
pub struct VxRawTable<R: Registry> { p: PhantomData<R> }
impl<R: Registry> VxRawTable<R> {
    pub uninterp spec fn view(&self) -> IMap<archetype::IdentifierRef<R>, archetype::Archetype<R>>;
    /// every stored table sits under its own key
    pub open spec fn keyed(&self) -> bool {
        forall|k: archetype::IdentifierRef<R>| self@.dom().contains(k) ==> (#[trigger] self@[k]).key() == k
    }
    #[verifier::external_body]
    pub fn new() -> (r: Self) ensures r@ == IMap::<archetype::IdentifierRef<R>, archetype::Archetype<R>>::empty() { unimplemented!() }
    #[verifier::external_body]
    pub fn with_capacity(capacity: usize) -> (r: Self) ensures r@ == IMap::<archetype::IdentifierRef<R>, archetype::Archetype<R>>::empty() { unimplemented!() }
    #[verifier::external_body]
    pub fn vx_get(&self, hash: u64, key: archetype::IdentifierRef<R>) -> (r: Option<&archetype::Archetype<R>>)
        requires hash == vx_hash(key),
        ensures r == (if self@.dom().contains(key) { Some(&self@[key]) } else { None::<&archetype::Archetype<R>> }) { unimplemented!() }
    #[verifier::external_body]
    pub fn vx_get_mut(&mut self, hash: u64, key: archetype::IdentifierRef<R>) -> (r: Option<&mut archetype::Archetype<R>>)
        requires hash == vx_hash(key),
        ensures
            r is Some == old(self)@.dom().contains(key),
            r is Some ==> *r->0 == old(self)@[key] && final(self)@ == old(self)@.insert(key, *final(r->0)),
            r is None ==> final(self)@ == old(self)@,
    { unimplemented!() }
    /// R14: a ghost enumeration of the stored keys (hashbrown iterates every element once, in an
    /// unspecified order)
    pub open spec fn enumerates(&self, keys: Seq<archetype::IdentifierRef<R>>) -> bool {
        &&& forall|i: int, j: int| 0 <= i < j < keys.len() ==> keys[i] != keys[j]
        &&& forall|k: archetype::IdentifierRef<R>| self@.dom().contains(k) == keys.contains(k)
    }
    /// number of stored tables
    pub uninterp spec fn count(&self) -> nat;
    #[verifier::external_body]
    pub fn vx_keys(&self) -> (r: Ghost<Seq<archetype::IdentifierRef<R>>>)
        ensures self.enumerates(r@), r@.len() <= usize::MAX, r@.len() == self.count() { unimplemented!() }
    #[verifier::external_body]
    pub fn len(&self) -> (n: usize) ensures n == self.count() { unimplemented!() }
    #[verifier::external_body]
    pub fn vx_len(&self, keys: Ghost<Seq<archetype::IdentifierRef<R>>>) -> (n: usize)
        requires self.enumerates(keys@),
        ensures n == keys@.len() { unimplemented!() }
    #[verifier::external_body]
    pub fn vx_nth(&self, i: usize, keys: Ghost<Seq<archetype::IdentifierRef<R>>>) -> (r: &archetype::Archetype<R>)
        requires self.enumerates(keys@), i < keys@.len(),
        ensures *r == self@[keys@[i as int]] { unimplemented!() }
    #[verifier::external_body]
    pub fn vx_nth_mut(&mut self, i: usize, keys: Ghost<Seq<archetype::IdentifierRef<R>>>) -> (r: &mut archetype::Archetype<R>)
        requires old(self).enumerates(keys@), i < keys@.len(),
        ensures *r == old(self)@[keys@[i as int]], final(self)@ == old(self)@.insert(keys@[i as int], *final(r)) { unimplemented!() }
    /// `insert_entry`: hashbrown requires that no equal element is present
    #[verifier::external_body]
    pub fn vx_insert_entry(&mut self, hash: u64, value: archetype::Archetype<R>) -> (r: &mut archetype::Archetype<R>)
        requires hash == vx_hash(value.key()), !old(self)@.dom().contains(value.key()),
        ensures *r == value, final(self)@ == old(self)@.insert(value.key(), *final(r)) { unimplemented!() }
    #[verifier::external_body]
    pub fn vx_insert(&mut self, hash: u64, value: archetype::Archetype<R>)
        requires hash == vx_hash(value.key()), !old(self)@.dom().contains(value.key()),
        ensures final(self)@ == old(self)@.insert(value.key(), value) { unimplemented!() }
    /// R14: the bucket the (unsafe) raw iterator yields at position `i` of the enumeration
    #[verifier::external_body]
    pub fn vx_nth_bucket(&self, i: usize, keys: Ghost<Seq<archetype::IdentifierRef<R>>>) -> (r: VxBucket<R>)
        requires self.enumerates(keys@), i < keys@.len(),
        ensures r.key() == keys@[i as int] { unimplemented!() }
    /// `Bucket::as_mut`: the element a live bucket points at
    #[verifier::external_body]
    pub unsafe fn vx_bucket_mut(&mut self, b: &VxBucket<R>) -> (r: &mut archetype::Archetype<R>)
        requires old(self)@.dom().contains(b.key()),
        ensures *r == old(self)@[b.key()], final(self)@ == old(self)@.insert(b.key(), *final(r)) { unimplemented!() }
    /// `RawTable::erase`: the bucket must be live (hashbrown's safety contract)
    #[verifier::external_body]
    pub unsafe fn erase(&mut self, b: VxBucket<R>)
        requires old(self)@.dom().contains(b.key()),
        ensures final(self)@ == old(self)@.remove(b.key()) { unimplemented!() }
    #[verifier::external_body]
    pub fn shrink_to(&mut self, n: usize)
        ensures final(self)@ == old(self)@ { unimplemented!() }
}
/// hashbrown `Bucket<Archetype<R>>`: identified by the key of the element it points at
#[verifier::external_body]
#[verifier::accept_recursive_types(R)]
pub struct VxBucket<R: Registry> { p: PhantomData<R> }
impl<R: Registry> VxBucket<R> {
    pub uninterp spec fn key(&self) -> archetype::IdentifierRef<R>;
}

// ---- hashbrown::HashMap<&'static [u8], IdentifierRef<R>> (bytes -> token) -----------------
#[verifier::external_body]
#[verifier::accept_recursive_types(R)]
pub struct VxBytesMap<R: Registry> { p: PhantomData<R> }
impl<R: Registry> VxBytesMap<R> {
    pub uninterp spec fn view(&self) -> IMap<Seq<u8>, archetype::IdentifierRef<R>>;
    #[verifier::external_body]
    pub fn default() -> (r: Self) ensures r@ == IMap::<Seq<u8>, archetype::IdentifierRef<R>>::empty() { unimplemented!() }
    #[verifier::external_body]
    pub fn vx_with_capacity(capacity: usize) -> (r: Self) ensures r@ == IMap::<Seq<u8>, archetype::IdentifierRef<R>>::empty() { unimplemented!() }
    #[verifier::external_body]
    pub fn vx_get(&self, bytes: Ghost<Seq<u8>>) -> (r: Option<&archetype::IdentifierRef<R>>)
        ensures r == (if self@.dom().contains(bytes@) { Some(&self@[bytes@]) } else { None::<&archetype::IdentifierRef<R>> }) { unimplemented!() }
    /// `insert_unique_unchecked`: the caller promises the key is not present
    #[verifier::external_body]
    pub unsafe fn vx_insert_unique_unchecked(&mut self, bytes: Ghost<Seq<u8>>, value: archetype::IdentifierRef<R>)
        requires !old(self)@.dom().contains(bytes@),
        ensures final(self)@ == old(self)@.insert(bytes@, value) { unimplemented!() }
    /// R5h: `self.iter().filter_map(|(&k, v)| if set.contains(v) { Some(k) } else { None }).collect::<Vec<_>>()`
    #[verifier::external_body]
    pub fn vx_keys_with_value_in(&self, set: &VxTokenSet<R>) -> (r: Vec<VxSliceKey>)
        ensures forall|b: Seq<u8>| (exists|j: int| 0 <= j < r@.len() && (#[trigger] r@[j])@ == b) == (self@.dom().contains(b) && set@.contains(self@[b])) { unimplemented!() }
    #[verifier::external_body]
    pub fn remove(&mut self, k: VxSliceKey)
        ensures final(self)@ == old(self)@.remove(k@) { unimplemented!() }
}
/// a `&'static [u8]` key of the bytes map
#[verifier::external_body]
pub struct VxSliceKey { _p: () }
impl VxSliceKey {
    pub uninterp spec fn view(&self) -> Seq<u8>;
}
// ---- hashbrown::HashMap<TypeId, IdentifierRef<R>> -----------------------------------------
#[verifier::external_body]
#[verifier::accept_recursive_types(R)]
pub struct VxTypeMap<R: Registry> { p: PhantomData<R> }
impl<R: Registry> VxTypeMap<R> {
    pub uninterp spec fn view(&self) -> IMap<TypeId, archetype::IdentifierRef<R>>;
    #[verifier::external_body]
    pub fn default() -> (r: Self) ensures r@ == IMap::<TypeId, archetype::IdentifierRef<R>>::empty() { unimplemented!() }
    #[verifier::external_body]
    pub fn vx_with_capacity(capacity: usize) -> (r: Self) ensures r@ == IMap::<TypeId, archetype::IdentifierRef<R>>::empty() { unimplemented!() }
    #[verifier::external_body]
    pub fn get(&self, t: &TypeId) -> (r: Option<&archetype::IdentifierRef<R>>)
        ensures r == (if self@.dom().contains(*t) { Some(&self@[*t]) } else { None::<&archetype::IdentifierRef<R>> }) { unimplemented!() }
    #[verifier::external_body]
    pub fn insert(&mut self, t: TypeId, value: archetype::IdentifierRef<R>)
        ensures final(self)@ == old(self)@.insert(t, value) { unimplemented!() }
    /// R14: ghost enumeration of the entries
    pub open spec fn enumerates(&self, ts: Seq<TypeId>) -> bool {
        forall|t: TypeId| self@.dom().contains(t) == ts.contains(t)
    }
    #[verifier::external_body]
    pub fn vx_keys(&self) -> (r: Ghost<Seq<TypeId>>) ensures self.enumerates(r@), r@.len() <= usize::MAX { unimplemented!() }
    #[verifier::external_body]
    pub fn vx_len(&self, ts: Ghost<Seq<TypeId>>) -> (n: usize) requires self.enumerates(ts@), ensures n == ts@.len() { unimplemented!() }
    #[verifier::external_body]
    pub fn vx_nth_pair(&self, i: usize, ts: Ghost<Seq<TypeId>>) -> (r: (TypeId, &archetype::IdentifierRef<R>))
        requires self.enumerates(ts@), i < ts@.len(),
        ensures r.0 == ts@[i as int], *r.1 == self@[ts@[i as int]] { unimplemented!() }
    /// R5h: `self.iter().filter_map(|(&k, v)| if set.contains(v) { Some(k) } else { None }).collect::<Vec<_>>()`
    #[verifier::external_body]
    pub fn vx_keys_with_value_in(&self, set: &VxTokenSet<R>) -> (r: Vec<TypeId>)
        ensures forall|t: TypeId| #[trigger] r@.contains(t) == (self@.dom().contains(t) && set@.contains(self@[t])) { unimplemented!() }
    #[verifier::external_body]
    pub fn remove(&mut self, t: &TypeId)
        ensures final(self)@ == old(self)@.remove(*t) { unimplemented!() }
}

// ---- hashbrown::HashMap<IdentifierRef, IdentifierRef> (the key map of clone / clone_from) ----
#[verifier::external_body]
#[verifier::accept_recursive_types(R)]
pub struct VxKeyMap<R: Registry> { p: PhantomData<R> }
impl<R: Registry> VxKeyMap<R> {
    pub uninterp spec fn view(&self) -> IMap<archetype::IdentifierRef<R>, archetype::IdentifierRef<R>>;
    #[verifier::external_body]
    pub fn vx_with_capacity(n: usize) -> (r: Self)
        ensures r@ == IMap::<archetype::IdentifierRef<R>, archetype::IdentifierRef<R>>::empty() { unimplemented!() }
    #[verifier::external_body]
    pub fn insert(&mut self, k: archetype::IdentifierRef<R>, v: archetype::IdentifierRef<R>)
        ensures final(self)@ == old(self)@.insert(k, v) { unimplemented!() }
    #[verifier::external_body]
    pub fn get(&self, k: &archetype::IdentifierRef<R>) -> (r: Option<&archetype::IdentifierRef<R>>)
        ensures r == (if self@.dom().contains(*k) { Some(&self@[*k]) } else { None::<&archetype::IdentifierRef<R>> }) { unimplemented!() }
    /// `map.values().collect::<HashSet<_>>()`
    #[verifier::external_body]
    pub fn vx_values(&self) -> (r: VxTokenSet<R>)
        ensures forall|t: archetype::IdentifierRef<R>| #[trigger] r@.contains(t) == (exists|k: archetype::IdentifierRef<R>| self@.dom().contains(k) && self@[k] == t) { unimplemented!() }
}
#[verifier::external_body]
#[verifier::accept_recursive_types(R)]
pub struct VxTokenSet<R: Registry> { p: PhantomData<R> }
impl<R: Registry> VxTokenSet<R> {
    pub uninterp spec fn view(&self) -> ISet<archetype::IdentifierRef<R>>;
    #[verifier::external_body]
    pub fn contains(&self, t: &archetype::IdentifierRef<R>) -> (b: bool) ensures b == self@.contains(*t) { unimplemented!() }
    #[verifier::external_body]
    pub fn vx_new() -> (r: Self) ensures r@ == ISet::<archetype::IdentifierRef<R>>::empty() { unimplemented!() }
    #[verifier::external_body]
    pub fn insert(&mut self, t: archetype::IdentifierRef<R>) -> (b: bool) ensures final(self)@ == old(self)@.insert(t) { unimplemented!() }
}

/// `c` is a value copy of table `t` under key `k2` (C10): same identifiers, same rows, same
/// component set
pub open spec fn vx_table_copy<R: Registry>(c: archetype::Archetype<R>, t: archetype::Archetype<R>, k2: archetype::IdentifierRef<R>) -> bool {
    c.wf() && c.key() == k2 && c.length == t.length && c.ids() == t.ids() && c.rows() == t.rows() && vx_key_bits(k2) == vx_key_bits(t.key())
}
/// source table under key `k` has its value copy in `dst` under `map[k]`
pub open spec fn vx_copied<R: Registry>(
    map: IMap<archetype::IdentifierRef<R>, archetype::IdentifierRef<R>>,
    dst: IMap<archetype::IdentifierRef<R>, archetype::Archetype<R>>,
    src: IMap<archetype::IdentifierRef<R>, archetype::Archetype<R>>,
    k: archetype::IdentifierRef<R>) -> bool {
    map.dom().contains(k) && dst.dom().contains(map[k]) && vx_table_copy(dst[map[k]], src[k], map[k])
}
/// the old-key -> new-key map returned by Archetypes::clone / clone_from
pub open spec fn vx_is_key_map<R: Registry>(
    map: IMap<archetype::IdentifierRef<R>, archetype::IdentifierRef<R>>,
    src: IMap<archetype::IdentifierRef<R>, archetype::Archetype<R>>,
    dst: IMap<archetype::IdentifierRef<R>, archetype::Archetype<R>>) -> bool {
    &&& forall|k: archetype::IdentifierRef<R>| src.dom().contains(k) ==>
            #[trigger] map.dom().contains(k) && dst.dom().contains(map[k]) && vx_table_copy(dst[map[k]], src[k], map[k])
    &&& forall|k1: archetype::IdentifierRef<R>, k2: archetype::IdentifierRef<R>|
            src.dom().contains(k1) && src.dom().contains(k2) && #[trigger] map[k1] == #[trigger] map[k2] ==> k1 == k2
    &&& forall|k2: archetype::IdentifierRef<R>| #[trigger] dst.dom().contains(k2) ==>
            dst[k2].wf() && dst[k2].key() == k2 &&
            ((exists|k: archetype::IdentifierRef<R>| src.dom().contains(k) && map[k] == k2) || dst[k2].length == 0)
}

// ---- Archetype::clone / clone_from: assumed contracts, checked (bounded) by family K-clone ----
#[verifier::external_body]
pub fn vx_archetype_clone<R: Registry>(a: &archetype::Archetype<R>) -> (r: archetype::Archetype<R>)
    requires a.wf(),
    ensures r.wf(), r.length == a.length, r.ids() == a.ids(), r.rows() == a.rows(), vx_key_bits(r.key()) == vx_key_bits(a.key()) { unimplemented!() }
#[verifier::external_body]
pub fn vx_archetype_clone_from<R: Registry>(a: &mut archetype::Archetype<R>, source: &archetype::Archetype<R>)
    requires old(a).wf(), source.wf(),
    ensures final(a).wf(), final(a).key() == old(a).key(), final(a).length == source.length, final(a).ids() == source.ids(), final(a).rows() == source.rows() { unimplemented!() }

/// `Archetype::component_eq` (R6, assumed contract; K-eq decides it on the real code): the
/// identifier columns and every component cell of the two tables are equal
pub uninterp spec fn vx_tables_eq<R: Registry>(a: archetype::Archetype<R>, b: archetype::Archetype<R>) -> bool;
#[verifier::external_body]
pub unsafe fn vx_component_eq<R: Registry>(a: &archetype::Archetype<R>, b: &archetype::Archetype<R>) -> (r: bool)
    requires vx_key_bits(a.key()) == vx_key_bits(b.key()),
    ensures r == vx_tables_eq(*a, *b) { unimplemented!() }
/// C16: table `t` has a table of the same component set in `m` that is component-equal to it
pub open spec fn vx_has_equal_partner<R: Registry>(t: archetype::Archetype<R>, m: IMap<archetype::IdentifierRef<R>, archetype::Archetype<R>>) -> bool {
    exists|k2: archetype::IdentifierRef<R>| m.dom().contains(k2) && vx_key_bits(k2) == vx_key_bits(t.key()) && vx_tables_eq(t, #[trigger] m[k2])
}

/// every stored table is well formed
pub open spec fn vx_tables_wf<R: Registry>(m: IMap<archetype::IdentifierRef<R>, archetype::Archetype<R>>) -> bool {
    forall|k: archetype::IdentifierRef<R>| m.dom().contains(k) ==> (#[trigger] m[k]).wf()
}
pub open spec fn vx_fresh_table<R: Registry>(a: archetype::Archetype<R>, k: archetype::IdentifierRef<R>, bits: VxBits) -> bool {
    a.wf() && a.length == 0 && a.key() == k && vx_key_bits(k) == bits
}
pub open spec fn vx_single_table<R: Registry>(m: IMap<archetype::IdentifierRef<R>, archetype::Archetype<R>>) -> bool {
    forall|k1: archetype::IdentifierRef<R>, k2: archetype::IdentifierRef<R>|
        m.dom().contains(k1) && m.dom().contains(k2) && vx_key_bits(k1) == vx_key_bits(k2) ==> k1 == k2
}

pub struct Archetypes<R>
where
    R: Registry, {
    pub raw_archetypes: VxRawTable<R>,
    pub hash_builder: FnvBuildHasher,

    pub type_id_lookup: VxTypeMap<R>,
    pub foreign_identifier_lookup: VxBytesMap<R>,
}


impl<R: Registry> Archetypes<R> {
    pub open spec fn view(&self) -> IMap<archetype::IdentifierRef<R>, archetype::Archetype<R>> { self.raw_archetypes@ }
    /// I1: every table sits under its own key
    pub open spec fn inv_keyed(&self) -> bool { self.raw_archetypes.keyed() }
    /// I2: the bytes lookup lists exactly the tables with keys in `d`, each under its own bytes
    pub open spec fn inv_foreign_complete(&self, d: ISet<archetype::IdentifierRef<R>>) -> bool {
        forall|k: archetype::IdentifierRef<R>| #[trigger] d.contains(k) ==>
            self.foreign_identifier_lookup@.dom().contains(vx_key_bits(k)) && self.foreign_identifier_lookup@[vx_key_bits(k)] == k
    }
    pub open spec fn inv_foreign_sound(&self, d: ISet<archetype::IdentifierRef<R>>) -> bool {
        forall|b: Seq<u8>| #[trigger] self.foreign_identifier_lookup@.dom().contains(b) ==>
            d.contains(self.foreign_identifier_lookup@[b]) && vx_key_bits(self.foreign_identifier_lookup@[b]) == b
    }
    /// I3: the type cache points at stored tables of the right component set
    pub open spec fn inv_type_cache(&self, d: ISet<archetype::IdentifierRef<R>>) -> bool {
        forall|t: TypeId| #[trigger] self.type_id_lookup@.dom().contains(t) ==>
            d.contains(self.type_id_lookup@[t]) && vx_key_bits(self.type_id_lookup@[t]) == vx_type_bits(t)
    }
    /// the lookup tables are in step with a table set whose keys are `d` (depends on keys only)
    pub open spec fn lookups_ok(&self, d: ISet<archetype::IdentifierRef<R>>) -> bool {
        self.inv_foreign_complete(d) && self.inv_foreign_sound(d) && self.inv_type_cache(d)
    }
    pub open spec fn wf(&self) -> bool {
        self.inv_keyed() && self.lookups_ok(self@.dom())
    }
    /// C13: entities with the same component set are kept in a single table
    pub proof fn lemma_single_table(&self)
        requires self.wf(),
        ensures vx_single_table(self@),
    {
        assert forall|k1: archetype::IdentifierRef<R>, k2: archetype::IdentifierRef<R>|
            self@.dom().contains(k1) && self@.dom().contains(k2) && vx_key_bits(k1) == vx_key_bits(k2) implies k1 == k2 by {
            assert(self@.dom().contains(k1) && self@.dom().contains(k2));
            assert(self.foreign_identifier_lookup@[vx_key_bits(k1)] == k1);
            assert(self.foreign_identifier_lookup@[vx_key_bits(k2)] == k2);
        }
    }
}


/// identifier `i` is stored in one of the first `n` tables of the enumeration `keys`
pub open spec fn vx_stored_prefix<R: Registry>(m: IMap<archetype::IdentifierRef<R>, archetype::Archetype<R>>, keys: Seq<archetype::IdentifierRef<R>>, n: int, i: entity::Identifier) -> bool {
    exists|j: int| 0 <= j < n && (#[trigger] m[keys[j]]).ids().contains(i)
}
pub proof fn lemma_stored_prefix_step<R: Registry>(m: IMap<archetype::IdentifierRef<R>, archetype::Archetype<R>>, keys: Seq<archetype::IdentifierRef<R>>, n: int, i: entity::Identifier)
    requires 0 <= n < keys.len(),
    ensures vx_stored_prefix(m, keys, n + 1, i) == (vx_stored_prefix(m, keys, n, i) || m[keys[n]].ids().contains(i)),
{
    if vx_stored_prefix(m, keys, n + 1, i) {
        let j = choose|j: int| 0 <= j < n + 1 && (#[trigger] m[keys[j]]).ids().contains(i);
        if j < n { assert(0 <= j < n && m[keys[j]].ids().contains(i)); }
    }
    if vx_stored_prefix(m, keys, n, i) {
        let j = choose|j: int| 0 <= j < n && (#[trigger] m[keys[j]]).ids().contains(i);
        assert(0 <= j < n + 1 && m[keys[j]].ids().contains(i));
    }
    if m[keys[n]].ids().contains(i) {
        assert(0 <= n < n + 1 && m[keys[n]].ids().contains(i));
    }
}
/// over the whole enumeration, "stored in a prefix table" is "stored in the table set"
pub proof fn lemma_stored_prefix_all<R: Registry>(m: IMap<archetype::IdentifierRef<R>, archetype::Archetype<R>>, keys: Seq<archetype::IdentifierRef<R>>, i: entity::Identifier)
    requires
        forall|k: archetype::IdentifierRef<R>| m.dom().contains(k) == keys.contains(k),
        forall|k: archetype::IdentifierRef<R>| m.dom().contains(k) ==> (#[trigger] m[k]).wf(),
    ensures vx_stored_prefix(m, keys, keys.len() as int, i) == vx_stored(m, i),
{
    if vx_stored_prefix(m, keys, keys.len() as int, i) {
        let j = choose|j: int| 0 <= j < keys.len() && (#[trigger] m[keys[j]]).ids().contains(i);
        let k = keys[j];
        assert(keys.contains(k));
        assert(m.dom().contains(k));
        assert(m[k].wf());
        let r = choose|r: int| 0 <= r < m[k].ids().len() && m[k].ids()[r] == i;
        assert(m.dom().contains(k) && 0 <= r < m[k].length && m[k].ids()[r] == i);
    }
    if vx_stored(m, i) {
        let (k, r) = choose|k: archetype::IdentifierRef<R>, r: int| m.dom().contains(k) && 0 <= r < m[k].length && #[trigger] m[k].ids()[r] == i;
        assert(keys.contains(k));
        let j = choose|j: int| 0 <= j < keys.len() && keys[j] == k;
        assert(m[k].wf());
        assert(m[keys[j]].ids()[r] == i);
        assert(m[keys[j]].ids().contains(i));
        assert(0 <= j < keys.len() && m[keys[j]].ids().contains(i));
    }
}

impl<R> Archetypes<R> where R: Registry {
    pub fn new() -> (r: Self)
        ensures
            r.wf(),
            r@ == IMap::<archetype::IdentifierRef<R>, archetype::Archetype<R>>::empty(),
    {

        Self {
            raw_archetypes: VxRawTable::new(),
            hash_builder: FnvBuildHasher::default(),

            type_id_lookup: VxTypeMap::default(),
            foreign_identifier_lookup: VxBytesMap::default(),
        }
    
    }

    pub fn with_capacity(capacity: usize) -> (r: Self)
        ensures
            r.wf(),
            r@ == IMap::<archetype::IdentifierRef<R>, archetype::Archetype<R>>::empty(),
    {

        Self {
            raw_archetypes: VxRawTable::with_capacity(capacity),
            hash_builder: FnvBuildHasher::default(),

            type_id_lookup: VxTypeMap::vx_with_capacity(capacity),
            foreign_identifier_lookup: VxBytesMap::vx_with_capacity(capacity),
        }
    
    }

    pub fn get(&self, identifier: archetype::IdentifierRef<R>) -> (r: Option<&Archetype<R>>)
        ensures
            r == (if self@.dom().contains(identifier) { Some(&self@[identifier]) } else { None::<&archetype::Archetype<R>> }),
    {

        self.raw_archetypes.vx_get(
            vx_make_hash(identifier, &self.hash_builder),
            identifier,
        )
    
    }

    pub fn get_mut(&mut self, identifier: archetype::IdentifierRef<R>,) -> (r: Option<&mut Archetype<R>>)
        ensures
            r is Some == old(self)@.dom().contains(identifier),
            r is Some ==> *r->0 == old(self)@[identifier] && final(self)@ == old(self)@.insert(identifier, *final(r->0)),
            r is None ==> final(self)@ == old(self)@,
            final(self).foreign_identifier_lookup == old(self).foreign_identifier_lookup && final(self).type_id_lookup == old(self).type_id_lookup,
    {

        self.raw_archetypes.vx_get_mut(
            vx_make_hash(identifier, &self.hash_builder),
            identifier,
        )
    
    }

    pub unsafe fn get_unchecked_mut(&mut self, identifier: archetype::IdentifierRef<R>,) -> (r: &mut Archetype<R>)
        requires
            old(self)@.dom().contains(identifier),
        ensures
            *r == old(self)@[identifier],
            final(self)@ == old(self)@.insert(identifier, *final(r)),
            final(self).foreign_identifier_lookup == old(self).foreign_identifier_lookup && final(self).type_id_lookup == old(self).type_id_lookup,
    {


        unsafe {
            self.raw_archetypes.vx_get_mut(
                    vx_make_hash(identifier, &self.hash_builder),
                    identifier,
                )
                .unwrap()
        }
    
    }

     fn get_with_foreign(&self, identifier: archetype::IdentifierRef<R>) -> (r: Option<&Archetype<R>>)
        requires
            self.wf(),
        ensures
            r is Some == (exists|k: archetype::IdentifierRef<R>| self@.dom().contains(k) && vx_key_bits(k) == vx_key_bits(identifier)),
            r is Some ==> self@.dom().contains(r->0.key()) && *r->0 == self@[r->0.key()] && vx_key_bits(r->0.key()) == vx_key_bits(identifier),
    {

        self.get(*self.foreign_identifier_lookup.vx_get(

            vx_as_bytes_ref(identifier),
        )?)
    
    }

     fn get_mut_with_foreign(&mut self, identifier: archetype::IdentifierRef<R>,) -> (r: Option<&mut Archetype<R>>)
        requires
            old(self).wf(),
        ensures
            r is Some == (exists|k: archetype::IdentifierRef<R>| old(self)@.dom().contains(k) && vx_key_bits(k) == vx_key_bits(identifier)),
            r is Some ==> old(self)@.dom().contains(r->0.key()) && *r->0 == old(self)@[r->0.key()] && vx_key_bits(r->0.key()) == vx_key_bits(identifier) && final(self)@ == old(self)@.insert(r->0.key(), *final(r->0)),
            r is None ==> final(self)@ == old(self)@,
            final(self).foreign_identifier_lookup == old(self).foreign_identifier_lookup && final(self).type_id_lookup == old(self).type_id_lookup,
    {

        self.get_mut(*self.foreign_identifier_lookup.vx_get(

            vx_as_bytes_ref(identifier),
        )?)
    
    }

    pub fn get_mut_or_insert_new(&mut self, identifier_buffer: archetype::Identifier<R>,) -> (r: &mut Archetype<R>)
        requires
            old(self).wf(),
        ensures
            (exists|k: archetype::IdentifierRef<R>| old(self)@.dom().contains(k) && vx_key_bits(k) == identifier_buffer.spec_bits()) ==> old(self)@.dom().contains(r.key()) && *r == old(self)@[r.key()] && vx_key_bits(r.key()) == identifier_buffer.spec_bits(),
            !(exists|k: archetype::IdentifierRef<R>| old(self)@.dom().contains(k) && vx_key_bits(k) == identifier_buffer.spec_bits()) ==> !old(self)@.dom().contains(r.key()) && vx_fresh_table(*r, r.key(), identifier_buffer.spec_bits()),
            final(self)@ == old(self)@.insert(r.key(), *final(r)),
            final(self).inv_foreign_complete(old(self)@.dom().insert(r.key())),
            final(self).inv_foreign_sound(old(self)@.dom().insert(r.key())),
            final(self).inv_type_cache(old(self)@.dom().insert(r.key())),
    {

proof { vx_axiom_ref_bits(&identifier_buffer); vx_axiom_fresh_buffer(&self.raw_archetypes, &identifier_buffer); }

        if let Some(vx_ref_identifier) = self.foreign_identifier_lookup.vx_get(

            vx_as_bytes(&identifier_buffer),
        ) { let identifier = *vx_ref_identifier;
            if let Some(archetype) = self.get_mut(identifier) {
                archetype
            } else {

                unsafe { vx_unreachable() }
            }
        } else {

            unsafe {
                self.foreign_identifier_lookup.vx_insert_unique_unchecked(
                    vx_as_bytes(&identifier_buffer),
                    identifier_buffer.as_ref(),
                );
            }
            self.raw_archetypes.vx_insert_entry(

                vx_make_hash(unsafe { identifier_buffer.as_ref() }, &self.hash_builder),
                Archetype::new(identifier_buffer))
        }
    
    }

    pub unsafe fn get_mut_or_insert_new_for_entity<E, P>(&mut self) -> (r: &mut Archetype<R>)
        requires
            old(self).wf(),
        ensures
            (exists|k: archetype::IdentifierRef<R>| old(self)@.dom().contains(k) && vx_key_bits(k) == vx_bits_of::<E>()) ==> old(self)@.dom().contains(r.key()) && *r == old(self)@[r.key()] && vx_key_bits(r.key()) == vx_bits_of::<E>(),
            !(exists|k: archetype::IdentifierRef<R>| old(self)@.dom().contains(k) && vx_key_bits(k) == vx_bits_of::<E>()) ==> !old(self)@.dom().contains(r.key()) && vx_fresh_table(*r, r.key(), vx_bits_of::<E>()),
            final(self)@ == old(self)@.insert(r.key(), *final(r)),
            final(self).inv_foreign_complete(old(self)@.dom().insert(r.key())),
            final(self).inv_foreign_sound(old(self)@.dom().insert(r.key())),
            final(self).inv_type_cache(old(self)@.dom().insert(r.key())),
    {


        if let Some(identifier) = self.type_id_lookup.get(&vx_type_id::<E>()) {
            let hash = vx_make_hash(*identifier, &self.hash_builder);

            match self
                .raw_archetypes.vx_get_mut(hash, *identifier) { Some(archetype_bucket) => archetype_bucket,

                None => unsafe { vx_unreachable() },
            }
        } else {

            let identifier_buffer = vx_create_archetype_identifier::<R, E>();
proof { vx_axiom_ref_bits(&identifier_buffer); vx_axiom_fresh_buffer(&self.raw_archetypes, &identifier_buffer); }


            let archetype = if let Some(vx_ref_identifier) = self.foreign_identifier_lookup.vx_get(

                vx_as_bytes(&identifier_buffer),
            ) { let identifier = *vx_ref_identifier;
                if let Some(archetype) = self.raw_archetypes.vx_get_mut(
                    vx_make_hash(identifier, &self.hash_builder),
                    identifier,
                ) {
                    archetype
                } else {

                    unsafe { vx_unreachable() }
                }
            } else {

                unsafe {
                    self.foreign_identifier_lookup.vx_insert_unique_unchecked(
                        vx_as_bytes(&identifier_buffer),
                        identifier_buffer.as_ref(),
                    );
                }
                self.raw_archetypes.vx_insert_entry(

                    vx_make_hash(unsafe { identifier_buffer.as_ref() }, &self.hash_builder),
                    Archetype::new(identifier_buffer))
            };

            self.type_id_lookup.insert(
                vx_type_id::<E>(),

                unsafe { archetype.identifier() },
            );

            archetype
        }
    
    }

    pub fn insert(&mut self, archetype: Archetype<R>) -> (r: Result<(), Archetype<R>>)
        requires
            old(self).wf(),
            archetype.wf(),
        ensures
            (exists|k: archetype::IdentifierRef<R>| old(self)@.dom().contains(k) && vx_key_bits(k) == vx_key_bits(archetype.key())) == (r is Err),
            r is Err ==> final(self)@ == old(self)@ && r == Err::<(), Archetype<R>>(archetype),
            r is Ok ==> final(self)@ == old(self)@.insert(archetype.key(), archetype),
            final(self).inv_keyed(),
            final(self).inv_foreign_complete(final(self)@.dom()),
            final(self).inv_foreign_sound(final(self)@.dom()),
            final(self).inv_type_cache(final(self)@.dom()),
    {

proof { vx_axiom_fresh_table(&self.raw_archetypes, &archetype); }

        let hash = vx_make_hash(

            unsafe { archetype.identifier() },
            &self.hash_builder,
        );

        if let Some(_existing_archetype) = self.get_with_foreign(unsafe { archetype.identifier() })
        {
            Err(archetype)
        } else {

            let identifier = unsafe { archetype.identifier() };

            unsafe {
                self.foreign_identifier_lookup.vx_insert_unique_unchecked(vx_as_bytes_ref(identifier), identifier);
            }
            self.raw_archetypes.vx_insert(hash, archetype);
            Ok(())
        }
    
    }

    pub unsafe fn clear(&mut self, entity_allocator: &mut Allocator<R>)
        requires
            old(self).inv_keyed(),
            vx_tables_ok(old(self)@, old(entity_allocator)),
            old(entity_allocator).wf(),
        ensures
            final(self)@.dom() == old(self)@.dom(),
            forall|k: archetype::IdentifierRef<R>| final(self)@.dom().contains(k) ==> (#[trigger] final(self)@[k]).wf() && final(self)@[k].length == 0 && final(self)@[k].key() == k,
            final(entity_allocator).wf(),
            forall|i: entity::Identifier| final(entity_allocator).resolves(i) == (old(entity_allocator).resolves(i) && !vx_stored(old(self)@, i)),
            final(entity_allocator).slots@.len() == old(entity_allocator).slots@.len(),
            final(self).foreign_identifier_lookup == old(self).foreign_identifier_lookup && final(self).type_id_lookup == old(self).type_id_lookup,
    {

let ghost vx_a0 = *self; let ghost vx_alloc0 = *entity_allocator;

        let vx_keys1 = self.raw_archetypes.vx_keys(); let vx_n1 = self.raw_archetypes.vx_len(vx_keys1); let mut vx_i1: usize = 0;
proof { assert forall|j: int| 0 <= j < vx_n1 implies (#[trigger] vx_a0@[vx_keys1@[j]]).agrees(entity_allocator) by { assert(vx_keys1@.contains(vx_keys1@[j])); assert(vx_a0@.dom().contains(vx_keys1@[j])); } }
 while vx_i1 < vx_n1 
            invariant
                vx_keys1@.len() == vx_n1 && vx_i1 <= vx_n1 && self.raw_archetypes.enumerates(vx_keys1@) && vx_a0.raw_archetypes.enumerates(vx_keys1@),
                self@.dom() == vx_a0@.dom(),
                self.foreign_identifier_lookup == vx_a0.foreign_identifier_lookup && self.type_id_lookup == vx_a0.type_id_lookup,
                forall|j: int| 0 <= j < vx_i1 ==> (#[trigger] self@[vx_keys1@[j]]).wf() && self@[vx_keys1@[j]].length == 0 && self@[vx_keys1@[j]].key() == vx_keys1@[j],
                forall|j: int| vx_i1 <= j < vx_n1 ==> (#[trigger] self@[vx_keys1@[j]]) == vx_a0@[vx_keys1@[j]],
                forall|j: int| vx_i1 <= j < vx_n1 ==> (#[trigger] vx_a0@[vx_keys1@[j]]).agrees(entity_allocator),
                entity_allocator.wf(),
                forall|i: entity::Identifier| entity_allocator.resolves(i) == (vx_alloc0.resolves(i) && !vx_stored_prefix(vx_a0@, vx_keys1@, vx_i1 as int, i)),
                forall|i: entity::Identifier| entity_allocator.resolves(i) ==> entity_allocator.view()[i] == vx_alloc0.view()[i],
                entity_allocator.slots@.len() == vx_alloc0.slots@.len(),
                vx_a0.inv_keyed() && vx_tables_ok(vx_a0@, &vx_alloc0),
            decreases vx_n1 - vx_i1
{
 let archetype = self.raw_archetypes.vx_nth_mut(vx_i1, vx_keys1);


let ghost vx_pre_alloc = *entity_allocator; let ghost vx_k = vx_keys1@[vx_i1 as int]; proof { assert(vx_a0@.dom().contains(vx_k)) by { assert(vx_keys1@.contains(vx_k)); } }
            unsafe { archetype.clear(entity_allocator) };
proof {
                let k = vx_k;
                let t0 = vx_a0@[k];
                assert(self@.dom() =~= vx_a0@.dom());
                assert forall|j: int| vx_i1 + 1 <= j < vx_n1 implies (#[trigger] self@[vx_keys1@[j]]) == vx_a0@[vx_keys1@[j]] by {
                    assert(vx_keys1@[j] != k);
                }
                assert forall|j: int| 0 <= j < vx_i1 + 1 implies (#[trigger] self@[vx_keys1@[j]]).wf() && self@[vx_keys1@[j]].length == 0 && self@[vx_keys1@[j]].key() == vx_keys1@[j] by {
                    if j < vx_i1 { assert(vx_keys1@[j] != k); }
                }
                // tables still to do keep agreeing: their identifiers are not the ones just released
                assert forall|j: int| vx_i1 + 1 <= j < vx_n1 implies (#[trigger] vx_a0@[vx_keys1@[j]]).agrees(entity_allocator) by {
                    let t = vx_a0@[vx_keys1@[j]];
                    assert(vx_a0@.dom().contains(vx_keys1@[j])) by { assert(vx_keys1@.contains(vx_keys1@[j])); }
                    assert(t.agrees(&vx_pre_alloc));
                    assert(t.key() == vx_keys1@[j]);
                    assert forall|r: int| 0 <= r < t.length implies entity_allocator.resolves(#[trigger] t.ids()[r])
                        && entity_allocator.view()[t.ids()[r]] == (Location { identifier: t.key(), index: r as usize }) by {
                        let i = t.ids()[r];
                        assert(vx_pre_alloc.resolves(i));
                        if t0.ids().contains(i) {
                            let q = choose|q: int| 0 <= q < t0.ids().len() && t0.ids()[q] == i;
                            assert(vx_pre_alloc.view()[t0.ids()[q]].identifier == t0.key());
                        }
                    }
                }
                assert forall|i: entity::Identifier| entity_allocator.resolves(i) == (vx_alloc0.resolves(i) && !vx_stored_prefix(vx_a0@, vx_keys1@, vx_i1 + 1, i)) by {
                    lemma_stored_prefix_step(vx_a0@, vx_keys1@, vx_i1 as int, i);
                    assert(entity_allocator.resolves(i) == (vx_pre_alloc.resolves(i) && !t0.ids().contains(i)));
                    assert(vx_pre_alloc.resolves(i) == (vx_alloc0.resolves(i) && !vx_stored_prefix(vx_a0@, vx_keys1@, vx_i1 as int, i)));
                    assert(t0 == vx_a0@[vx_keys1@[vx_i1 as int]]);
                }
            }

        
 vx_i1 += 1;
 }
proof {
            assert(self@.dom() =~= vx_a0@.dom());
            assert forall|k: archetype::IdentifierRef<R>| self@.dom().contains(k) implies (#[trigger] self@[k]).wf() && self@[k].length == 0 && self@[k].key() == k by {
                assert(vx_keys1@.contains(k));
                let j = choose|j: int| 0 <= j < vx_keys1@.len() && vx_keys1@[j] == k;
                assert(self@[vx_keys1@[j]].length == 0);
            }
            assert forall|i: entity::Identifier| entity_allocator.resolves(i) == (vx_alloc0.resolves(i) && !vx_stored(vx_a0@, i)) by {
                lemma_stored_prefix_all(vx_a0@, vx_keys1@, i);
                assert(vx_i1 == vx_keys1@.len());
            }
        }

    }

}

impl<R> Archetypes<R> where R: Registry {
    pub unsafe fn clone_from(&mut self, source: &Self,) -> (r: VxKeyMap<R>)
        requires
            old(self).wf(),
            source.wf(),
            vx_tables_wf(old(self)@) && vx_tables_wf(source@),
        ensures
            vx_is_key_map(r@, source@, final(self)@),
            vx_single_table(final(self)@),
            final(self).wf(),
    {

let ghost vx_a0 = *self; let ghost mut vx_m1 = *self; let ghost mut vx_m2 = *self; let ghost mut vx_vals = ISet::<archetype::IdentifierRef<R>>::empty(); let ghost mut vx_k2 = Seq::<archetype::IdentifierRef<R>>::empty(); proof { source.lemma_single_table(); }

        let mut identifier_map =
            VxKeyMap::vx_with_capacity(self.raw_archetypes.len());

        let vx_keys1 = source.raw_archetypes.vx_keys(); let vx_n1 = source.raw_archetypes.vx_len(vx_keys1); let mut vx_i1: usize = 0;
 while vx_i1 < vx_n1 
            invariant
                vx_keys1@.len() == vx_n1 && vx_i1 <= vx_n1 && source.raw_archetypes.enumerates(vx_keys1@),
                self.wf() && vx_tables_wf(self@) && source.wf() && vx_tables_wf(source@) && vx_single_table(source@),
                forall|j: int| 0 <= j < vx_i1 ==> vx_copied(identifier_map@, self@, source@, #[trigger] vx_keys1@[j]),
                forall|k: archetype::IdentifierRef<R>| #[trigger] identifier_map@.dom().contains(k) ==> (exists|j: int| 0 <= j < vx_i1 && vx_keys1@[j] == k),
            decreases vx_n1 - vx_i1
{
 let source_archetype = source.raw_archetypes.vx_nth(vx_i1, vx_keys1);
let ghost vx_s1 = *self; let ghost vx_map1 = identifier_map@; proof { self.lemma_single_table(); assert(source@.dom().contains(vx_keys1@[vx_i1 as int])) by { assert(vx_keys1@.contains(vx_keys1@[vx_i1 as int])); } }


            if let Some(archetype) = self.get_mut_with_foreign(

                unsafe { source_archetype.identifier() },
            ) {
                vx_archetype_clone_from(archetype, source_archetype);
                identifier_map.insert(

                    unsafe { source_archetype.identifier() },

                    unsafe { archetype.identifier() },
                );
            } else {

                let archetype = vx_archetype_clone(source_archetype);
                identifier_map.insert(

                    unsafe { source_archetype.identifier() },

                    unsafe { archetype.identifier() },
                );
                
                {
                    self.insert(archetype);
                }
            }
        
proof {
                let i = vx_i1 as int;
                let k = vx_keys1@[i];
                let src = source@[k];
                assert(src.key() == k);
                let k2 = identifier_map@[k];
                assert(identifier_map@.dom().contains(k));
                assert(vx_key_bits(k2) == vx_key_bits(k));
                assert forall|kk: archetype::IdentifierRef<R>| #[trigger] identifier_map@.dom().contains(kk) implies (exists|j: int| 0 <= j < i + 1 && vx_keys1@[j] == kk) by {
                    if kk == k { assert(vx_keys1@[i] == kk); } else {
                        assert(vx_map1.dom().contains(kk));
                        let j = choose|j: int| 0 <= j < i && vx_keys1@[j] == kk;
                        assert(0 <= j < i + 1 && vx_keys1@[j] == kk);
                    }
                }
                assert(self@.dom().contains(k2));
                assert(vx_table_copy(self@[k2], src, k2));
                assert forall|j: int| 0 <= j < i + 1 implies vx_copied(identifier_map@, self@, source@, #[trigger] vx_keys1@[j]) by {
                    if j == i {
                        assert(vx_keys1@[j] == k);
                        assert(vx_table_copy(self@[identifier_map@[vx_keys1@[j]]], source@[vx_keys1@[j]], identifier_map@[vx_keys1@[j]]));
                    } else {
                        // earlier copies are untouched: they live under keys with other component bytes
                        let kj = vx_keys1@[j];
                        assert(kj != k);
                        assert(source@.dom().contains(kj)) by { assert(vx_keys1@.contains(kj)); }
                        assert(vx_map1.dom().contains(kj));
                        assert(identifier_map@[kj] == vx_map1[kj]);
                        assert(vx_s1@.dom().contains(vx_map1[kj]));
                        assert(vx_table_copy(vx_s1@[vx_map1[kj]], source@[kj], vx_map1[kj]));
                        assert(source@[kj].key() == kj);
                        assert(vx_key_bits(vx_map1[kj]) == vx_key_bits(kj));
                        assert(vx_key_bits(kj) != vx_key_bits(k));
                        assert(vx_map1[kj] != k2);
                        assert(self@.dom().contains(vx_map1[kj]));
                        assert(self@[vx_map1[kj]] == vx_s1@[vx_map1[kj]]);
                    }
                }
                assert(vx_tables_wf(self@)) by {
                    assert forall|kk: archetype::IdentifierRef<R>| self@.dom().contains(kk) implies (#[trigger] self@[kk]).wf() by {
                        if kk != k2 { assert(vx_s1@.dom().contains(kk) && self@[kk] == vx_s1@[kk]); }
                    }
                }
            }
 vx_i1 += 1;
 }

        let cloned_archetype_identifiers = identifier_map.vx_values();
        let vx_keys2 = self.raw_archetypes.vx_keys(); let vx_n2 = self.raw_archetypes.vx_len(vx_keys2); let mut vx_i2: usize = 0;
proof { vx_m1 = *self; vx_vals = cloned_archetype_identifiers@; vx_k2 = vx_keys2@; assert forall|j: int| 0 <= j < vx_n2 implies (#[trigger] self@[vx_keys2@[j]]) == vx_m1@[vx_keys2@[j]] by { } }
 while vx_i2 < vx_n2 
            invariant
                vx_keys2@.len() == vx_n2 && vx_i2 <= vx_n2 && self.raw_archetypes.enumerates(vx_keys2@) && vx_m1.raw_archetypes.enumerates(vx_keys2@),
                self@.dom() == vx_m1@.dom() && self.foreign_identifier_lookup == vx_m1.foreign_identifier_lookup && self.type_id_lookup == vx_m1.type_id_lookup,
                forall|j: int| 0 <= j < vx_i2 ==> (#[trigger] self@[vx_keys2@[j]]).wf() && self@[vx_keys2@[j]].key() == vx_keys2@[j] && (if cloned_archetype_identifiers@.contains(vx_keys2@[j]) { self@[vx_keys2@[j]] == vx_m1@[vx_keys2@[j]] } else { self@[vx_keys2@[j]].length == 0 }),
                forall|j: int| vx_i2 <= j < vx_n2 ==> (#[trigger] self@[vx_keys2@[j]]) == vx_m1@[vx_keys2@[j]],
                vx_m1.wf() && vx_tables_wf(vx_m1@),
            decreases vx_n2 - vx_i2
{
let ghost vx_s2 = *self; proof { assert(vx_m1@.dom().contains(vx_keys2@[vx_i2 as int])) by { assert(vx_keys2@.contains(vx_keys2@[vx_i2 as int])); } }
 let archetype = self.raw_archetypes.vx_nth_mut(vx_i2, vx_keys2);


            if !cloned_archetype_identifiers.contains(&unsafe { archetype.identifier() }) {
                archetype.clear_detached();
            }
        
proof {
                let i = vx_i2 as int;
                let k = vx_keys2@[i];
                assert forall|j: int| i + 1 <= j < vx_n2 implies (#[trigger] self@[vx_keys2@[j]]) == vx_m1@[vx_keys2@[j]] by {
                    assert(vx_keys2@[j] != k);
                    assert(vx_s2@[vx_keys2@[j]] == vx_m1@[vx_keys2@[j]]);
                }
                assert forall|j: int| 0 <= j < i + 1 implies (#[trigger] self@[vx_keys2@[j]]).wf() && self@[vx_keys2@[j]].key() == vx_keys2@[j]
                    && (if cloned_archetype_identifiers@.contains(vx_keys2@[j]) { self@[vx_keys2@[j]] == vx_m1@[vx_keys2@[j]] } else { self@[vx_keys2@[j]].length == 0 }) by {
                    if j < i { assert(vx_keys2@[j] != k); assert(self@[vx_keys2@[j]] == vx_s2@[vx_keys2@[j]]); }
                    else { assert(vx_m1@[k].wf() && vx_m1@[k].key() == k); }
                }
                assert(self@.dom() =~= vx_m1@.dom());
            }
 vx_i2 += 1;
 }
        

        let vx_keys3 = source.type_id_lookup.vx_keys(); let vx_n3 = source.type_id_lookup.vx_len(vx_keys3); let mut vx_i3: usize = 0;
proof {
            vx_m2 = *self;
            assert(self@.dom() =~= vx_m1@.dom());
            assert forall|t: TypeId| #[trigger] self.type_id_lookup@.dom().contains(t) implies
                self@.dom().contains(self.type_id_lookup@[t]) && vx_key_bits(self.type_id_lookup@[t]) == vx_type_bits(t) by {
                assert(vx_m1.type_id_lookup@.dom().contains(t));
            }
            assert forall|k: archetype::IdentifierRef<R>| #[trigger] source@.dom().contains(k) implies (identifier_map@.dom().contains(k)
                && self@.dom().contains(identifier_map@[k]) && vx_key_bits(identifier_map@[k]) == vx_key_bits(k)) by {
                assert(vx_keys1@.contains(k));
                let j = choose|j: int| 0 <= j < vx_keys1@.len() && vx_keys1@[j] == k;
                assert(0 <= j < vx_n1);
                assert(identifier_map@.dom().contains(vx_keys1@[j]) && vx_m1@.dom().contains(identifier_map@[vx_keys1@[j]])
                    && vx_table_copy(vx_m1@[identifier_map@[vx_keys1@[j]]], source@[vx_keys1@[j]], identifier_map@[vx_keys1@[j]]));
                assert(source@[k].key() == k);
            }
        }
 while vx_i3 < vx_n3 
            invariant
                vx_keys3@.len() == vx_n3 && vx_i3 <= vx_n3 && source.type_id_lookup.enumerates(vx_keys3@),
                self.raw_archetypes == vx_m2.raw_archetypes && self.foreign_identifier_lookup == vx_m2.foreign_identifier_lookup,
                self.inv_type_cache(self@.dom()),
                forall|k: archetype::IdentifierRef<R>| #[trigger] source@.dom().contains(k) ==> identifier_map@.dom().contains(k),
                forall|k: archetype::IdentifierRef<R>| #[trigger] source@.dom().contains(k) ==> self@.dom().contains(identifier_map@[k]),
                forall|k: archetype::IdentifierRef<R>| #[trigger] source@.dom().contains(k) ==> vx_key_bits(identifier_map@[k]) == vx_key_bits(k),
                source.wf(),
            decreases vx_n3 - vx_i3
{
 let (type_id, identifier) = source.type_id_lookup.vx_nth_pair(vx_i3, vx_keys3);
proof {
                let t = vx_keys3@[vx_i3 as int];
                assert(source.type_id_lookup@.dom().contains(t)) by { assert(vx_keys3@.contains(t)); }
                assert(source@.dom().contains(source.type_id_lookup@[t]));
            }


            self.type_id_lookup.insert(
                type_id,

                *unsafe { identifier_map.get(identifier).unwrap() },
            );
        
 vx_i3 += 1;
 }

proof {
            let map = identifier_map@;
            assert(self@ == vx_m2@);
            assert(self@.dom() =~= vx_m1@.dom());
            // tables after the clearing pass
            assert forall|k2: archetype::IdentifierRef<R>| #[trigger] self@.dom().contains(k2) implies
                self@[k2].wf() && self@[k2].key() == k2 && (if vx_vals.contains(k2) { self@[k2] == vx_m1@[k2] } else { self@[k2].length == 0 }) by {
                assert(vx_k2.contains(k2));
                let j = choose|j: int| 0 <= j < vx_k2.len() && vx_k2[j] == k2;
                assert(self@[vx_k2[j]].wf());
            }
            assert forall|k: archetype::IdentifierRef<R>| source@.dom().contains(k) implies
                #[trigger] map.dom().contains(k) && self@.dom().contains(map[k]) && vx_table_copy(self@[map[k]], source@[k], map[k]) by {
                assert(vx_keys1@.contains(k));
                let j = choose|j: int| 0 <= j < vx_keys1@.len() && vx_keys1@[j] == k;
                assert(map.dom().contains(vx_keys1@[j]));
                assert(vx_vals.contains(map[k]));
                assert(vx_m1@.dom().contains(map[k]));
            }
            assert forall|k1: archetype::IdentifierRef<R>, k2: archetype::IdentifierRef<R>|
                source@.dom().contains(k1) && source@.dom().contains(k2) && #[trigger] map[k1] == #[trigger] map[k2] implies k1 == k2 by {
                assert(map.dom().contains(k1) && map.dom().contains(k2));
                assert(source@[k1].key() == k1 && source@[k2].key() == k2);
                assert(vx_key_bits(k1) == vx_key_bits(map[k1]));
                assert(vx_key_bits(k2) == vx_key_bits(map[k2]));
            }
            assert forall|k2: archetype::IdentifierRef<R>| #[trigger] self@.dom().contains(k2) implies
                self@[k2].wf() && self@[k2].key() == k2 && ((exists|k: archetype::IdentifierRef<R>| source@.dom().contains(k) && map[k] == k2) || self@[k2].length == 0) by {
                if vx_vals.contains(k2) {
                    let k = choose|k: archetype::IdentifierRef<R>| map.dom().contains(k) && map[k] == k2;
                    let j = choose|j: int| 0 <= j < vx_n1 && vx_keys1@[j] == k;
                    assert(vx_keys1@.contains(k));
                    assert(source@.dom().contains(k) && map[k] == k2);
                }
            }
            assert(self.lookups_ok(self@.dom())) by {
                assert(self.foreign_identifier_lookup == vx_m1.foreign_identifier_lookup);
                assert(vx_m1.lookups_ok(vx_m1@.dom()));
            }
            self.lemma_single_table();
        }
        identifier_map

    }

}


/// `a` is table `b` after `Archetype::shrink_to_fit` (or untouched): same key, identifiers, rows
pub open spec fn vx_same_table<R: Registry>(a: archetype::Archetype<R>, b: archetype::Archetype<R>) -> bool {
    a.wf() && a.key() == b.key() && a.length == b.length && a.ids() == b.ids() && a.rows() == b.rows()
}


// ---- R9/A10: the serde SeqAccess the archetypes visitor reads tables from.  Ghost state: the
// tables yielded so far and the sum of their lengths (each row owns a 16-byte identifier in live
// memory, so the sum fits usize: A5).
#[verifier::external_body]
#[verifier::accept_recursive_types(R)]
pub struct VxTableSeq<R: Registry> { p: PhantomData<R> }
#[verifier::external_body]
pub struct VxErr { _p: () }
impl<R: Registry> VxTableSeq<R> {
    pub uninterp spec fn yielded(&self) -> Seq<archetype::Archetype<R>>;
    pub uninterp spec fn total(&self) -> usize;
    /// elements left in the (finite) input
    pub uninterp spec fn remaining(&self) -> nat;
    #[verifier::external_body]
    pub fn vx_capacity_hint(&self) -> (n: usize) { unimplemented!() }
    #[verifier::external_body]
    pub fn vx_next_element(&mut self) -> (r: Result<Option<archetype::Archetype<R>>, VxErr>)
        ensures
            r is Ok && r->Ok_0 is Some ==> final(self).yielded() == old(self).yielded().push(r->Ok_0->0) && r->Ok_0->0.wf()
                && final(self).total() == old(self).total() + r->Ok_0->0.length && final(self).remaining() < old(self).remaining(),
            r is Ok && r->Ok_0 is None ==> final(self).yielded() == old(self).yielded() && final(self).total() == old(self).total(),
    { unimplemented!() }
}
#[verifier::external_body]
pub fn vx_custom_error() -> (e: VxErr) { unimplemented!() }

/// sum of the lengths of the tables read so far
pub open spec fn vx_sum_tables<R: Registry>(ts: Seq<archetype::Archetype<R>>) -> nat
    decreases ts.len()
{
    if ts.len() == 0 { 0 } else { vx_sum_tables(ts.drop_last()) + ts.last().length as nat }
}
pub open spec fn vx_keys_of<R: Registry>(ts: Seq<archetype::Archetype<R>>) -> Seq<archetype::IdentifierRef<R>> {
    Seq::new(ts.len(), |j: int| ts[j].key())
}
pub proof fn lemma_sum_tables_keys<R: Registry>(m: IMap<archetype::IdentifierRef<R>, archetype::Archetype<R>>, ts: Seq<archetype::Archetype<R>>)
    requires forall|j: int| 0 <= j < ts.len() ==> m[(#[trigger] ts[j]).key()] == ts[j],
    ensures vx_sum_keys(m, vx_keys_of(ts)) == vx_sum_tables(ts)
    decreases ts.len()
{
    if ts.len() > 0 {
        assert(vx_keys_of(ts).drop_last() =~= vx_keys_of(ts.drop_last()));
        assert(vx_keys_of(ts).last() == ts.last().key());
        lemma_sum_tables_keys(m, ts.drop_last());
    }
}

impl<R> Archetypes<R> where R: Registry {
    pub fn vx_visit_seq(len: &mut usize, seq: &mut VxTableSeq<R>) -> (r: Result<Archetypes<R>, VxErr>)
        requires
            *old(len) == old(seq).total() && *old(len) == 0,
            old(seq).yielded().len() == 0,
        ensures
            r is Ok ==> r->Ok_0.wf() && vx_tables_wf(r->Ok_0@),
            r is Ok ==> vx_single_table(r->Ok_0@) && forall|k: archetype::IdentifierRef<R>| r->Ok_0@.dom().contains(k) ==> (#[trigger] r->Ok_0@[k]).key() == k,
            r is Ok ==> forall|j: int| 0 <= j < final(seq).yielded().len() ==> r->Ok_0@.dom().contains((#[trigger] final(seq).yielded()[j]).key()) && r->Ok_0@[final(seq).yielded()[j].key()] == final(seq).yielded()[j],
            r is Ok ==> forall|k: archetype::IdentifierRef<R>| r->Ok_0@.dom().contains(k) ==> (exists|j: int| 0 <= j < final(seq).yielded().len() && (#[trigger] final(seq).yielded()[j]).key() == k),
            r is Ok ==> forall|a: int, b: int| 0 <= a < b < final(seq).yielded().len() ==> vx_key_bits((#[trigger] final(seq).yielded()[a]).key()) != vx_key_bits((#[trigger] final(seq).yielded()[b]).key()),
            r is Ok ==> *final(len) == final(seq).total(),
            r is Ok ==> *final(len) == vx_total_rows(r->Ok_0@),
    {

let ghost mut vx_prev = seq.yielded();

                let mut archetypes =
                    Archetypes::with_capacity(seq.vx_capacity_hint());
                while let Some(archetype) = seq.vx_next_element()? 
            invariant
                vx_prev == seq.yielded(),
                archetypes.wf() && vx_tables_wf(archetypes@),
                *len == seq.total(),
                *len == vx_sum_tables(seq.yielded()),
                forall|j: int| 0 <= j < seq.yielded().len() ==> archetypes@.dom().contains((#[trigger] seq.yielded()[j]).key()) && archetypes@[seq.yielded()[j].key()] == seq.yielded()[j],
                forall|k: archetype::IdentifierRef<R>| archetypes@.dom().contains(k) ==> (exists|j: int| 0 <= j < seq.yielded().len() && (#[trigger] seq.yielded()[j]).key() == k),
                forall|a: int, b: int| 0 <= a < b < seq.yielded().len() ==> vx_key_bits((#[trigger] seq.yielded()[a]).key()) != vx_key_bits((#[trigger] seq.yielded()[b]).key()),
            decreases seq.remaining()
{
let ghost vx_y0 = seq.yielded(); let ghost vx_t0 = archetypes@; let ghost vx_new = archetype;
                    *len += archetype.len();
                    if let Err(archetype) = archetypes.insert(archetype) {
                        return Err(vx_custom_error());
                    }
proof {
                        // the table just read went in under its own key; everything else is as before
                        let n = vx_y0.len() as int;
                        assert(vx_y0 == vx_prev.push(vx_new));
                        assert(vx_y0.drop_last() =~= vx_prev && vx_y0.last() == vx_new);
                        assert(archetypes@ == vx_t0.insert(vx_new.key(), vx_new));
                        assert forall|k: archetype::IdentifierRef<R>| archetypes@.dom().contains(k) implies (exists|j: int| 0 <= j < n && (#[trigger] vx_y0[j]).key() == k) by {
                            if k == vx_new.key() { assert(vx_y0[n - 1].key() == k); }
                            else {
                                assert(vx_t0.dom().contains(k));
                                let j = choose|j: int| 0 <= j < vx_prev.len() && (#[trigger] vx_prev[j]).key() == k;
                                assert(vx_y0[j] == vx_prev[j]);
                                assert(0 <= j < n && vx_y0[j].key() == k);
                            }
                        }
                        vx_prev = vx_y0;
                    }

                }
proof { archetypes.lemma_single_table();
                      let ts = seq.yielded(); let ks = vx_keys_of(ts);
                      assert forall|a: int, b: int| 0 <= a < b < ks.len() implies ks[a] != ks[b] by { assert(vx_key_bits(ts[a].key()) != vx_key_bits(ts[b].key())); }
                      assert forall|k: archetype::IdentifierRef<R>| archetypes@.dom().contains(k) == ks.contains(k) by {
                          if archetypes@.dom().contains(k) { let j = choose|j: int| 0 <= j < ts.len() && (#[trigger] ts[j]).key() == k; assert(ks[j] == k); }
                          if ks.contains(k) { let j = choose|j: int| 0 <= j < ks.len() && ks[j] == k; assert(archetypes@.dom().contains(ts[j].key())); }
                      }
                      lemma_sum_tables_keys(archetypes@, ts);
                      lemma_total_rows(archetypes@, ks); }
                Ok(archetypes)
            
    }

}


// ---- R9/A10: the serde Serializer the table set is written to, and the borrowing table iterator
#[verifier::external_body]
pub struct VxSeqSerializer { _p: () }
#[verifier::external_body]
pub struct VxSeqOk { _p: () }
pub struct VxTableTok { pub id: int }
/// the abstract token of a serialized table (K-deser-arch decides the element encoding, bounded)
pub uninterp spec fn vx_ser_table<R: Registry>(t: archetype::Archetype<R>) -> VxTableTok;
impl VxSeqOk { pub uninterp spec fn elems(&self) -> Seq<VxTableTok>; }
#[verifier::external_body]
#[verifier::accept_recursive_types(R)]
pub struct VxTableRefIter<'a, R: Registry> { p: PhantomData<&'a R> }
impl<'a, R: Registry> VxTableRefIter<'a, R> {
    pub uninterp spec fn rest(&self) -> Seq<archetype::Archetype<R>>;
    /// A1: `Iterator::filter(p)`: the items `p` accepts, in order
    #[verifier::external_body]
    pub fn filter<F: Fn(&&'a archetype::Archetype<R>) -> bool>(self, f: F) -> (r: VxTableRefIter<'a, R>)
        requires forall|t: &&'a archetype::Archetype<R>| #[trigger] f.requires((t,)),
        ensures r.rest().len() <= self.rest().len(),
                forall|j: int| 0 <= j < r.rest().len() ==> exists|i: int| 0 <= i < self.rest().len() && self.rest()[i] == #[trigger] r.rest()[j],
                (forall|t: &&'a archetype::Archetype<R>| f.ensures((t,), true)) ==> r.rest() == self.rest()
    { unimplemented!() }
}
impl VxSeqSerializer {
    /// serde `Serializer::is_human_readable()`: any answer
    #[verifier::external_body]
    pub fn is_human_readable(&self) -> (r: bool) { unimplemented!() }
    /// serde `Serializer::collect_seq(iter)`: one element per item of the iterator, in order
    #[verifier::external_body]
    pub fn collect_seq<'a, R: Registry>(self, it: VxTableRefIter<'a, R>) -> (r: Result<VxSeqOk, VxErr>)
        ensures r is Ok ==> r->Ok_0.elems() == Seq::new(it.rest().len(), |j: int| vx_ser_table(it.rest()[j])) { unimplemented!() }
}
impl<R: Registry> Archetypes<R> {
    /// R14/A3: `Archetypes::iter()` (hashbrown RawIter): every stored table once, in some order
    #[verifier::external_body]
    pub fn vx_iter<'a>(&'a self) -> (r: VxTableRefIter<'a, R>)
        ensures exists|ks: Seq<archetype::IdentifierRef<R>>| self.raw_archetypes.enumerates(ks) && r.rest() == Seq::new(ks.len(), |j: int| self@[ks[j]]) { unimplemented!() }
}

impl<R> Archetypes<R> where R: Registry {
    pub fn serialize(&self, serializer: VxSeqSerializer) -> (r: Result<VxSeqOk, VxErr>)
        ensures
            r is Ok ==> exists|ks: Seq<archetype::IdentifierRef<R>>| self.raw_archetypes.enumerates(ks) && r->Ok_0.elems() == Seq::new(ks.len(), |j: int| vx_ser_table(self@[ks[j]])),
    {

        serializer.collect_seq(self.vx_iter())
    
    }

}

impl<R> Archetypes<R> where R: Registry {
    pub fn eq(&self, other: &Self) -> (b: bool)
        requires
            self.wf(),
            other.wf(),
        ensures
            b == (self.raw_archetypes.count() == other.raw_archetypes.count() && forall|k: archetype::IdentifierRef<R>| self@.dom().contains(k) ==> vx_has_equal_partner(#[trigger] self@[k], other@)),
    {

proof { other.lemma_single_table(); }

        if self.raw_archetypes.len() != other.raw_archetypes.len() {
            return false;
        }

        let vx_keys1 = self.raw_archetypes.vx_keys(); let vx_n1 = self.raw_archetypes.vx_len(vx_keys1); let mut vx_i1: usize = 0;
        while vx_i1 < vx_n1 
            invariant
                vx_keys1@.len() == vx_n1 && vx_i1 <= vx_n1 && self.raw_archetypes.enumerates(vx_keys1@),
                self.wf() && other.wf() && vx_single_table(other@),
                self.raw_archetypes.count() == other.raw_archetypes.count(),
                forall|j: int| 0 <= j < vx_i1 ==> vx_has_equal_partner(#[trigger] self@[vx_keys1@[j]], other@),
            decreases vx_n1 - vx_i1
{
            let archetype = self.raw_archetypes.vx_nth(vx_i1, vx_keys1);
proof {
                let k = vx_keys1@[vx_i1 as int];
                assert(vx_keys1@.contains(k));
                assert(self@.dom().contains(k));
                assert(self@[k].key() == k);
            }

            if !(match other.get_with_foreign(unsafe { archetype.identifier() }) { Some(other_archetype) => unsafe { vx_component_eq(archetype, other_archetype) }, None => false }) { return false; }
            vx_i1 += 1;
        }
proof {
            assert forall|k: archetype::IdentifierRef<R>| self@.dom().contains(k) implies vx_has_equal_partner(#[trigger] self@[k], other@) by {
                assert(vx_keys1@.contains(k));
                let j = choose|j: int| 0 <= j < vx_keys1@.len() && vx_keys1@[j] == k;
                assert(vx_has_equal_partner(self@[vx_keys1@[j]], other@));
            }
        }
        return true;
    
    }

}


// ---- C16: the relation Archetypes::eq computes (its proved postcondition) is reflexive and
// symmetric, given that the per-table comparison is (A8: user PartialEq is an equivalence; K-eq:
// component_eq is pointwise equality of identifiers and cells)
pub open spec fn vx_archs_eq_spec<R: Registry>(a: Archetypes<R>, b: Archetypes<R>) -> bool {
    a.raw_archetypes.count() == b.raw_archetypes.count()
        && forall|k: archetype::IdentifierRef<R>| a@.dom().contains(k) ==> vx_has_equal_partner(#[trigger] a@[k], b@)
}
/// A3: a hashbrown table holds finitely many elements; `len()` is their number
#[verifier::external_body]
pub proof fn vx_axiom_count<R: Registry>(t: &VxRawTable<R>)
    ensures exists|ks: Seq<archetype::IdentifierRef<R>>| t.enumerates(ks) && ks.len() == t.count()
{ }
/// pigeonhole: an injective map from the elements of a duplicate-free list into the elements of
/// a duplicate-free list of the same length hits every element
pub proof fn lemma_injective_onto<K>(a: Seq<K>, b: Seq<K>, g: spec_fn(K) -> K)
    requires vx_nodup(a), vx_nodup(b), a.len() == b.len(),
             forall|i: int| 0 <= i < a.len() ==> b.contains(#[trigger] g(a[i])),
             forall|i: int, j: int| 0 <= i < j < a.len() ==> g(a[i]) != g(a[j]),
    ensures forall|y: K| b.contains(y) ==> exists|i: int| 0 <= i < a.len() && #[trigger] g(a[i]) == y
    decreases a.len()
{
    if a.len() > 0 {
        let x = a.last();
        let gx = g(x);
        assert(b.contains(g(a[a.len() - 1])));
        let j = choose|j: int| 0 <= j < b.len() && b[j] == gx;
        let a1 = a.drop_last();
        let b1 = b.remove(j);
        assert(vx_nodup(a1));
        assert(vx_nodup(b1)) by {
            assert forall|p: int, q: int| 0 <= p < q < b1.len() implies b1[p] != b1[q] by {
                let pp = if p < j { p } else { p + 1 };
                let qq = if q < j { q } else { q + 1 };
                assert(b1[p] == b[pp] && b1[q] == b[qq]);
            }
        }
        assert forall|i: int| 0 <= i < a1.len() implies b1.contains(#[trigger] g(a1[i])) by {
            assert(a1[i] == a[i]);
            assert(b.contains(g(a[i])));
            let q = choose|q: int| 0 <= q < b.len() && b[q] == g(a[i]);
            assert(g(a[i]) != g(a[a.len() - 1]));
            assert(q != j);
            let qq = if q < j { q } else { q - 1 };
            assert(b1[qq] == g(a1[i]));
        }
        assert forall|i: int, k: int| 0 <= i < k < a1.len() implies g(a1[i]) != g(a1[k]) by { assert(a1[i] == a[i] && a1[k] == a[k]); }
        lemma_injective_onto(a1, b1, g);
        assert forall|y: K| b.contains(y) implies exists|i: int| 0 <= i < a.len() && #[trigger] g(a[i]) == y by {
            let q = choose|q: int| 0 <= q < b.len() && b[q] == y;
            if q == j { assert(g(a[a.len() - 1]) == y); }
            else {
                let qq = if q < j { q } else { q - 1 };
                assert(b1[qq] == y);
                assert(b1.contains(y));
                let i = choose|i: int| 0 <= i < a1.len() && #[trigger] g(a1[i]) == y;
                assert(a1[i] == a[i]);
                assert(g(a[i]) == y);
            }
        }
    }
}
pub proof fn lemma_archs_eq_reflexive<R: Registry>(a: Archetypes<R>)
    requires a.wf(), forall|t: archetype::Archetype<R>| #[trigger] vx_tables_eq(t, t),
    ensures vx_archs_eq_spec(a, a)
{
    assert forall|k: archetype::IdentifierRef<R>| a@.dom().contains(k) implies vx_has_equal_partner(#[trigger] a@[k], a@) by {
        assert(a@[k].key() == k);
        assert(a@.dom().contains(k) && vx_key_bits(k) == vx_key_bits(a@[k].key()) && vx_tables_eq(a@[k], a@[k]));
    }
}
pub proof fn lemma_archs_eq_symmetric<R: Registry>(a: Archetypes<R>, b: Archetypes<R>)
    requires a.wf(), b.wf(), vx_archs_eq_spec(a, b),
             forall|t: archetype::Archetype<R>, u: archetype::Archetype<R>| #[trigger] vx_tables_eq(t, u) ==> vx_tables_eq(u, t),
    ensures vx_archs_eq_spec(b, a)
{
    a.lemma_single_table();
    vx_axiom_count(&a.raw_archetypes);
    vx_axiom_count(&b.raw_archetypes);
    let ka = choose|ks: Seq<archetype::IdentifierRef<R>>| a.raw_archetypes.enumerates(ks) && ks.len() == a.raw_archetypes.count();
    let kb = choose|ks: Seq<archetype::IdentifierRef<R>>| b.raw_archetypes.enumerates(ks) && ks.len() == b.raw_archetypes.count();
    let g = |k: archetype::IdentifierRef<R>| choose|k2: archetype::IdentifierRef<R>| b@.dom().contains(k2) && vx_key_bits(k2) == vx_key_bits(a@[k].key()) && vx_tables_eq(a@[k], #[trigger] b@[k2]);
    assert forall|i: int| 0 <= i < ka.len() implies kb.contains(#[trigger] g(ka[i])) && vx_key_bits(g(ka[i])) == vx_key_bits(ka[i]) && vx_tables_eq(a@[ka[i]], b@[g(ka[i])]) by {
        assert(ka.contains(ka[i]));
        assert(a@.dom().contains(ka[i]));
        assert(vx_has_equal_partner(a@[ka[i]], b@));
        assert(a@[ka[i]].key() == ka[i]);
        assert(b@.dom().contains(g(ka[i])));
    }
    assert forall|i: int, j: int| 0 <= i < j < ka.len() implies g(ka[i]) != g(ka[j]) by {
        assert(ka.contains(ka[i]) && ka.contains(ka[j]));
        if g(ka[i]) == g(ka[j]) {
            assert(vx_key_bits(ka[i]) == vx_key_bits(ka[j]));
            assert(ka[i] == ka[j]);
        }
    }
    lemma_injective_onto(ka, kb, g);
    assert forall|k2: archetype::IdentifierRef<R>| b@.dom().contains(k2) implies vx_has_equal_partner(#[trigger] b@[k2], a@) by {
        assert(kb.contains(k2));
        let i = choose|i: int| 0 <= i < ka.len() && #[trigger] g(ka[i]) == k2;
        let k = ka[i];
        assert(ka.contains(k));
        assert(b@[k2].key() == k2);
        assert(vx_tables_eq(a@[k], b@[k2]));
        assert(a@.dom().contains(k) && vx_key_bits(k) == vx_key_bits(b@[k2].key()) && vx_tables_eq(b@[k2], a@[k]));
    }
}

} // verus!
fn main() {}
