// GENERATED on every run by /verif/vx from the working tree of the repository. Do not edit.
#![feature(allocator_api)]
#![allow(unused_imports, unused_variables, unused_mut, dead_code, unused_unsafe, unused_parens, unused_braces)]
use vstd::prelude::*;
verus! {

use std::collections::VecDeque;
use core::ops::Range;
use std::marker::PhantomData;

// ---- assumed std specs (assumption A1) -------------------------------------------------
pub uninterp spec fn vx_range_is_empty<Idx>(r: Range<Idx>) -> bool;
pub assume_specification<Idx> [Range::<Idx>::is_empty] (r: &Range<Idx>) -> (b: bool)
    where Idx: std::cmp::PartialOrd + std::cmp::PartialOrd,
    ensures b == vx_range_is_empty(*r);
#[verifier::external_body]
pub proof fn vx_axiom_range_is_empty_usize(r: Range<usize>)
    ensures vx_range_is_empty(r) == !(r.start < r.end) {}

pub assume_specification<T, A> [VecDeque::<T, A>::shrink_to_fit] (v: &mut VecDeque<T, A>)
    where A: std::alloc::Allocator,
    ensures final(v)@ == old(v)@;

pub assume_specification<T, A> [Vec::<T, A>::shrink_to_fit] (v: &mut Vec<T, A>)
    where A: std::alloc::Allocator,
    ensures final(v)@ == old(v)@;

// R2b: unreachable_unchecked() becomes a call that must be proved unreachable.
#[verifier::external_body]
pub fn vx_unreachable() -> !
    requires false
{
    unreachable!()
}


pub trait Registry {}


pub mod archetype {
    use super::*;
    // R7: archetype::IdentifierRef<R> is an opaque, copyable token (a pointer into the buffer
    // owned by the archetype); equality of tokens is equality of the abstract archetype key.
    #[verifier::external_body]
    #[verifier::accept_recursive_types(R)]
    pub struct IdentifierRef<R: Registry> { p: PhantomData<R> }
    impl<R: Registry> Clone for IdentifierRef<R> {
        #[verifier::external_body]
        fn clone(&self) -> (r: Self) ensures r == *self { unimplemented!() }
    }
    impl<R: Registry> Copy for IdentifierRef<R> {}

}

// R7: hashbrown::HashMap is an opaque type whose abstract value is a (possibly infinite-domain)
// map; `get` is assumed to be lookup in that map (assumption A3).
pub struct FnvBuildHasher;
#[verifier::external_body]
#[verifier::accept_recursive_types(K)]
#[verifier::accept_recursive_types(V)]
#[verifier::accept_recursive_types(S)]
pub struct HashMap<K, V, S> { p: PhantomData<(K, V, S)> }
impl<K, V, S> HashMap<K, V, S> {
    pub uninterp spec fn view(&self) -> IMap<K, V>;
    #[verifier::external_body]
    pub fn get(&self, k: &K) -> (r: Option<&V>)
        ensures r == (if self@.dom().contains(*k) { Some(&self@[*k]) } else { None::<&V> })
    { unimplemented!() }
}

pub mod entity {
    use super::*;
#[derive(Clone, Copy)]
pub struct Identifier {
    pub index: usize,
    pub generation: u64,
}

impl Identifier {
    #[verifier::external_body]
    pub fn new(index: usize, generation: u64) -> (r: Self)
        ensures
            r.index == index,
            r.generation == generation,
    {
        unimplemented!()
    }

}

}
pub struct Location<R>
where
    R: Registry, {

    pub identifier: archetype::IdentifierRef<R>,

    pub index: usize,
}

impl<R> Clone for Location<R> where R: Registry {
    #[verifier::external_body]
     fn clone(&self) -> (r: Self)
        ensures
            r == *self,
    {
        unimplemented!()
    }

}

impl<R> Copy for Location<R> where R: Registry {}

impl<R> Location<R> where R: Registry {
    #[verifier::external_body]
    pub fn new(identifier: archetype::IdentifierRef<R>, index: usize) -> (r: Self)
        ensures
            r == (Location { identifier, index }),
    {
        unimplemented!()
    }

    #[verifier::external_body]
    pub unsafe fn clone_with_new_identifier(&self, identifier_map: &HashMap< archetype::IdentifierRef<R>, archetype::IdentifierRef<R>, FnvBuildHasher, >,) -> (r: Self)
        requires
            identifier_map@.dom().contains(self.identifier),
        ensures
            r == (Location { identifier: identifier_map@[self.identifier], index: self.index }),
    {
        unimplemented!()
    }

}

pub struct Locations<R>
where
    R: Registry, {

    pub indices: Range<usize>,

    pub identifier: archetype::IdentifierRef<R>,
}

pub struct Slot<R>
where
    R: Registry, {

    pub generation: u64,

    pub location: Option<Location<R>>,
}

pub struct Allocator<R>
where
    R: Registry, {
    pub slots: Vec<Slot<R>>,
    pub free: VecDeque<usize>,
}


impl<R: Registry> Locations<R> {
    pub open spec fn wf(&self) -> bool { self.indices.start <= self.indices.end }
    pub open spec fn spec_len(&self) -> nat { (self.indices.end - self.indices.start) as nat }
    /// the k-th location this iterator will still yield
    pub open spec fn nth(&self, k: int) -> Location<R> {
        Location { identifier: self.identifier, index: (self.indices.start + k) as usize }
    }
}

impl<R: Registry> Allocator<R> {
    // ---- representation invariant (C13) ----
    pub open spec fn wf_free_in_bounds(&self) -> bool {
        forall|i: int| 0 <= i < self.free@.len() ==> (#[trigger] self.free@[i]) < self.slots@.len()
    }
    pub open spec fn wf_free_inactive(&self) -> bool {
        forall|i: int| 0 <= i < self.free@.len() ==> self.slots@[(#[trigger] self.free@[i]) as int].location is None
    }
    pub open spec fn wf_free_distinct(&self) -> bool {
        forall|i: int, j: int| 0 <= i < j < self.free@.len() ==> self.free@[i] != self.free@[j]
    }
    /// every released slot is available for reuse: none is lost
    pub open spec fn wf_free_complete(&self) -> bool {
        forall|s: int| 0 <= s < self.slots@.len() && (#[trigger] self.slots@[s]).location is None
            ==> self.free@.contains(s as usize)
    }
    pub open spec fn wf(&self) -> bool {
        self.wf_free_in_bounds() && self.wf_free_inactive() && self.wf_free_distinct() && self.wf_free_complete()
    }

    // ---- abstract view: the map identifier -> location (C01 / C02) ----
    pub open spec fn resolves(&self, id: entity::Identifier) -> bool {
        id.index < self.slots@.len()
            && self.slots@[id.index as int].generation == id.generation
            && self.slots@[id.index as int].location is Some
    }
    pub open spec fn view(&self) -> IMap<entity::Identifier, Location<R>> {
        IMap::new(|id: entity::Identifier| self.resolves(id), |id: entity::Identifier| self.slots@[id.index as int].location->0)
    }
    pub proof fn lemma_slots_len_fits(&self) ensures self.slots@.len() <= usize::MAX {
        assert(self.slots.len() == self.slots@.len());
    }
    pub open spec fn active_count(&self) -> nat { vx_active_count(self.slots@) }
    /// slot `s` is the same in `self` and `o`
    pub open spec fn same_slot(&self, o: &Self, s: int) -> bool {
        s < self.slots@.len() && s < o.slots@.len() && self.slots@[s] == o.slots@[s]
    }
}

pub open spec fn vx_min(a: int, b: int) -> int { if a <= b { a } else { b } }

/// number of active slots == number of live identifiers (C13: World::len())
pub open spec fn vx_active_count<R: Registry>(s: Seq<Slot<R>>) -> nat
    decreases s.len()
{
    if s.len() == 0 { 0 } else { vx_active_count(s.drop_last()) + (if s.last().location is Some { 1nat } else { 0nat }) }
}
pub proof fn lemma_count_push<R: Registry>(s: Seq<Slot<R>>, x: Slot<R>)
    ensures vx_active_count(s.push(x)) == vx_active_count(s) + (if x.location is Some { 1nat } else { 0nat })
{
    assert(s.push(x).drop_last() =~= s);
}
pub proof fn lemma_count_update<R: Registry>(s: Seq<Slot<R>>, i: int, x: Slot<R>)
    requires 0 <= i < s.len(),
    ensures vx_active_count(s.update(i, x)) + (if s[i].location is Some { 1nat } else { 0nat })
        == vx_active_count(s) + (if x.location is Some { 1nat } else { 0nat })
    decreases s.len()
{
    if i == s.len() - 1 {
        assert(s.update(i, x).drop_last() =~= s.drop_last());
    } else {
        assert(s.update(i, x).drop_last() =~= s.drop_last().update(i, x));
        lemma_count_update(s.drop_last(), i, x);
    }
}
pub proof fn lemma_count_same_activity<R: Registry>(s: Seq<Slot<R>>, t: Seq<Slot<R>>)
    requires s.len() == t.len(), forall|i: int| 0 <= i < s.len() ==> ((#[trigger] s[i]).location is Some) == (t[i].location is Some),
    ensures vx_active_count(s) == vx_active_count(t)
    decreases s.len()
{
    if s.len() > 0 {
        assert(s.last().location is Some == t.last().location is Some);
        lemma_count_same_activity(s.drop_last(), t.drop_last());
    }
}
/// an active slot makes the count positive
pub proof fn lemma_count_positive<R: Registry>(s: Seq<Slot<R>>, i: int)
    requires 0 <= i < s.len(), s[i].location is Some,
    ensures vx_active_count(s) >= 1
    decreases s.len()
{
    if i == s.len() - 1 { } else { lemma_count_positive(s.drop_last(), i); }
}
pub proof fn lemma_count_bound<R: Registry>(s: Seq<Slot<R>>)
    ensures vx_active_count(s) <= s.len()
    decreases s.len()
{
    if s.len() > 0 { lemma_count_bound(s.drop_last()); }
}
/// no slot active  <=>  count 0
pub proof fn lemma_count_zero<R: Registry>(s: Seq<Slot<R>>)
    requires forall|i: int| 0 <= i < s.len() ==> (#[trigger] s[i]).location is None,
    ensures vx_active_count(s) == 0
    decreases s.len()
{
    if s.len() > 0 { assert(s.last().location is None); lemma_count_zero(s.drop_last()); }
}

/// a location re-keyed through the old-archetype -> new-archetype identifier map (C10)
pub open spec fn vx_remap<R: Registry>(l: Option<Location<R>>, m: IMap<archetype::IdentifierRef<R>, archetype::IdentifierRef<R>>) -> Option<Location<R>> {
    match l { Some(l) => Some(Location { identifier: m[l.identifier], index: l.index }), None => None }
}

impl<R: Registry> Allocator<R> {
    /// safety precondition of clone / clone_from: the map covers every archetype some slot refers to
    pub open spec fn map_covers(&self, m: IMap<archetype::IdentifierRef<R>, archetype::IdentifierRef<R>>) -> bool {
        forall|s: int| 0 <= s < self.slots@.len() && (#[trigger] self.slots@[s]).location is Some ==> m.dom().contains(self.slots@[s].location->0.identifier)
    }
    /// `self` is `src` with every location re-keyed through `m`: same slots, same generations,
    /// same free list -- so the same identifiers resolve, to the corresponding rows (C10, C02)
    pub open spec fn is_remapped_copy_of(&self, src: &Self, m: IMap<archetype::IdentifierRef<R>, archetype::IdentifierRef<R>>) -> bool {
        &&& self.slots@.len() == src.slots@.len()
        &&& forall|s: int| 0 <= s < src.slots@.len() ==> (#[trigger] self.slots@[s]).generation == src.slots@[s].generation
        &&& forall|s: int| 0 <= s < src.slots@.len() ==> (#[trigger] self.slots@[s]).location == vx_remap(src.slots@[s].location, m)
        &&& self.free@ == src.free@
    }
    pub proof fn lemma_remapped_copy_wf(&self, src: &Self, m: IMap<archetype::IdentifierRef<R>, archetype::IdentifierRef<R>>)
        requires self.is_remapped_copy_of(src, m), src.wf(),
        ensures self.wf(), forall|id: entity::Identifier| self.resolves(id) == src.resolves(id),
    {
        assert forall|s: int| 0 <= s < self.slots@.len() && (#[trigger] self.slots@[s]).location is None implies self.free@.contains(s as usize) by {
            assert(src.slots@[s].location is None);
        }
        assert forall|i: int| 0 <= i < self.free@.len() implies self.slots@[(#[trigger] self.free@[i]) as int].location is None by {
            assert(src.slots@[src.free@[i] as int].location is None);
        }
    }
}

impl<R> Locations<R> where R: Registry {
    #[verifier::external_body]
    pub fn new(indices: Range<usize>, identifier: archetype::IdentifierRef<R>) -> (r: Self)
        ensures
            r.indices == indices && r.identifier == identifier,
    {
        unimplemented!()
    }

    #[verifier::external_body]
    pub fn len(&self) -> (n: usize)
        requires
            self.wf(),
        ensures
            n == self.spec_len(),
    {
        unimplemented!()
    }

    #[verifier::external_body]
    pub fn is_empty(&self) -> (b: bool)
        ensures
            b == !(self.indices.start < self.indices.end),
    {
        unimplemented!()
    }

    #[verifier::external_body]
    pub fn next(&mut self) -> (r: Option<Location<R>>)
        requires
            old(self).wf(),
        ensures
            old(self).indices.start < old(self).indices.end ==> r == Some(old(self).nth(0)) && final(self).indices.start == old(self).indices.start + 1,
            old(self).indices.start >= old(self).indices.end ==> r is None && final(self).indices.start == old(self).indices.start,
            final(self).indices.end == old(self).indices.end && final(self).identifier == old(self).identifier,
            final(self).wf(),
    {
        unimplemented!()
    }

}

impl<R> Slot<R> where R: Registry {
    #[verifier::external_body]
    pub fn new(location: Location<R>) -> (r: Self)
        ensures
            r.generation == 0 && r.location == Some(location),
    {
        unimplemented!()
    }

    #[verifier::external_body]
    pub unsafe fn activate_unchecked(&mut self, location: Location<R>)
        requires
            old(self).location is None,
        ensures
            final(self).generation == old(self).generation.wrapping_add(1),
            final(self).location == Some(location),
    {
        unimplemented!()
    }

    #[verifier::external_body]
    pub fn deactivate(&mut self)
        ensures
            final(self).generation == old(self).generation,
            final(self).location is None,
    {
        unimplemented!()
    }

    #[verifier::external_body]
    pub fn is_active(&self) -> (b: bool)
        ensures
            b == (self.location is Some),
    {
        unimplemented!()
    }

    #[verifier::external_body]
    pub unsafe fn clone_with_new_identifier(&self, identifier_map: &HashMap< archetype::IdentifierRef<R>, archetype::IdentifierRef<R>, FnvBuildHasher, >,) -> (r: Self)
        requires
            self.location is Some ==> identifier_map@.dom().contains(self.location->0.identifier),
        ensures
            r.generation == self.generation,
            r.location == vx_remap(self.location, identifier_map@),
    {
        unimplemented!()
    }

}

impl<R> Allocator<R> where R: Registry {
    #[verifier::external_body]
    pub fn new() -> (r: Self)
        ensures
            r.wf(),
            r.slots@.len() == 0 && r.free@.len() == 0,
            r.view() == IMap::<entity::Identifier, Location<R>>::empty(),
    {
        unimplemented!()
    }

    #[verifier::external_body]
    pub fn allocate(&mut self, location: Location<R>) -> (id: entity::Identifier)
        requires
            old(self).wf(),
        ensures
            final(self).wf_free_in_bounds(),
            final(self).wf_free_inactive(),
            final(self).wf_free_distinct(),
            final(self).wf_free_complete(),
            !old(self).resolves(id),
            final(self).resolves(id),
            final(self).view() == old(self).view().insert(id, location),
            forall|i: entity::Identifier| #![trigger final(self).resolves(i)] #![trigger old(self).resolves(i)] (final(self).resolves(i) == (old(self).resolves(i) || i == id)) && (old(self).resolves(i) ==> final(self).view()[i] == old(self).view()[i]),
            final(self).view()[id] == location,
            id.index < old(self).slots@.len() ==> id.generation == old(self).slots@[id.index as int].generation.wrapping_add(1),
            id.index >= old(self).slots@.len() ==> id.index == old(self).slots@.len() && id.generation == 0,
            final(self).slots@.len() == (if id.index < old(self).slots@.len() { old(self).slots@.len() } else { old(self).slots@.len() + 1 }),
            forall|s: int| 0 <= s < old(self).slots@.len() && s != id.index ==> final(self).slots@[s] == old(self).slots@[s],
            old(self).free@.len() > 0 ==> id.index == old(self).free@[0] && final(self).free@ == old(self).free@.subrange(1, old(self).free@.len() as int),
            old(self).free@.len() == 0 ==> final(self).free@ == old(self).free@ && id.index == old(self).slots@.len(),
            Self::allocate_post(old(self), final(self), location, id),
            final(self).active_count() == old(self).active_count() + 1,
    {
        unimplemented!()
    }

    #[verifier::external_body]
    pub fn allocate_batch(&mut self, mut locations: Locations<R>,) -> (ids: Vec<entity::Identifier>)
        requires
            old(self).wf(),
            locations.wf(),
            old(self).slots@.len() + locations.spec_len() <= usize::MAX,
        ensures
            final(self).wf_free_in_bounds(),
            final(self).wf_free_inactive(),
            final(self).wf_free_distinct(),
            final(self).wf_free_complete(),
            ids@.len() == locations.spec_len(),
            forall|k: int| 0 <= k < ids@.len() ==> final(self).resolves(#[trigger] ids@[k]) && final(self).view()[ids@[k]] == locations.nth(k),
            forall|k: int| 0 <= k < ids@.len() ==> !old(self).resolves(#[trigger] ids@[k]),
            forall|j: int, k: int| 0 <= j < k < ids@.len() ==> ids@[j].index != ids@[k].index,
            forall|k: int| 0 <= k < ids@.len() ==> (#[trigger] ids@[k]).index == (if k < old(self).free@.len() { old(self).free@[k] as int } else { old(self).slots@.len() + k - vx_min(old(self).free@.len() as int, ids@.len() as int) }),
            forall|k: int| 0 <= k < ids@.len() && k < old(self).free@.len() ==> (#[trigger] ids@[k]).generation == old(self).slots@[old(self).free@[k] as int].generation.wrapping_add(1),
            forall|k: int| 0 <= k < ids@.len() && k >= old(self).free@.len() ==> (#[trigger] ids@[k]).generation == 0,
            final(self).free@ == old(self).free@.subrange(vx_min(old(self).free@.len() as int, ids@.len() as int), old(self).free@.len() as int),
            final(self).slots@.len() == old(self).slots@.len() + ids@.len() - vx_min(old(self).free@.len() as int, ids@.len() as int),
            final(self).active_count() == old(self).active_count() + ids@.len(),
            forall|s: int| 0 <= s < old(self).slots@.len() && !(exists|k: int| 0 <= k < ids@.len() && (#[trigger] ids@[k]).index == s) ==> final(self).slots@[s] == old(self).slots@[s],
            forall|i: entity::Identifier| final(self).resolves(i) == (old(self).resolves(i) || ids@.contains(i)),
            forall|i: entity::Identifier| old(self).resolves(i) ==> final(self).view()[i] == old(self).view()[i],
    {
        unimplemented!()
    }

    #[verifier::external_body]
    pub fn get(&self, identifier: entity::Identifier) -> (r: Option<Location<R>>)
        ensures
            r == (if self.resolves(identifier) { Some(self.view()[identifier]) } else { None::<Location<R>> }),
    {
        unimplemented!()
    }

    #[verifier::external_body]
    pub fn is_active(&self, identifier: entity::Identifier) -> (b: bool)
        ensures
            b == self.resolves(identifier),
    {
        unimplemented!()
    }

    #[verifier::external_body]
    pub unsafe fn free_unchecked(&mut self, identifier: entity::Identifier)
        requires
            old(self).wf(),
            old(self).resolves(identifier),
        ensures
            final(self).wf_free_in_bounds(),
            final(self).wf_free_inactive(),
            final(self).wf_free_distinct(),
            final(self).wf_free_complete(),
            !final(self).resolves(identifier),
            final(self).view() == old(self).view().remove(identifier),
            forall|i: entity::Identifier| #![trigger final(self).resolves(i)] #![trigger old(self).resolves(i)] (final(self).resolves(i) == (old(self).resolves(i) && i != identifier)) && (final(self).resolves(i) ==> final(self).view()[i] == old(self).view()[i]),
            final(self).free@ == old(self).free@.push(identifier.index),
            final(self).slots@.len() == old(self).slots@.len(),
            forall|s: int| 0 <= s < old(self).slots@.len() ==> (#[trigger] final(self).slots@[s]).generation == old(self).slots@[s].generation,
            forall|s: int| 0 <= s < old(self).slots@.len() && s != identifier.index ==> final(self).slots@[s] == old(self).slots@[s],
            Self::free_post(old(self), final(self), identifier),
            final(self).active_count() + 1 == old(self).active_count(),
    {
        unimplemented!()
    }

    #[verifier::external_body]
    pub unsafe fn modify_location_unchecked(&mut self, identifier: entity::Identifier, location: Location<R>,)
        requires
            old(self).wf(),
            old(self).resolves(identifier),
        ensures
            final(self).wf_free_in_bounds(),
            final(self).wf_free_inactive(),
            final(self).wf_free_distinct(),
            final(self).wf_free_complete(),
            final(self).view() == old(self).view().insert(identifier, location),
            forall|i: entity::Identifier| #![trigger final(self).resolves(i)] #![trigger old(self).resolves(i)] (final(self).resolves(i) == old(self).resolves(i)) && (old(self).resolves(i) && i != identifier ==> final(self).view()[i] == old(self).view()[i]),
            final(self).view()[identifier] == location,
            final(self).active_count() == old(self).active_count(),
            final(self).free@ == old(self).free@,
            final(self).slots@.len() == old(self).slots@.len(),
            forall|s: int| 0 <= s < old(self).slots@.len() ==> (#[trigger] final(self).slots@[s]).generation == old(self).slots@[s].generation,
            forall|s: int| 0 <= s < old(self).slots@.len() && s != identifier.index ==> final(self).slots@[s] == old(self).slots@[s],
    {
        unimplemented!()
    }

    #[verifier::external_body]
    pub unsafe fn modify_location_index_unchecked(&mut self, identifier: entity::Identifier, index: usize,)
        requires
            old(self).wf(),
            old(self).resolves(identifier),
        ensures
            final(self).wf_free_in_bounds(),
            final(self).wf_free_inactive(),
            final(self).wf_free_distinct(),
            final(self).wf_free_complete(),
            final(self).view() == old(self).view().insert(identifier, Location { identifier: old(self).view()[identifier].identifier, index }),
            forall|i: entity::Identifier| #![trigger final(self).resolves(i)] #![trigger old(self).resolves(i)] (final(self).resolves(i) == old(self).resolves(i)) && (old(self).resolves(i) && i != identifier ==> final(self).view()[i] == old(self).view()[i]),
            final(self).view()[identifier] == (Location { identifier: old(self).view()[identifier].identifier, index }),
            final(self).active_count() == old(self).active_count(),
            final(self).free@ == old(self).free@,
            final(self).slots@.len() == old(self).slots@.len(),
            forall|s: int| 0 <= s < old(self).slots@.len() ==> (#[trigger] final(self).slots@[s]).generation == old(self).slots@[s].generation,
            forall|s: int| 0 <= s < old(self).slots@.len() && s != identifier.index ==> final(self).slots@[s] == old(self).slots@[s],
    {
        unimplemented!()
    }

}

impl<R> Allocator<R> where R: Registry {
    #[verifier::external_body]
    pub fn shrink_to_fit(&mut self)
        ensures
            final(self).slots@ == old(self).slots@,
            final(self).free@ == old(self).free@,
            final(self).active_count() == old(self).active_count(),
    {
        unimplemented!()
    }

    #[verifier::external_body]
    pub unsafe fn clone(&self, identifier_map: &HashMap< archetype::IdentifierRef<R>, archetype::IdentifierRef<R>, FnvBuildHasher, >,) -> (r: Self)
        requires
            self.map_covers(identifier_map@),
        ensures
            r.is_remapped_copy_of(self, identifier_map@),
    {
        unimplemented!()
    }

    #[verifier::external_body]
    pub unsafe fn clone_from(&mut self, source: &Self, identifier_map: &HashMap< archetype::IdentifierRef<R>, archetype::IdentifierRef<R>, FnvBuildHasher, >,)
        requires
            source.map_covers(identifier_map@),
        ensures
            final(self).is_remapped_copy_of(source, identifier_map@),
    {
        unimplemented!()
    }

}


/// Ghost history of one allocator: every identifier ever issued.
pub struct Hist {
    pub issued: ISet<entity::Identifier>,
}

impl<R: Registry> Allocator<R> {
    /// History invariant: every issued identifier belongs to an existing slot whose generation
    /// has reached it; every identifier that currently resolves was issued; and the generation a
    /// slot currently shows was issued (so the *next* one is new).
    pub open spec fn hist_inv(&self, h: Hist) -> bool {
        &&& forall|id: entity::Identifier| #[trigger] h.issued.contains(id) ==>
                id.index < self.slots@.len() && id.generation <= self.slots@[id.index as int].generation
        &&& forall|s: int| 0 <= s < self.slots@.len() ==>
                #[trigger] h.issued.contains(entity::Identifier { index: s as usize, generation: self.slots@[s].generation })
    }

    /// what `allocate` promises (conjunction of its labelled postconditions that C02 uses)
    pub open spec fn allocate_post(old: &Self, new: &Self, location: Location<R>, id: entity::Identifier) -> bool {
        &&& new.view() == old.view().insert(id, location)
        &&& !old.resolves(id)
        &&& id.index < old.slots@.len() ==> id.generation == old.slots@[id.index as int].generation.wrapping_add(1)
        &&& id.index >= old.slots@.len() ==> id.index == old.slots@.len() && id.generation == 0
        &&& new.slots@.len() == (if id.index < old.slots@.len() { old.slots@.len() } else { old.slots@.len() + 1 })
        &&& forall|s: int| 0 <= s < old.slots@.len() && s != id.index ==> new.slots@[s] == old.slots@[s]
        &&& new.resolves(id)
    }

    /// what `free_unchecked` promises
    pub open spec fn free_post(old: &Self, new: &Self, id: entity::Identifier) -> bool {
        &&& new.view() == old.view().remove(id)
        &&& new.slots@.len() == old.slots@.len()
        &&& forall|s: int| 0 <= s < old.slots@.len() ==> (#[trigger] new.slots@[s]).generation == old.slots@[s].generation
    }

    /// C02 "every identifier returned differs from every identifier returned before it":
    /// one allocation step from a state satisfying the history invariant issues an identifier
    /// never issued before, and re-establishes the invariant.  A5: the slot's generation has
    /// not wrapped.
    pub proof fn lemma_allocate_fresh(old: &Self, new: &Self, h: Hist, location: Location<R>, id: entity::Identifier)
        requires
            old.hist_inv(h),
            Self::allocate_post(old, new, location, id),
            id.index < old.slots@.len() ==> old.slots@[id.index as int].generation < u64::MAX,
        ensures
            !h.issued.contains(id),
            new.hist_inv(Hist { issued: h.issued.insert(id) }),
    {
        let h2 = Hist { issued: h.issued.insert(id) };
        assert(new.resolves(id));
        assert forall|i: entity::Identifier| #[trigger] h2.issued.contains(i) implies
            i.index < new.slots@.len() && i.generation <= new.slots@[i.index as int].generation by {
            if i == id {
            } else {
                assert(h.issued.contains(i));
                if i.index != id.index { assert(new.slots@[i.index as int] == old.slots@[i.index as int]); }
            }
        }
        assert forall|s: int| 0 <= s < new.slots@.len() implies
            #[trigger] h2.issued.contains(entity::Identifier { index: s as usize, generation: new.slots@[s].generation }) by {
            if s == id.index {
                assert(entity::Identifier { index: s as usize, generation: new.slots@[s].generation } == id);
            } else {
                assert(new.slots@[s] == old.slots@[s]);
                assert(h.issued.contains(entity::Identifier { index: s as usize, generation: old.slots@[s].generation }));
            }
        }
    }

    /// freeing keeps the history invariant (generations never go down)
    pub proof fn lemma_free_keeps_hist(old: &Self, new: &Self, h: Hist, id: entity::Identifier)
        requires old.hist_inv(h), Self::free_post(old, new, id),
        ensures new.hist_inv(h),
    {
        assert forall|s: int| 0 <= s < new.slots@.len() implies
            #[trigger] h.issued.contains(entity::Identifier { index: s as usize, generation: new.slots@[s].generation }) by {
            assert(new.slots@[s].generation == old.slots@[s].generation);
        }
    }

    /// C02 "once removed ... never resolves again even after its slot is reused": an identifier
    /// that was issued and does not resolve now does not resolve after any further allocation
    /// (the only operation that can make a slot active again), because the identifier then
    /// issued is fresh.
    pub proof fn lemma_dead_stays_dead(old: &Self, new: &Self, h: Hist, location: Location<R>, id: entity::Identifier, stale: entity::Identifier)
        requires
            old.hist_inv(h),
            Self::allocate_post(old, new, location, id),
            id.index < old.slots@.len() ==> old.slots@[id.index as int].generation < u64::MAX,
            h.issued.contains(stale),
            !old.resolves(stale),
        ensures
            !new.resolves(stale),
            stale != id,
    {
        Self::lemma_allocate_fresh(old, new, h, location, id);
        assert(new.view().dom().contains(stale) == old.view().insert(id, location).dom().contains(stale));
    }

    /// C02 "a live identifier keeps resolving to the same entity" across allocations and frees
    /// of *other* identifiers: whole-map equality gives it directly.
    pub proof fn lemma_live_stays_live(old: &Self, new: &Self, location: Location<R>, id: entity::Identifier, live: entity::Identifier)
        requires Self::allocate_post(old, new, location, id), old.resolves(live),
        ensures new.resolves(live), new.view()[live] == old.view()[live],
    {
        assert(old.view().dom().contains(live));
        assert(new.view().dom().contains(live));
    }

    pub proof fn lemma_free_other_stays_live(old: &Self, new: &Self, id: entity::Identifier, live: entity::Identifier)
        requires Self::free_post(old, new, id), old.resolves(live), live != id,
        ensures new.resolves(live), new.view()[live] == old.view()[live], !new.resolves(id),
    {
        assert(old.view().dom().contains(live));
        assert(new.view().dom().contains(live));
        assert(!new.view().dom().contains(id));
    }
}

/// reachability witnesses for the preconditions used above (vacuity guard)
pub proof fn witness_hist_inv_reachable<R: Registry>(a: &Allocator<R>)
    requires a.slots@.len() == 0,
    ensures a.hist_inv(Hist { issued: ISet::empty() }),
{
}

// ---- declarations of the three eq functions precede the helper that calls Slot::eq
impl<R> Location<R> where R: Registry {
    pub fn eq(&self, other: &Self) -> (b: bool)
        ensures
            b == vx_loc_eq_spec(*self, *other),
    {


        unsafe {
            vx_ref_bytes_eq(self.identifier, other.identifier) && self.index == other.index
        }
    
    }

}

impl<R> Slot<R> where R: Registry {
    pub fn eq(&self, other: &Self) -> (b: bool)
        ensures
            b == vx_slot_eq_spec(*self, *other),
    {

        self.generation == other.generation && (match (&self.location, &other.location) { (Some(vx_a), Some(vx_b)) => vx_a.eq(vx_b), (None, None) => true, _ => false })
    
    }

}


// ---- unit alloceq
/// the component bytes of the table a location names (`IdentifierRef::as_slice`, K-bits)
pub uninterp spec fn vx_ref_bits<R: Registry>(k: archetype::IdentifierRef<R>) -> Seq<u8>;
/// R15/A1: `a.as_slice() == b.as_slice()` on the identifier bytes (slice equality of u8)
#[verifier::external_body]
pub fn vx_ref_bytes_eq<R: Registry>(a: archetype::IdentifierRef<R>, b: archetype::IdentifierRef<R>) -> (r: bool)
    ensures r == (vx_ref_bits(a) == vx_ref_bits(b)) { unimplemented!() }
/// R15/A1: `==` on VecDeque<usize> is equality of the element sequences
#[verifier::external_body]
pub fn vx_deque_eq(a: &VecDeque<usize>, b: &VecDeque<usize>) -> (r: bool)
    ensures r == (a@ == b@) { unimplemented!() }

pub open spec fn vx_loc_eq_spec<R: Registry>(a: Location<R>, b: Location<R>) -> bool {
    vx_ref_bits(a.identifier) == vx_ref_bits(b.identifier) && a.index == b.index
}
pub open spec fn vx_slot_eq_spec<R: Registry>(a: Slot<R>, b: Slot<R>) -> bool {
    a.generation == b.generation && (match (a.location, b.location) {
        (Some(x), Some(y)) => vx_loc_eq_spec(x, y),
        (None, None) => true,
        _ => false,
    })
}
/// C16: what `Allocator ==` decides
pub open spec fn vx_alloc_eq_spec<R: Registry>(a: Allocator<R>, b: Allocator<R>) -> bool {
    a.slots@.len() == b.slots@.len() && (forall|i: int| 0 <= i < a.slots@.len() ==> vx_slot_eq_spec(#[trigger] a.slots@[i], b.slots@[i])) && a.free@ == b.free@
}
/// R15/A1: `==` on Vec<Slot<R>> is std's slice equality: same length and pairwise `Slot::eq`
pub fn vx_slots_eq<R: Registry>(a: &Vec<Slot<R>>, b: &Vec<Slot<R>>) -> (r: bool)
    ensures r == (a@.len() == b@.len() && forall|i: int| 0 <= i < a@.len() ==> vx_slot_eq_spec(#[trigger] a@[i], b@[i]))
{
    if a.len() != b.len() { return false; }
    let mut i: usize = 0;
    while i < a.len()
        invariant i <= a@.len(), a@.len() == b@.len(), forall|j: int| 0 <= j < i ==> vx_slot_eq_spec(#[trigger] a@[j], b@[j]),
        decreases a@.len() - i
    {
        if !a[i].eq(&b[i]) { return false; }
        i += 1;
    }
    true
}
/// C16: allocators that compare equal accept exactly the same identifiers, each at the same row of
/// a table with the same component set; the same slots are free, in the same order
pub proof fn lemma_alloc_eq_same_live<R: Registry>(a: Allocator<R>, b: Allocator<R>)
    requires vx_alloc_eq_spec(a, b),
    ensures forall|id: entity::Identifier| a.resolves(id) == b.resolves(id),
            forall|id: entity::Identifier| a.resolves(id) ==> vx_loc_eq_spec(#[trigger] a.view()[id], b.view()[id]),
            a.active_count() == b.active_count(),
{
    assert forall|id: entity::Identifier| a.resolves(id) == b.resolves(id) by {
        if id.index < a.slots@.len() { assert(vx_slot_eq_spec(a.slots@[id.index as int], b.slots@[id.index as int])); }
    }
    assert forall|id: entity::Identifier| a.resolves(id) implies vx_loc_eq_spec(#[trigger] a.view()[id], b.view()[id]) by {
        assert(vx_slot_eq_spec(a.slots@[id.index as int], b.slots@[id.index as int]));
    }
    assert forall|i: int| 0 <= i < a.slots@.len() implies ((#[trigger] a.slots@[i]).location is Some) == (b.slots@[i].location is Some) by {
        assert(vx_slot_eq_spec(a.slots@[i], b.slots@[i]));
    }
    lemma_count_same_activity(a.slots@, b.slots@);
}
pub proof fn lemma_alloc_eq_reflexive<R: Registry>(a: Allocator<R>)
    ensures vx_alloc_eq_spec(a, a)
{
    assert forall|i: int| 0 <= i < a.slots@.len() implies vx_slot_eq_spec(#[trigger] a.slots@[i], a.slots@[i]) by { }
}
pub proof fn lemma_alloc_eq_symmetric<R: Registry>(a: Allocator<R>, b: Allocator<R>)
    requires vx_alloc_eq_spec(a, b),
    ensures vx_alloc_eq_spec(b, a)
{
    assert forall|i: int| 0 <= i < b.slots@.len() implies vx_slot_eq_spec(#[trigger] b.slots@[i], a.slots@[i]) by {
        assert(vx_slot_eq_spec(a.slots@[i], b.slots@[i]));
    }
}

impl<R> Allocator<R> where R: Registry {
    pub fn eq(&self, other: &Self) -> (b: bool)
        ensures
            b == vx_alloc_eq_spec(*self, *other),
    {

        vx_slots_eq(&self.slots, &other.slots) && vx_deque_eq(&self.free, &other.free)
    
    }

}

} // verus!
fn main() {}
