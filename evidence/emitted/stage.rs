// GENERATED on every run by /verif/vx from the working tree of the repository. Do not edit.
#![feature(allocator_api)]
#![allow(unused_imports, unused_variables, unused_mut, dead_code, unused_unsafe, unused_parens, unused_braces)]
use vstd::prelude::*;
verus! {

use std::marker::PhantomData;
pub trait Registry {}
// ---- R7: archetype::IdentifierRef (token of a table), Copy
#[verifier::external_body]
#[verifier::accept_recursive_types(R)]
pub struct IdentifierRef<R: Registry> { p: PhantomData<R> }
impl<R: Registry> Clone for IdentifierRef<R> { #[verifier::external_body] fn clone(&self) -> (r: Self) ensures r == *self { unimplemented!() } }
impl<R: Registry> Copy for IdentifierRef<R> {}
// ---- R6: the type-level list of per-component claims of one task on one archetype (`R::Claims`)
#[verifier::external_body]
#[verifier::accept_recursive_types(R)]
pub struct VxClaims<R: Registry> { p: PhantomData<R> }
/// no component is claimed mutably by one side and at all by the other (K-claim: `Claim::try_merge`)
pub uninterp spec fn vx_compatible<R: Registry>(a: VxClaims<R>, b: VxClaims<R>) -> bool;
/// the component-wise join of two compatible claim lists
pub uninterp spec fn vx_merged<R: Registry>(a: VxClaims<R>, b: VxClaims<R>) -> VxClaims<R>;
impl<R: Registry> VxClaims<R> {
    #[verifier::external_body]
    pub fn try_merge(self, other: &Self) -> (r: Option<Self>)
        ensures r is Some == vx_compatible(self, *other), r is Some ==> r->0 == vx_merged(self, *other) { unimplemented!() }
    #[verifier::external_body]
    pub unsafe fn merge_unchecked(self, other: &Self) -> (r: Self)
        requires vx_compatible(self, *other),
        ensures r == vx_merged(self, *other) { unimplemented!() }
}
// ---- A3: HashMap<archetype::IdentifierRef<R>, R::Claims, FnvBuildHasher> as a map
#[verifier::external_body]
#[verifier::accept_recursive_types(R)]
pub struct VxClaimMap<R: Registry> { p: PhantomData<R> }
impl<R: Registry> VxClaimMap<R> {
    pub uninterp spec fn view(&self) -> IMap<IdentifierRef<R>, VxClaims<R>>;
    #[verifier::external_body]
    pub fn clone(&self) -> (r: Self) ensures r@ == self@ { unimplemented!() }
    #[verifier::external_body]
    pub fn vx_contains_key(&self, k: &IdentifierRef<R>) -> (r: bool) ensures r == self@.dom().contains(*k) { unimplemented!() }
    #[verifier::external_body]
    pub fn vx_get(&self, k: &IdentifierRef<R>) -> (r: &VxClaims<R>) requires self@.dom().contains(*k), ensures *r == self@[*k] { unimplemented!() }
    #[verifier::external_body]
    pub fn vx_insert(&mut self, k: IdentifierRef<R>, v: VxClaims<R>) ensures final(self)@ == old(self)@.insert(k, v) { unimplemented!() }
    /// hashbrown: "This operation is safe if a key does not exist in the map. However, if a key
    /// exists in the map already, the behavior is unspecified"
    #[verifier::external_body]
    pub fn vx_insert_unique_unchecked(&mut self, k: IdentifierRef<R>, v: VxClaims<R>)
        requires !old(self)@.dom().contains(k),
        ensures final(self)@ == old(self)@.insert(k, v) { unimplemented!() }
}
// ---- R6: SendableWorld and the (archetype, claims) pairs of task T over it
#[verifier::external_body]
#[verifier::accept_recursive_types(R)]
#[verifier::accept_recursive_types(S)]
pub struct SendableWorld<R: Registry, S> { p: PhantomData<(R, S)> }
impl<R: Registry, S> Clone for SendableWorld<R, S> { #[verifier::external_body] fn clone(&self) -> (r: Self) ensures r == *self { unimplemented!() } }
impl<R: Registry, S> Copy for SendableWorld<R, S> {}
/// what `World::query_archetype_claims::<T::Views, T::Filter, .., T::EntryViews, ..>()` yields
pub uninterp spec fn vx_task_claims<R: Registry, S, T>(w: SendableWorld<R, S>) -> Seq<(IdentifierRef<R>, VxClaims<R>)>;
#[verifier::external_body]
#[verifier::accept_recursive_types(R)]
pub struct VxClaimList<R: Registry> { p: PhantomData<R> }
impl<R: Registry> VxClaimList<R> {
    pub uninterp spec fn view(&self) -> Seq<(IdentifierRef<R>, VxClaims<R>)>;
    #[verifier::external_body]
    pub fn len(&self) -> (n: usize) ensures n == self@.len() { unimplemented!() }
    #[verifier::external_body]
    pub fn vx_nth(&self, i: usize) -> (r: (IdentifierRef<R>, VxClaims<R>)) requires i < self@.len(), ensures r == self@[i as int] { unimplemented!() }
}
/// the iterator walks the table set: every archetype at most once
#[verifier::external_body]
pub fn vx_query_archetype_claims<R: Registry, S, T>(w: SendableWorld<R, S>) -> (r: VxClaimList<R>)
    ensures r@ == vx_task_claims::<R, S, T>(w),
            forall|i: int, j: int| 0 <= i < j < r@.len() ==> r@[i].0 != r@[j].0 { unimplemented!() }

/// the archetype `k` is claimed by one of the first `n` pairs
pub open spec fn vx_claimed<R: Registry>(cl: Seq<(IdentifierRef<R>, VxClaims<R>)>, n: int, k: IdentifierRef<R>) -> bool {
    exists|i: int| 0 <= i < n && (#[trigger] cl[i]).0 == k
}
/// C08: table `m1` is table `m0` with the first `n` claims of `cl` recorded: joined with what was
/// there for that archetype, or entered; every other entry unchanged; nothing dropped
pub open spec fn vx_recorded<R: Registry>(m0: IMap<IdentifierRef<R>, VxClaims<R>>, m1: IMap<IdentifierRef<R>, VxClaims<R>>,
    cl: Seq<(IdentifierRef<R>, VxClaims<R>)>, n: int) -> bool {
    &&& forall|k: IdentifierRef<R>| #[trigger] m1.dom().contains(k) == (m0.dom().contains(k) || vx_claimed(cl, n, k))
    &&& forall|i: int| 0 <= i < n ==> m1[(#[trigger] cl[i]).0] == (if m0.dom().contains(cl[i].0) { vx_merged(cl[i].1, m0[cl[i].0]) } else { cl[i].1 })
    &&& forall|k: IdentifierRef<R>| m0.dom().contains(k) && !vx_claimed(cl, n, k) ==> #[trigger] m1[k] == m0[k]
}
pub proof fn lemma_recorded_step<R: Registry>(m0: IMap<IdentifierRef<R>, VxClaims<R>>, m1: IMap<IdentifierRef<R>, VxClaims<R>>, m2: IMap<IdentifierRef<R>, VxClaims<R>>,
    cl: Seq<(IdentifierRef<R>, VxClaims<R>)>, n: int)
    requires 0 <= n < cl.len(), vx_recorded(m0, m1, cl, n),
             forall|i: int, j: int| 0 <= i < j < cl.len() ==> cl[i].0 != cl[j].0,
             m2 == m1.insert(cl[n].0, if m0.dom().contains(cl[n].0) { vx_merged(cl[n].1, m0[cl[n].0]) } else { cl[n].1 }),
    ensures vx_recorded(m0, m2, cl, n + 1),
            m1.dom().contains(cl[n].0) == m0.dom().contains(cl[n].0), m0.dom().contains(cl[n].0) ==> m1[cl[n].0] == m0[cl[n].0],
{
    let kn = cl[n].0;
    assert(!vx_claimed(cl, n, kn)) by {
        if vx_claimed(cl, n, kn) { let i = choose|i: int| 0 <= i < n && (#[trigger] cl[i]).0 == kn; assert(cl[i].0 != cl[n].0); }
    }
    assert forall|k: IdentifierRef<R>| #[trigger] m2.dom().contains(k) == (m0.dom().contains(k) || vx_claimed(cl, n + 1, k)) by {
        if vx_claimed(cl, n + 1, k) && !vx_claimed(cl, n, k) {
            let i = choose|i: int| 0 <= i < n + 1 && (#[trigger] cl[i]).0 == k;
            assert(i == n) by { if i < n { assert(0 <= i < n && cl[i].0 == k); } }
        }
        if vx_claimed(cl, n, k) { let i = choose|i: int| 0 <= i < n && (#[trigger] cl[i]).0 == k; assert(0 <= i < n + 1 && cl[i].0 == k); }
        if k == kn { assert(0 <= n < n + 1 && cl[n].0 == k); }
    }
    assert forall|i: int| 0 <= i < n + 1 implies m2[(#[trigger] cl[i]).0] == (if m0.dom().contains(cl[i].0) { vx_merged(cl[i].1, m0[cl[i].0]) } else { cl[i].1 }) by {
        if i < n { assert(cl[i].0 != cl[n].0); }
    }
    assert forall|k: IdentifierRef<R>| m0.dom().contains(k) && !vx_claimed(cl, n + 1, k) implies #[trigger] m2[k] == m0[k] by {
        assert(k != kn) by { if k == kn { assert(0 <= n < n + 1 && cl[n].0 == k); } }
        assert(!vx_claimed(cl, n, k)) by {
            if vx_claimed(cl, n, k) { let i = choose|i: int| 0 <= i < n && (#[trigger] cl[i]).0 == k; assert(0 <= i < n + 1 && cl[i].0 == k); }
        }
    }
}
/// the early-start check refuses exactly when some claim conflicts with the table
pub open spec fn vx_all_compatible<R: Registry>(m0: IMap<IdentifierRef<R>, VxClaims<R>>, cl: Seq<(IdentifierRef<R>, VxClaims<R>)>, n: int) -> bool {
    forall|i: int| 0 <= i < n && m0.dom().contains((#[trigger] cl[i]).0) ==> vx_compatible(cl[i].1, m0[cl[i].0])
}

pub mod stage {
    use super::*;
    pub fn query_archetype_identifiers_unchecked<R: Registry, Resources, T>(world: SendableWorld<R, Resources>, borrowed_archetypes: &mut VxClaimMap<R>)
        requires
            vx_all_compatible(old(borrowed_archetypes)@, vx_task_claims::<R, Resources, T>(world), vx_task_claims::<R, Resources, T>(world).len() as int),
        ensures
            vx_recorded(old(borrowed_archetypes)@, final(borrowed_archetypes)@, vx_task_claims::<R, Resources, T>(world), vx_task_claims::<R, Resources, T>(world).len() as int),
    {

let ghost vx_m0 = borrowed_archetypes@; let ghost mut vx_m1 = borrowed_archetypes@;

    let vx_cl1 = vx_query_archetype_claims::<R, Resources, T>(world); let vx_n1 = vx_cl1.len(); let mut vx_i1: usize = 0;
 while vx_i1 < vx_n1 
            invariant
                vx_i1 <= vx_n1 && vx_n1 == vx_cl1@.len() && vx_cl1@ == vx_task_claims::<R, Resources, T>(world),
                forall|i: int, j: int| 0 <= i < j < vx_cl1@.len() ==> vx_cl1@[i].0 != vx_cl1@[j].0,
                vx_recorded(vx_m0, borrowed_archetypes@, vx_cl1@, vx_i1 as int),
                vx_all_compatible(vx_m0, vx_cl1@, vx_cl1@.len() as int),
            decreases vx_n1 - vx_i1
{
 let (identifier, claims) = vx_cl1.vx_nth(vx_i1);
proof { vx_m1 = borrowed_archetypes@; if vx_m0.dom().contains(identifier) { assert(!vx_claimed(vx_cl1@, vx_i1 as int, identifier)) by { if vx_claimed(vx_cl1@, vx_i1 as int, identifier) { let i = choose|i: int| 0 <= i < vx_i1 && (#[trigger] vx_cl1@[i]).0 == identifier; assert(vx_cl1@[i].0 != vx_cl1@[vx_i1 as int].0); } } } else { assert(!vx_claimed(vx_cl1@, vx_i1 as int, identifier)) by { if vx_claimed(vx_cl1@, vx_i1 as int, identifier) { let i = choose|i: int| 0 <= i < vx_i1 && (#[trigger] vx_cl1@[i]).0 == identifier; assert(vx_cl1@[i].0 != vx_cl1@[vx_i1 as int].0); } } } }


        if borrowed_archetypes.vx_contains_key(&identifier) {

                let merged_claims = unsafe { claims.merge_unchecked(borrowed_archetypes.vx_get(&identifier)) };
                borrowed_archetypes.vx_insert(identifier, merged_claims);
            } else {
                borrowed_archetypes.vx_insert(identifier, claims);
            }
    
proof {
            let n = vx_i1 as int; let cl = vx_cl1@;
            lemma_recorded_step(vx_m0, vx_m1, borrowed_archetypes@, cl, n);
        }
 vx_i1 += 1;
 }

    }

    pub fn query_archetype_identifiers<R: Registry, Resources, T>(world: SendableWorld<R, Resources>, borrowed_archetypes: &mut VxClaimMap<R>) -> (r: bool)
        ensures
            r == vx_all_compatible(old(borrowed_archetypes)@, vx_task_claims::<R, Resources, T>(world), vx_task_claims::<R, Resources, T>(world).len() as int),
            r ==> vx_recorded(old(borrowed_archetypes)@, final(borrowed_archetypes)@, vx_task_claims::<R, Resources, T>(world), vx_task_claims::<R, Resources, T>(world).len() as int),
            !r ==> final(borrowed_archetypes)@ == old(borrowed_archetypes)@,
    {

let ghost vx_m0 = borrowed_archetypes@; let ghost mut vx_m1 = borrowed_archetypes@;

    let mut merged_borrowed_archetypes = borrowed_archetypes.clone();

    let vx_cl1 = vx_query_archetype_claims::<R, Resources, T>(world); let vx_n1 = vx_cl1.len(); let mut vx_i1: usize = 0;
 while vx_i1 < vx_n1 
            invariant
                vx_i1 <= vx_n1 && vx_n1 == vx_cl1@.len() && vx_cl1@ == vx_task_claims::<R, Resources, T>(world),
                forall|i: int, j: int| 0 <= i < j < vx_cl1@.len() ==> vx_cl1@[i].0 != vx_cl1@[j].0,
                vx_recorded(vx_m0, merged_borrowed_archetypes@, vx_cl1@, vx_i1 as int),
                vx_all_compatible(vx_m0, vx_cl1@, vx_i1 as int),
                borrowed_archetypes@ == vx_m0,
            decreases vx_n1 - vx_i1
{
 let (identifier, claims) = vx_cl1.vx_nth(vx_i1);
proof { vx_m1 = merged_borrowed_archetypes@; assert(!vx_claimed(vx_cl1@, vx_i1 as int, identifier)) by { if vx_claimed(vx_cl1@, vx_i1 as int, identifier) { let i = choose|i: int| 0 <= i < vx_i1 && (#[trigger] vx_cl1@[i]).0 == identifier; assert(vx_cl1@[i].0 != vx_cl1@[vx_i1 as int].0); } } }


        if merged_borrowed_archetypes.vx_contains_key(&identifier) {
                if let Some(merged_claims) = claims.try_merge(merged_borrowed_archetypes.vx_get(&identifier)) {
                    merged_borrowed_archetypes.vx_insert(identifier, merged_claims);
                } else {
                    return false;
                }
            } else {
                merged_borrowed_archetypes.vx_insert(identifier, claims);
            }
    
proof {
            let n = vx_i1 as int; let cl = vx_cl1@;
            lemma_recorded_step(vx_m0, vx_m1, merged_borrowed_archetypes@, cl, n);
        }
 vx_i1 += 1;
 }

    *borrowed_archetypes = merged_borrowed_archetypes;
    true

    }

}


// ---- unit stage, fork/join leg: externals of Stage::run / run_add_ons for (&mut T, U)
/// R6: the type-level list of resource claims (`Resources::Claims`)
#[verifier::external_body]
#[verifier::accept_recursive_types(S)]
pub struct VxResClaims<S> { p: PhantomData<S> }
pub uninterp spec fn vx_res_compatible<S>(a: VxResClaims<S>, b: VxResClaims<S>) -> bool;
pub uninterp spec fn vx_res_merged<S>(a: VxResClaims<S>, b: VxResClaims<S>) -> VxResClaims<S>;
/// the claims of task T's resource views (`Resources::claims()` in the impl for T; K-res)
pub uninterp spec fn vx_task_res_claims<S, T>() -> VxResClaims<S>;
#[verifier::external_body]
pub fn vx_resource_claims<S, T>() -> (c: VxResClaims<S>) ensures c == vx_task_res_claims::<S, T>() { unimplemented!() }
impl<S> VxResClaims<S> {
    /// `Claims::default()`: no resource claimed
    pub uninterp spec fn none() -> VxResClaims<S>;
    #[verifier::external_body]
    pub fn default() -> (c: Self) ensures c == Self::none() { unimplemented!() }
    #[verifier::external_body]
    pub fn try_merge(self, other: &Self) -> (r: Option<Self>)
        ensures r is Some == vx_res_compatible(self, *other), r is Some ==> r->0 == vx_res_merged(self, *other) { unimplemented!() }
    #[verifier::external_body]
    pub unsafe fn merge_unchecked(self, other: &Self) -> (r: Self)
        requires vx_res_compatible(self, *other),
        ensures r == vx_res_merged(self, *other) { unimplemented!() }
}
impl<R: Registry> VxClaimMap<R> {
    #[verifier::external_body]
    pub fn len(&self) -> (n: usize) { unimplemented!() }
    #[verifier::external_body]
    pub fn is_empty(&self) -> (b: bool) ensures b == (forall|k: IdentifierRef<R>| !self@.dom().contains(k)) { unimplemented!() }
}
/// the task of this link of the stage (`self.0: &mut T`): counts how often it was run
#[verifier::external_body]
#[verifier::accept_recursive_types(T)]
pub struct VxTask<T> { p: PhantomData<T> }
impl<T> VxTask<T> {
    pub uninterp spec fn runs(&self) -> nat;
    #[verifier::external_body]
    pub fn run<R: Registry, S>(&mut self, world: SendableWorld<R, S>) ensures final(self).runs() == old(self).runs() + 1 { unimplemented!() }
}
#[verifier::external_body]
pub struct VxHasRun { _p: () }
#[verifier::external_body]
pub struct VxNextStages { _p: () }
/// the rest of the stage (`self.1: U`): records the claim table and the resource claims it is handed
#[verifier::external_body]
#[verifier::accept_recursive_types(R)]
#[verifier::accept_recursive_types(S)]
pub struct VxRest<R: Registry, S> { p: PhantomData<(R, S)> }
impl<R: Registry, S> VxRest<R, S> {
    pub uninterp spec fn handed(&self) -> Seq<(IMap<IdentifierRef<R>, VxClaims<R>>, VxResClaims<S>)>;
    #[verifier::external_body]
    pub fn run(&mut self, world: SendableWorld<R, S>, borrowed_archetypes: VxClaimMap<R>, resource_claims: VxResClaims<S>, has_run: VxHasRun, next_stage: &mut VxNextStages) -> (r: VxHasRun)
        ensures final(self).handed() == old(self).handed().push((borrowed_archetypes@, resource_claims)) { unimplemented!() }
    #[verifier::external_body]
    pub unsafe fn run_add_ons(&mut self, world: SendableWorld<R, S>, borrowed_archetypes: VxClaimMap<R>, resource_claims: VxResClaims<S>) -> (r: VxHasRun)
        ensures final(self).handed() == old(self).handed().push((borrowed_archetypes@, resource_claims)) { unimplemented!() }
}
/// `(&mut T, U)`
pub struct VxLink<R: Registry, S, T>(pub VxTask<T>, pub VxRest<R, S>);
/// the next stage, as the end of this stage sees it: records what its `run_add_ons` is handed
impl VxNextStages {
    pub uninterp spec fn add_on_calls<R: Registry, S>(&self) -> Seq<(IMap<IdentifierRef<R>, VxClaims<R>>, VxResClaims<S>)>;
    #[verifier::external_body]
    pub unsafe fn run_add_ons<R: Registry, S>(&mut self, world: SendableWorld<R, S>, borrowed_archetypes: VxClaimMap<R>, resource_claims: VxResClaims<S>) -> (r: VxHasRun)
        ensures final(self).add_on_calls::<R, S>() == old(self).add_on_calls::<R, S>().push((borrowed_archetypes@, resource_claims)) { unimplemented!() }
    #[verifier::external_body]
    pub fn vx_new_has_run() -> (r: VxHasRun) { unimplemented!() }
}
/// `Null`: the end of a stage's task list
pub struct VxStageEnd { pub _p: () }

impl<R: Registry, Resources, T> VxLink<R, Resources, T> {
    pub fn run(&mut self, world: SendableWorld<R, Resources>, mut borrowed_archetypes: VxClaimMap<R>, resource_claims: VxResClaims<Resources>, has_run: (bool, VxHasRun), next_stage: &mut VxNextStages) -> (r: VxHasRun)
        requires
            !has_run.0 ==> vx_all_compatible(borrowed_archetypes@, vx_task_claims::<R, Resources, T>(world), vx_task_claims::<R, Resources, T>(world).len() as int) && vx_res_compatible(resource_claims, vx_task_res_claims::<Resources, T>()),
        ensures
            final(self).0.runs() == old(self).0.runs() + (if has_run.0 { 0nat } else { 1nat }),
            final(self).1.handed().len() == old(self).1.handed().len() + 1 && old(self).1.handed() == final(self).1.handed().drop_last() && (if has_run.0 { final(self).1.handed().last().0 == borrowed_archetypes@ } else { vx_recorded(borrowed_archetypes@, final(self).1.handed().last().0, vx_task_claims::<R, Resources, T>(world), vx_task_claims::<R, Resources, T>(world).len() as int) }),
            final(self).1.handed().last().1 == (if has_run.0 { resource_claims } else { vx_res_merged(resource_claims, vx_task_res_claims::<Resources, T>()) }),
    {


        if has_run.0 {
            self.1.run(
                world,
                borrowed_archetypes,
                resource_claims,
                has_run.1,
                next_stage,
            )
        } else {
            { let vx_first = {

                    stage::query_archetype_identifiers_unchecked::<R, Resources, T>(world, &mut borrowed_archetypes);

                    let resource_claims =

                        unsafe { resource_claims.merge_unchecked(&vx_resource_claims::<Resources, T>()) };

                    self.1.run(
                        world,
                        borrowed_archetypes,
                        resource_claims,
                        has_run.1,
                        next_stage,
                    )
                }; self.0.run(world); vx_first }
        }
    
    }

    pub unsafe fn run_add_ons(&mut self, world: SendableWorld<R, Resources>, mut borrowed_archetypes: VxClaimMap<R>, resource_claims: VxResClaims<Resources>) -> (r: (bool, VxHasRun))
        ensures
            r.0 == (vx_res_compatible(vx_task_res_claims::<Resources, T>(), resource_claims) && vx_all_compatible(borrowed_archetypes@, vx_task_claims::<R, Resources, T>(world), vx_task_claims::<R, Resources, T>(world).len() as int)),
            final(self).0.runs() == old(self).0.runs() + (if r.0 { 1nat } else { 0nat }),
            final(self).1.handed().len() == old(self).1.handed().len() + 1 && old(self).1.handed() == final(self).1.handed().drop_last() && (if r.0 { vx_recorded(borrowed_archetypes@, final(self).1.handed().last().0, vx_task_claims::<R, Resources, T>(world), vx_task_claims::<R, Resources, T>(world).len() as int) } else { final(self).1.handed().last().0 == borrowed_archetypes@ }),
            r.0 ==> final(self).1.handed().last().1 == vx_res_merged(vx_task_res_claims::<Resources, T>(), resource_claims),
            !r.0 ==> final(self).1.handed().last().1 == resource_claims || final(self).1.handed().last().1 == vx_res_merged(vx_task_res_claims::<Resources, T>(), resource_claims),
    {

        if let Some(resource_claims) = vx_resource_claims::<Resources, T>().try_merge(&resource_claims) {
            if stage::query_archetype_identifiers::<R, Resources, T>(world, &mut borrowed_archetypes)
            {
                { let vx_first = {
                        (
                            true,

                            unsafe {
                                self.1
                                    .run_add_ons(world, borrowed_archetypes, resource_claims)
                            },
                        )
                    }; self.0.run(world); vx_first }
            } else {
                (
                    false,

                    unsafe {
                        self.1
                            .run_add_ons(world, borrowed_archetypes, resource_claims)
                    },
                )
            }
        } else {
            (
                false,

                unsafe {
                    self.1
                        .run_add_ons(world, borrowed_archetypes, resource_claims)
                },
            )
        }
    
    }

}

impl VxStageEnd {
    pub fn run<R: Registry, Resources>(&mut self, world: SendableWorld<R, Resources>, borrowed_archetypes: VxClaimMap<R>, resource_claims: VxResClaims<Resources>, _has_run: VxHasRun, next_stage: &mut VxNextStages) -> (r: VxHasRun)
        ensures
            final(next_stage).add_on_calls::<R, Resources>() == (if forall|k: IdentifierRef<R>| !borrowed_archetypes@.dom().contains(k) { old(next_stage).add_on_calls::<R, Resources>() } else { old(next_stage).add_on_calls::<R, Resources>().push((borrowed_archetypes@, resource_claims)) }),
    {


        if borrowed_archetypes.is_empty() {
            VxNextStages::vx_new_has_run()
        } else {

            unsafe { next_stage.run_add_ons(world, borrowed_archetypes, resource_claims) }
        }
    
    }

}

} // verus!
fn main() {}
