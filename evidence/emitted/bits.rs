// GENERATED on every run by /verif/vx from the working tree of the repository. Do not edit.
#![feature(allocator_api)]
#![allow(unused_imports, unused_variables, unused_mut, dead_code, unused_unsafe, unused_parens, unused_braces)]
use vstd::prelude::*;
verus! {

use std::marker::PhantomData;
pub trait Registry {}
/// R8: `R::LEN`, the number of components of the registry
pub uninterp spec fn vx_len_spec<R: Registry>() -> usize;
#[verifier::external_body]
pub fn vx_len<R: Registry>() -> (n: usize) ensures n == vx_len_spec::<R>() { unimplemented!() }
/// number of identifier bytes of registry R
pub open spec fn vx_nbytes<R: Registry>() -> int { (vx_len_spec::<R>() + 7) / 8 }

// ---- R19: a raw `*const u8` into a live allocation, as (bytes of the allocation, offset)
#[verifier::external_body]
pub struct VxBytePtr { _p: () }
impl Clone for VxBytePtr { #[verifier::external_body] fn clone(&self) -> (r: Self) ensures r == *self { unimplemented!() } }
impl Copy for VxBytePtr {}
impl VxBytePtr {
    pub uninterp spec fn bytes(&self) -> Seq<u8>;
    pub uninterp spec fn pos(&self) -> int;
    /// `*p`: the pointer must point at a byte of the allocation
    #[verifier::external_body]
    pub fn vx_read(&self) -> (b: u8)
        requires 0 <= self.pos() < self.bytes().len(),
        ensures b == self.bytes()[self.pos()] { unimplemented!() }
    /// `p.add(n)`: the result must stay within the allocation or one past its end
    #[verifier::external_body]
    pub fn vx_add(self, n: usize) -> (r: Self)
        requires 0 <= self.pos() + n <= self.bytes().len(),
        ensures r.bytes() == self.bytes(), r.pos() == self.pos() + n { unimplemented!() }
    /// `slice::from_raw_parts(p, n)`: n bytes from the pointer on must lie in the allocation
    #[verifier::external_body]
    pub fn vx_slice(&self, n: usize) -> (r: &[u8])
        requires 0 <= self.pos(), self.pos() + n <= self.bytes().len(),
        ensures r@ == self.bytes().subrange(self.pos(), self.pos() + n) { unimplemented!() }
}
/// C03/C05: bit `i` of an identifier: component number `i` of the registry is present
pub open spec fn vx_bit(bytes: Seq<u8>, i: int) -> bool {
    ((bytes[i / 8] >> ((i % 8) as u8)) & 1u8) != 0u8
}
pub proof fn lemma_shift_step(x: u8, k: u8)
    requires k < 7,
    ensures (x >> k) >> 1u8 == x >> ((k + 1) as u8)
{
    assert((x >> k) >> 1u8 == x >> ((k + 1) as u8)) by (bit_vector) requires k < 7;
}
pub proof fn lemma_shift_zero(x: u8)
    ensures x >> 0u8 == x
{
    assert(x >> 0u8 == x) by (bit_vector);
}

pub struct Iter<R>
where
    R: Registry, {

    pub registry: PhantomData<R>,

    pub pointer: VxBytePtr,

    pub current: u8,

    pub position: usize,
}


impl<R: Registry> Iter<R> {
    /// the identifier bytes this iterator walks
    pub open spec fn bits(&self) -> Seq<u8> { self.pointer.bytes() }
    pub open spec fn wf(&self) -> bool {
        &&& self.position <= vx_len_spec::<R>()
        &&& vx_len_spec::<R>() + 7 <= usize::MAX
        &&& self.pointer.bytes().len() == vx_nbytes::<R>()
        &&& self.position < vx_len_spec::<R>() ==> self.pointer.pos() == self.position as int / 8
                && self.current == self.pointer.bytes()[self.position as int / 8] >> ((self.position as int % 8) as u8)
    }
}

impl<R> Iter<R> where R: Registry {
    pub unsafe fn new(pointer: VxBytePtr) -> (r: Self)
        requires
            pointer.pos() == 0 && pointer.bytes().len() == vx_nbytes::<R>() && vx_len_spec::<R>() + 7 <= usize::MAX,
        ensures
            r.wf() && r.position == 0 && r.bits() == pointer.bytes(),
    {

proof { if vx_len_spec::<R>() > 0 { lemma_shift_zero(pointer.bytes()[0]); } }

        Self {
            registry: PhantomData,

            pointer,

            current: if vx_len::<R>() > 0 {

                pointer.vx_read()
            } else {
                0
            },
            position: 0,
        }
    
    }

    pub fn next(&mut self) -> (r: Option<bool>)
        requires
            old(self).wf(),
        ensures
            old(self).position >= vx_len_spec::<R>() ==> r is None && *final(self) == *old(self),
            old(self).position < vx_len_spec::<R>() ==> r == Some(vx_bit(old(self).bits(), old(self).position as int)),
            old(self).position < vx_len_spec::<R>() ==> final(self).position == old(self).position + 1 && final(self).bits() == old(self).bits(),
            final(self).wf(),
    {

let ghost vx_p0 = self.position;

        if self.position >= vx_len::<R>() {
            None
        } else {
            let result = self.current & 1 != 0;
            self.position += 1;
            if self.position < vx_len::<R>() && self.position % 8 == 0 {
                self.pointer =

                    self.pointer.vx_add(1);
                self.current =

                    self.pointer.vx_read();
            } else {
                self.current = self.current >> 1;
            }

proof {
                let p = vx_p0 as int;
                let b = self.pointer.bytes()[p / 8];
                if !(self.position < vx_len_spec::<R>() && self.position % 8 == 0) && self.position < vx_len_spec::<R>() {
                    assert(p % 8 < 7 && (p + 1) / 8 == p / 8 && (p + 1) % 8 == p % 8 + 1) by (nonlinear_arith) requires (p + 1) % 8 != 0, p >= 0;
                    lemma_shift_step(b, (p % 8) as u8);
                }
                if self.position < vx_len_spec::<R>() && self.position % 8 == 0 {
                    assert((p + 1) / 8 == p / 8 + 1 && (p + 1) / 8 < (vx_len_spec::<R>() + 7) / 8) by (nonlinear_arith) requires (p + 1) % 8 == 0, p >= 0, p + 1 < vx_len_spec::<R>();
                    lemma_shift_zero(self.pointer.bytes()[(p + 1) / 8]);
                }
            }
            Some(result)
        }
    
    }

}


// ---- IdentifierRef (a Copy handle on the identifier bytes)
pub struct IdentifierRef<R: Registry> { pub registry: PhantomData<R>, pub pointer: VxBytePtr }

impl<R> IdentifierRef<R> where R: Registry {
    pub unsafe fn as_slice(&self) -> (r: &[u8])
        requires
            self.pointer.pos() == 0 && self.pointer.bytes().len() == vx_nbytes::<R>() && vx_len_spec::<R>() + 7 <= usize::MAX,
        ensures
            r@ == self.pointer.bytes(),
    {


        self.pointer.vx_slice((vx_len::<R>() + 7) / 8)
    
    }

    pub unsafe fn get_unchecked(self, index: usize) -> (r: bool)
        requires
            self.pointer.pos() == 0 && self.pointer.bytes().len() == vx_nbytes::<R>() && vx_len_spec::<R>() + 7 <= usize::MAX,
            index < vx_len_spec::<R>(),
        ensures
            r == vx_bit(self.pointer.bytes(), index as int),
    {

proof { let i = index as int; assert(i / 8 < (vx_len_spec::<R>() + 7) / 8) by (nonlinear_arith) requires 0 <= i < vx_len_spec::<R>(); }

        (

            self.as_slice()[index / 8] >> (index % 8) & 1
        ) != 0
    
    }

}

} // verus!
fn main() {}
