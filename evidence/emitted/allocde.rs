// GENERATED on every run by /verif/vx from the working tree of the repository. Do not edit.
#![feature(allocator_api)]
#![allow(unused_imports, unused_variables, unused_mut, dead_code, unused_unsafe, unused_parens, unused_braces)]
use vstd::prelude::*;
verus! {

use std::collections::VecDeque;
use core::ops::Range;
use std::marker::PhantomData;

// ---- assumed std specs (assumption A1) -------------------------------------------------
pub uninterp spec fn vx_range_is_empty<Idx>(r: Range<Idx>) -> bool;
pub assume_specification<Idx> [Range::<Idx>::is_empty] (r: &Range<Idx>) -> (b: bool)
    where Idx: std::cmp::PartialOrd + std::cmp::PartialOrd,
    ensures b == vx_range_is_empty(*r);
#[verifier::external_body]
pub proof fn vx_axiom_range_is_empty_usize(r: Range<usize>)
    ensures vx_range_is_empty(r) == !(r.start < r.end) {}

pub assume_specification<T, A> [VecDeque::<T, A>::shrink_to_fit] (v: &mut VecDeque<T, A>)
    where A: std::alloc::Allocator,
    ensures final(v)@ == old(v)@;

pub assume_specification<T, A> [Vec::<T, A>::shrink_to_fit] (v: &mut Vec<T, A>)
    where A: std::alloc::Allocator,
    ensures final(v)@ == old(v)@;

// R2b: unreachable_unchecked() becomes a call that must be proved unreachable.
#[verifier::external_body]
pub fn vx_unreachable() -> !
    requires false
{
    unreachable!()
}


pub trait Registry {}


pub mod archetype {
    use super::*;
    // R7: archetype::IdentifierRef<R> is an opaque, copyable token (a pointer into the buffer
    // owned by the archetype); equality of tokens is equality of the abstract archetype key.
    #[verifier::external_body]
    #[verifier::accept_recursive_types(R)]
    pub struct IdentifierRef<R: Registry> { p: PhantomData<R> }
    impl<R: Registry> Clone for IdentifierRef<R> {
        #[verifier::external_body]
        fn clone(&self) -> (r: Self) ensures r == *self { unimplemented!() }
    }
    impl<R: Registry> Copy for IdentifierRef<R> {}


    // ---- R7: the owning identifier buffer is opaque; `as_ref` yields its token --------------
    #[verifier::external_body]
    #[verifier::accept_recursive_types(R)]
    pub struct Identifier<R: Registry> { p: PhantomData<R> }
    pub mod identifier {
        use super::*;
        #[verifier::external_body]
        #[verifier::accept_recursive_types(R)]
        pub struct Iter<R: Registry> { p: PhantomData<R> }
    }
    impl<R: Registry> Identifier<R> {
        pub uninterp spec fn spec_ref(&self) -> IdentifierRef<R>;
        /// the bytes of the buffer (K-bits: `as_slice`, `iter`)
        pub uninterp spec fn spec_bits(&self) -> Seq<u8>;
        #[verifier::external_body]
        pub unsafe fn new(bytes: Vec<u8>) -> (r: Self) ensures r.spec_bits() == bytes@ { unimplemented!() }
        #[verifier::external_body]
        pub unsafe fn as_ref(&self) -> (r: IdentifierRef<R>) ensures r == self.spec_ref() { unimplemented!() }
        #[verifier::external_body]
        pub unsafe fn iter(&self) -> (r: identifier::Iter<R>) { unimplemented!() }
        #[verifier::external_body]
        pub fn count(&self) -> (r: usize) { unimplemented!() }
        #[verifier::external_body]
        pub fn size_of_components(&self) -> (r: usize) { unimplemented!() }
    }

    // ---- R6: type-erased columns.  One abstract row per entity. ------------------------------
    #[verifier::external_body]
    pub struct VxRow { p: PhantomData<u8> }
    #[verifier::external_body]
    pub struct VxColumns { p: PhantomData<u8> }
    impl VxColumns {
        pub uninterp spec fn view(&self) -> Seq<VxRow>;
        #[verifier::external_body]
        pub fn vx_with_capacity(n: usize) -> (r: VxColumns) ensures r@.len() == 0 { unimplemented!() }
    }
    pub uninterp spec fn vx_entity_row<E>(e: E) -> VxRow;
    pub uninterp spec fn vx_batch_rows<E>(e: E) -> Seq<VxRow>;
    pub uninterp spec fn vx_row_set<C>(row: VxRow, c: C) -> VxRow;
    pub uninterp spec fn vx_row_add<C>(row: VxRow, c: C) -> VxRow;
    pub uninterp spec fn vx_row_remove<C>(row: VxRow, c: PhantomData<C>) -> VxRow;
    pub uninterp spec fn vx_buffer_row(bytes: Seq<u8>) -> VxRow;
    pub uninterp spec fn vx_ptr_row(p: *const u8) -> VxRow;
    /// R6b: the pointer handed to push_from_buffer_* denotes the packed row held by the Vec
    #[verifier::external_body]
    pub fn vx_as_ptr(v: &Vec<u8>) -> (p: *const u8) ensures vx_ptr_row(p) == vx_buffer_row(v@) { unimplemented!() }

    pub open spec fn vx_swap_remove<T>(s: Seq<T>, i: int) -> Seq<T> {
        if i == s.len() - 1 { s.drop_last() } else { s.update(i, s.last()).drop_last() }
    }

    // R4: `Vec::from_raw_parts(ptr, L, cap)` over a buffer holding >= L initialised elements is
    // the vector of the first L of them.
    pub fn vx_raw_vec_len<T>(v: &mut Vec<T>, len: usize)
        requires old(v)@.len() >= len,
        ensures final(v)@ == old(v)@.take(len as int),
    {
        v.truncate(len);
        proof { assert(v@ =~= old(v)@.take(len as int)); }
    }

    #[verifier::external_body]
    pub unsafe fn vx_new_components_with_capacity<R: Registry>(components: &mut VxColumns, capacity: usize, it: identifier::Iter<R>)
        ensures final(components)@.len() == 0 { unimplemented!() }
    #[verifier::external_body]
    pub unsafe fn vx_push_components<E>(entity: E, components: &mut VxColumns, length: usize)
        requires old(components)@.len() == length,
        ensures final(components)@ == old(components)@.push(vx_entity_row(entity)) { unimplemented!() }
    #[verifier::external_body]
    pub fn vx_component_len<E>(entities: &E) -> (n: usize)
        ensures n == vx_batch_rows(*entities).len() { unimplemented!() }
    #[verifier::external_body]
    pub unsafe fn vx_extend_components<E>(entities: E, components: &mut VxColumns, length: usize)
        requires old(components)@.len() == length,
        ensures final(components)@ == old(components)@ + vx_batch_rows(entities) { unimplemented!() }
    #[verifier::external_body]
    pub unsafe fn vx_set_component<R: Registry, C>(index: usize, component: C, components: &mut VxColumns, length: usize, it: identifier::Iter<R>)
        requires old(components)@.len() == length, index < length,
        ensures final(components)@ == old(components)@.update(index as int, vx_row_set(old(components)@[index as int], component)) { unimplemented!() }
    #[verifier::external_body]
    pub unsafe fn vx_remove_component_row<R: Registry>(index: usize, components: &mut VxColumns, length: usize, it: identifier::Iter<R>)
        requires old(components)@.len() == length, index < length,
        ensures final(components)@ == vx_swap_remove(old(components)@, index as int) { unimplemented!() }
    #[verifier::external_body]
    pub unsafe fn vx_pop_component_row<R: Registry>(index: usize, bytes: &mut Vec<u8>, components: &mut VxColumns, length: usize, it: identifier::Iter<R>)
        requires old(components)@.len() == length, index < length,
        ensures final(components)@ == vx_swap_remove(old(components)@, index as int),
                vx_buffer_row(final(bytes)@) == old(components)@[index as int] { unimplemented!() }
    #[verifier::external_body]
    pub unsafe fn vx_push_components_from_buffer_and_component<R: Registry, C>(buffer: *const u8, component: C, components: &mut VxColumns, length: usize, it: identifier::Iter<R>)
        requires old(components)@.len() == length,
        ensures final(components)@ == old(components)@.push(vx_row_add(vx_ptr_row(buffer), component)) { unimplemented!() }
    #[verifier::external_body]
    pub unsafe fn vx_push_components_from_buffer_skipping_component<R: Registry, C>(buffer: *const u8, component: PhantomData<C>, components: &mut VxColumns, length: usize, it: identifier::Iter<R>)
        requires old(components)@.len() == length,
        ensures final(components)@ == old(components)@.push(vx_row_remove(vx_ptr_row(buffer), component)) { unimplemented!() }
    #[verifier::external_body]
    pub unsafe fn vx_clear_components<R: Registry>(components: &mut VxColumns, length: usize, it: identifier::Iter<R>)
        requires old(components)@.len() == length,
        ensures final(components)@.len() == 0 { unimplemented!() }
    #[verifier::external_body]
    pub unsafe fn vx_shrink_components_to_fit<R: Registry>(components: &mut VxColumns, length: usize, it: identifier::Iter<R>)
        requires old(components)@.len() == length,
        ensures final(components)@ == old(components)@ { unimplemented!() }
    #[verifier::external_body]
    pub unsafe fn vx_reserve_components(components: &mut VxColumns, length: usize, additional: usize)
        requires old(components)@.len() == length,
        ensures final(components)@ == old(components)@ { unimplemented!() }

pub struct Archetype<R>
where
    R: Registry, {
    pub identifier: Identifier<R>,

    pub entity_identifiers: Vec<entity::Identifier>,
    pub components: VxColumns,
    pub length: usize,
}


    impl<R: Registry> Archetype<R> {
        pub open spec fn key(&self) -> IdentifierRef<R> { self.identifier.spec_ref() }
        /// the entity identifier column: the first `length` elements of the raw buffer
        pub open spec fn ids(&self) -> Seq<entity::Identifier> { self.entity_identifiers@.take(self.length as int) }
        pub open spec fn rows(&self) -> Seq<VxRow> { self.components@ }
        pub open spec fn wf(&self) -> bool {
            self.entity_identifiers@.len() >= self.length && self.components@.len() == self.length
        }
        /// C13 / C02: every stored row is reachable through exactly the identifier attached to
        /// it: that identifier resolves, to (this table, that row)
        pub open spec fn agrees(&self, a: &Allocator<R>) -> bool {
            forall|r: int| 0 <= r < self.length ==> a.resolves(#[trigger] self.ids()[r])
                && a.view()[self.ids()[r]] == (Location { identifier: self.key(), index: r as usize })
        }
        /// the identifier of the last row (the one a swap-remove moves) is live
        pub proof fn lemma_last_resolves(&self, a: &Allocator<R>)
            requires self.agrees(a), self.wf(), self.length > 0,
            ensures a.resolves(self.entity_identifiers@.take(self.length as int).last()),
                    a.resolves(self.entity_identifiers@[self.length - 1]),
        {
            assert(self.ids()[self.length - 1] == self.entity_identifiers@[self.length - 1]);
        }
        pub proof fn lemma_ids_distinct(&self, a: &Allocator<R>)
            requires self.agrees(a), self.wf(),
            ensures forall|r: int, q: int| 0 <= r < q < self.length ==> self.ids()[r] != self.ids()[q],
        {
            assert forall|r: int, q: int| 0 <= r < q < self.length implies self.ids()[r] != self.ids()[q] by {
                assert(a.view()[self.ids()[r]].index == r as usize);
                assert(a.view()[self.ids()[q]].index == q as usize);
            }
        }
    }

impl<R> Archetype<R> where R: Registry {
    #[verifier::external_body]
    pub fn new(identifier: Identifier<R>) -> (r: Self)
        ensures
            r.wf(),
            r.length == 0 && r.ids().len() == 0 && r.rows().len() == 0,
            r.key() == identifier.spec_ref(),
    {
        unimplemented!()
    }

    #[verifier::external_body]
    pub unsafe fn from_raw_parts(identifier: Identifier<R>, entity_identifiers: Vec<entity::Identifier>, components: VxColumns, length: usize) -> (r: Self)
        ensures
            r.identifier == identifier && r.entity_identifiers == entity_identifiers && r.components == components && r.length == length,
    {
        unimplemented!()
    }

    #[verifier::external_body]
    pub unsafe fn push<E>(&mut self, entity: E, entity_allocator: &mut Allocator<R>,) -> (id: entity::Identifier)
        requires
            old(self).wf(),
            old(entity_allocator).wf(),
            old(self).agrees(old(entity_allocator)),
            old(self).length < usize::MAX,
        ensures
            final(self).wf(),
            final(self).key() == old(self).key(),
            final(entity_allocator).wf_free_in_bounds(),
            final(entity_allocator).wf_free_inactive(),
            final(entity_allocator).wf_free_distinct(),
            final(entity_allocator).wf_free_complete(),
            final(self).agrees(final(entity_allocator)),
            final(self).length == old(self).length + 1,
            final(self).ids() == old(self).ids().push(id),
            final(self).rows() == old(self).rows().push(vx_entity_row(entity)),
            final(entity_allocator).active_count() == old(entity_allocator).active_count() + 1,
            Allocator::allocate_post(old(entity_allocator), final(entity_allocator), Location { identifier: old(self).key(), index: old(self).length }, id),
    {
        unimplemented!()
    }

    #[verifier::external_body]
    pub unsafe fn extend<E>(&mut self, entities: entities::Batch<E>, entity_allocator: &mut Allocator<R>,) -> (ids: Vec<entity::Identifier>)
        requires
            old(self).wf(),
            old(entity_allocator).wf(),
            old(self).agrees(old(entity_allocator)),
            old(self).length + vx_batch_rows(entities.entities).len() <= usize::MAX,
            old(entity_allocator).slots@.len() + vx_batch_rows(entities.entities).len() <= usize::MAX,
        ensures
            final(self).wf(),
            final(self).key() == old(self).key(),
            final(entity_allocator).wf_free_in_bounds(),
            final(entity_allocator).wf_free_inactive(),
            final(entity_allocator).wf_free_distinct(),
            final(entity_allocator).wf_free_complete(),
            final(self).agrees(final(entity_allocator)),
            final(self).length == old(self).length + vx_batch_rows(entities.entities).len(),
            final(self).ids() == old(self).ids() + ids@,
            final(self).rows() == old(self).rows() + vx_batch_rows(entities.entities),
            ids@.len() == vx_batch_rows(entities.entities).len(),
            final(entity_allocator).active_count() == old(entity_allocator).active_count() + ids@.len(),
            forall|k: int| 0 <= k < ids@.len() ==> !old(entity_allocator).resolves(#[trigger] ids@[k]),
            forall|i: entity::Identifier| old(entity_allocator).resolves(i) ==> final(entity_allocator).resolves(i) && final(entity_allocator).view()[i] == old(entity_allocator).view()[i],
            forall|i: entity::Identifier| final(entity_allocator).resolves(i) == (old(entity_allocator).resolves(i) || ids@.contains(i)),
    {
        unimplemented!()
    }

    #[verifier::external_body]
    pub unsafe fn set_component_unchecked<C>(&mut self, index: usize, component: C)
        requires
            old(self).wf(),
            index < old(self).length,
        ensures
            final(self).wf(),
            final(self).key() == old(self).key(),
            final(self).rows() == old(self).rows().update(index as int, vx_row_set(old(self).rows()[index as int], component)),
            final(self).ids() == old(self).ids() && final(self).length == old(self).length,
    {
        unimplemented!()
    }

    #[verifier::external_body]
    pub unsafe fn remove_row_unchecked(&mut self, index: usize, entity_allocator: &mut Allocator<R>,)
        requires
            old(self).wf(),
            old(entity_allocator).wf(),
            old(self).agrees(old(entity_allocator)),
            index < old(self).length,
        ensures
            final(self).wf(),
            final(self).key() == old(self).key(),
            final(entity_allocator).wf_free_in_bounds(),
            final(entity_allocator).wf_free_inactive(),
            final(entity_allocator).wf_free_distinct(),
            final(entity_allocator).wf_free_complete(),
            final(self).length == old(self).length - 1,
            final(self).ids() == vx_swap_remove(old(self).ids(), index as int),
            final(self).rows() == vx_swap_remove(old(self).rows(), index as int),
            final(self).agrees(final(entity_allocator)),
            forall|i: entity::Identifier| #![trigger final(entity_allocator).resolves(i)] #![trigger old(entity_allocator).resolves(i)] (final(entity_allocator).resolves(i) == old(entity_allocator).resolves(i)) && (old(entity_allocator).resolves(i) && !(index < old(self).length - 1 && i == old(self).ids().last()) ==> final(entity_allocator).view()[i] == old(entity_allocator).view()[i]),
            final(entity_allocator).view() == (if index < old(self).length - 1 { old(entity_allocator).view().insert(old(self).ids().last(), Location { identifier: old(self).key(), index: index }) } else { old(entity_allocator).view() }),
            final(entity_allocator).active_count() == old(entity_allocator).active_count(),
            final(entity_allocator).free@ == old(entity_allocator).free@,
            final(entity_allocator).slots@.len() == old(entity_allocator).slots@.len(),
            forall|s: int| 0 <= s < old(entity_allocator).slots@.len() ==> (#[trigger] final(entity_allocator).slots@[s]).generation == old(entity_allocator).slots@[s].generation,
    {
        unimplemented!()
    }

    #[verifier::external_body]
    pub unsafe fn pop_row_unchecked(&mut self, index: usize, entity_allocator: &mut Allocator<R>,) -> (r: (entity::Identifier, Vec<u8>))
        requires
            old(self).wf(),
            old(entity_allocator).wf(),
            old(self).agrees(old(entity_allocator)),
            index < old(self).length,
        ensures
            final(self).wf(),
            final(self).key() == old(self).key(),
            final(entity_allocator).wf_free_in_bounds(),
            final(entity_allocator).wf_free_inactive(),
            final(entity_allocator).wf_free_distinct(),
            final(entity_allocator).wf_free_complete(),
            final(self).length == old(self).length - 1,
            final(self).ids() == vx_swap_remove(old(self).ids(), index as int),
            final(self).rows() == vx_swap_remove(old(self).rows(), index as int),
            r.0 == old(self).ids()[index as int] && vx_buffer_row(r.1@) == old(self).rows()[index as int],
            final(self).agrees(final(entity_allocator)),
            forall|i: entity::Identifier| #![trigger final(entity_allocator).resolves(i)] #![trigger old(entity_allocator).resolves(i)] (final(entity_allocator).resolves(i) == old(entity_allocator).resolves(i)) && (old(entity_allocator).resolves(i) && !(index < old(self).length - 1 && i == old(self).ids().last()) ==> final(entity_allocator).view()[i] == old(entity_allocator).view()[i]),
            final(entity_allocator).view() == (if index < old(self).length - 1 { old(entity_allocator).view().insert(old(self).ids().last(), Location { identifier: old(self).key(), index: index }) } else { old(entity_allocator).view() }),
            final(entity_allocator).active_count() == old(entity_allocator).active_count(),
            final(entity_allocator).free@ == old(entity_allocator).free@,
            final(entity_allocator).slots@.len() == old(entity_allocator).slots@.len(),
            forall|s: int| 0 <= s < old(entity_allocator).slots@.len() ==> (#[trigger] final(entity_allocator).slots@[s]).generation == old(entity_allocator).slots@[s].generation,
    {
        unimplemented!()
    }

    #[verifier::external_body]
    pub unsafe fn push_from_buffer_and_component<C>(&mut self, entity_identifier: entity::Identifier, buffer: *const u8, component: C,) -> (r: usize)
        requires
            old(self).wf(),
            old(self).length < usize::MAX,
        ensures
            final(self).wf(),
            final(self).key() == old(self).key(),
            r == old(self).length,
            final(self).length == old(self).length + 1,
            final(self).ids() == old(self).ids().push(entity_identifier),
            final(self).rows() == old(self).rows().push(vx_row_add(vx_ptr_row(buffer), component)),
    {
        unimplemented!()
    }

    #[verifier::external_body]
    pub unsafe fn push_from_buffer_skipping_component<C>(&mut self, entity_identifier: entity::Identifier, buffer: *const u8,) -> (r: usize)
        requires
            old(self).wf(),
            old(self).length < usize::MAX,
        ensures
            final(self).wf(),
            final(self).key() == old(self).key(),
            r == old(self).length,
            final(self).length == old(self).length + 1,
            final(self).ids() == old(self).ids().push(entity_identifier),
            final(self).rows() == old(self).rows().push(vx_row_remove(vx_ptr_row(buffer), PhantomData::<C>)),
    {
        unimplemented!()
    }

    #[verifier::external_body]
    pub unsafe fn clear(&mut self, entity_allocator: &mut Allocator<R>)
        requires
            old(self).wf(),
            old(entity_allocator).wf(),
            old(self).agrees(old(entity_allocator)),
        ensures
            final(self).wf(),
            final(self).key() == old(self).key(),
            final(entity_allocator).wf_free_in_bounds(),
            final(entity_allocator).wf_free_inactive(),
            final(entity_allocator).wf_free_distinct(),
            final(entity_allocator).wf_free_complete(),
            final(self).length == 0 && final(self).rows().len() == 0 && final(self).ids().len() == 0,
            forall|k: int| 0 <= k < old(self).length ==> !final(entity_allocator).resolves(#[trigger] old(self).ids()[k]),
            forall|i: entity::Identifier| final(entity_allocator).resolves(i) == (old(entity_allocator).resolves(i) && !old(self).ids().contains(i)),
            forall|i: entity::Identifier| final(entity_allocator).resolves(i) ==> final(entity_allocator).view()[i] == old(entity_allocator).view()[i],
            final(entity_allocator).active_count() + old(self).length == old(entity_allocator).active_count(),
            final(entity_allocator).slots@.len() == old(entity_allocator).slots@.len(),
            forall|s: int| 0 <= s < old(entity_allocator).slots@.len() ==> (#[trigger] final(entity_allocator).slots@[s]).generation == old(entity_allocator).slots@[s].generation,
    {
        unimplemented!()
    }

    #[verifier::external_body]
    pub unsafe fn reserve<E>(&mut self, additional: usize)
        requires
            old(self).wf(),
        ensures
            final(self).wf(),
            final(self).key() == old(self).key(),
            final(self).length == old(self).length && final(self).rows() == old(self).rows() && final(self).ids() == old(self).ids(),
    {
        unimplemented!()
    }

    #[verifier::external_body]
    pub fn clear_detached(&mut self)
        requires
            old(self).wf(),
        ensures
            final(self).wf(),
            final(self).key() == old(self).key(),
            final(self).length == 0 && final(self).rows().len() == 0 && final(self).ids().len() == 0,
    {
        unimplemented!()
    }

    #[verifier::external_body]
    pub fn shrink_to_fit(&mut self)
        requires
            old(self).wf(),
        ensures
            final(self).wf(),
            final(self).key() == old(self).key(),
            final(self).length == old(self).length && final(self).rows() == old(self).rows() && final(self).ids() == old(self).ids(),
    {
        unimplemented!()
    }

    #[verifier::external_body]
    pub unsafe fn identifier(&self) -> (r: IdentifierRef<R>)
        ensures
            r == self.key(),
    {
        unimplemented!()
    }

    #[verifier::external_body]
    pub fn len(&self) -> (r: usize)
        ensures
            r == self.length,
    {
        unimplemented!()
    }

    #[verifier::external_body]
    pub fn is_empty(&self) -> (r: bool)
        ensures
            r == (self.length == 0),
    {
        unimplemented!()
    }

}

}

// R7: hashbrown::HashMap is an opaque type whose abstract value is a (possibly infinite-domain)
// map; `get` is assumed to be lookup in that map (assumption A3).
pub struct FnvBuildHasher;
#[verifier::external_body]
#[verifier::accept_recursive_types(K)]
#[verifier::accept_recursive_types(V)]
#[verifier::accept_recursive_types(S)]
pub struct HashMap<K, V, S> { p: PhantomData<(K, V, S)> }
impl<K, V, S> HashMap<K, V, S> {
    pub uninterp spec fn view(&self) -> IMap<K, V>;
    #[verifier::external_body]
    pub fn get(&self, k: &K) -> (r: Option<&V>)
        ensures r == (if self@.dom().contains(*k) { Some(&self@[*k]) } else { None::<&V> })
    { unimplemented!() }
}

pub mod entity {
    use super::*;
#[derive(Clone, Copy)]
pub struct Identifier {
    pub index: usize,
    pub generation: u64,
}

impl Identifier {
    #[verifier::external_body]
    pub fn new(index: usize, generation: u64) -> (r: Self)
        ensures
            r.index == index,
            r.generation == generation,
    {
        unimplemented!()
    }

}

}
pub struct Location<R>
where
    R: Registry, {

    pub identifier: archetype::IdentifierRef<R>,

    pub index: usize,
}

impl<R> Clone for Location<R> where R: Registry {
    #[verifier::external_body]
     fn clone(&self) -> (r: Self)
        ensures
            r == *self,
    {
        unimplemented!()
    }

}

impl<R> Copy for Location<R> where R: Registry {}

impl<R> Location<R> where R: Registry {
    #[verifier::external_body]
    pub fn new(identifier: archetype::IdentifierRef<R>, index: usize) -> (r: Self)
        ensures
            r == (Location { identifier, index }),
    {
        unimplemented!()
    }

    #[verifier::external_body]
    pub unsafe fn clone_with_new_identifier(&self, identifier_map: &HashMap< archetype::IdentifierRef<R>, archetype::IdentifierRef<R>, FnvBuildHasher, >,) -> (r: Self)
        requires
            identifier_map@.dom().contains(self.identifier),
        ensures
            r == (Location { identifier: identifier_map@[self.identifier], index: self.index }),
    {
        unimplemented!()
    }

}

pub struct Locations<R>
where
    R: Registry, {

    pub indices: Range<usize>,

    pub identifier: archetype::IdentifierRef<R>,
}

pub struct Slot<R>
where
    R: Registry, {

    pub generation: u64,

    pub location: Option<Location<R>>,
}

pub struct Allocator<R>
where
    R: Registry, {
    pub slots: Vec<Slot<R>>,
    pub free: VecDeque<usize>,
}


impl<R: Registry> Locations<R> {
    pub open spec fn wf(&self) -> bool { self.indices.start <= self.indices.end }
    pub open spec fn spec_len(&self) -> nat { (self.indices.end - self.indices.start) as nat }
    /// the k-th location this iterator will still yield
    pub open spec fn nth(&self, k: int) -> Location<R> {
        Location { identifier: self.identifier, index: (self.indices.start + k) as usize }
    }
}

impl<R: Registry> Allocator<R> {
    // ---- representation invariant (C13) ----
    pub open spec fn wf_free_in_bounds(&self) -> bool {
        forall|i: int| 0 <= i < self.free@.len() ==> (#[trigger] self.free@[i]) < self.slots@.len()
    }
    pub open spec fn wf_free_inactive(&self) -> bool {
        forall|i: int| 0 <= i < self.free@.len() ==> self.slots@[(#[trigger] self.free@[i]) as int].location is None
    }
    pub open spec fn wf_free_distinct(&self) -> bool {
        forall|i: int, j: int| 0 <= i < j < self.free@.len() ==> self.free@[i] != self.free@[j]
    }
    /// every released slot is available for reuse: none is lost
    pub open spec fn wf_free_complete(&self) -> bool {
        forall|s: int| 0 <= s < self.slots@.len() && (#[trigger] self.slots@[s]).location is None
            ==> self.free@.contains(s as usize)
    }
    pub open spec fn wf(&self) -> bool {
        self.wf_free_in_bounds() && self.wf_free_inactive() && self.wf_free_distinct() && self.wf_free_complete()
    }

    // ---- abstract view: the map identifier -> location (C01 / C02) ----
    pub open spec fn resolves(&self, id: entity::Identifier) -> bool {
        id.index < self.slots@.len()
            && self.slots@[id.index as int].generation == id.generation
            && self.slots@[id.index as int].location is Some
    }
    pub open spec fn view(&self) -> IMap<entity::Identifier, Location<R>> {
        IMap::new(|id: entity::Identifier| self.resolves(id), |id: entity::Identifier| self.slots@[id.index as int].location->0)
    }
    pub proof fn lemma_slots_len_fits(&self) ensures self.slots@.len() <= usize::MAX {
        assert(self.slots.len() == self.slots@.len());
    }
    pub open spec fn active_count(&self) -> nat { vx_active_count(self.slots@) }
    /// slot `s` is the same in `self` and `o`
    pub open spec fn same_slot(&self, o: &Self, s: int) -> bool {
        s < self.slots@.len() && s < o.slots@.len() && self.slots@[s] == o.slots@[s]
    }
}

pub open spec fn vx_min(a: int, b: int) -> int { if a <= b { a } else { b } }

/// number of active slots == number of live identifiers (C13: World::len())
pub open spec fn vx_active_count<R: Registry>(s: Seq<Slot<R>>) -> nat
    decreases s.len()
{
    if s.len() == 0 { 0 } else { vx_active_count(s.drop_last()) + (if s.last().location is Some { 1nat } else { 0nat }) }
}
pub proof fn lemma_count_push<R: Registry>(s: Seq<Slot<R>>, x: Slot<R>)
    ensures vx_active_count(s.push(x)) == vx_active_count(s) + (if x.location is Some { 1nat } else { 0nat })
{
    assert(s.push(x).drop_last() =~= s);
}
pub proof fn lemma_count_update<R: Registry>(s: Seq<Slot<R>>, i: int, x: Slot<R>)
    requires 0 <= i < s.len(),
    ensures vx_active_count(s.update(i, x)) + (if s[i].location is Some { 1nat } else { 0nat })
        == vx_active_count(s) + (if x.location is Some { 1nat } else { 0nat })
    decreases s.len()
{
    if i == s.len() - 1 {
        assert(s.update(i, x).drop_last() =~= s.drop_last());
    } else {
        assert(s.update(i, x).drop_last() =~= s.drop_last().update(i, x));
        lemma_count_update(s.drop_last(), i, x);
    }
}
pub proof fn lemma_count_same_activity<R: Registry>(s: Seq<Slot<R>>, t: Seq<Slot<R>>)
    requires s.len() == t.len(), forall|i: int| 0 <= i < s.len() ==> ((#[trigger] s[i]).location is Some) == (t[i].location is Some),
    ensures vx_active_count(s) == vx_active_count(t)
    decreases s.len()
{
    if s.len() > 0 {
        assert(s.last().location is Some == t.last().location is Some);
        lemma_count_same_activity(s.drop_last(), t.drop_last());
    }
}
/// an active slot makes the count positive
pub proof fn lemma_count_positive<R: Registry>(s: Seq<Slot<R>>, i: int)
    requires 0 <= i < s.len(), s[i].location is Some,
    ensures vx_active_count(s) >= 1
    decreases s.len()
{
    if i == s.len() - 1 { } else { lemma_count_positive(s.drop_last(), i); }
}
pub proof fn lemma_count_bound<R: Registry>(s: Seq<Slot<R>>)
    ensures vx_active_count(s) <= s.len()
    decreases s.len()
{
    if s.len() > 0 { lemma_count_bound(s.drop_last()); }
}
/// no slot active  <=>  count 0
pub proof fn lemma_count_zero<R: Registry>(s: Seq<Slot<R>>)
    requires forall|i: int| 0 <= i < s.len() ==> (#[trigger] s[i]).location is None,
    ensures vx_active_count(s) == 0
    decreases s.len()
{
    if s.len() > 0 { assert(s.last().location is None); lemma_count_zero(s.drop_last()); }
}

/// a location re-keyed through the old-archetype -> new-archetype identifier map (C10)
pub open spec fn vx_remap<R: Registry>(l: Option<Location<R>>, m: IMap<archetype::IdentifierRef<R>, archetype::IdentifierRef<R>>) -> Option<Location<R>> {
    match l { Some(l) => Some(Location { identifier: m[l.identifier], index: l.index }), None => None }
}

impl<R: Registry> Allocator<R> {
    /// safety precondition of clone / clone_from: the map covers every archetype some slot refers to
    pub open spec fn map_covers(&self, m: IMap<archetype::IdentifierRef<R>, archetype::IdentifierRef<R>>) -> bool {
        forall|s: int| 0 <= s < self.slots@.len() && (#[trigger] self.slots@[s]).location is Some ==> m.dom().contains(self.slots@[s].location->0.identifier)
    }
    /// `self` is `src` with every location re-keyed through `m`: same slots, same generations,
    /// same free list -- so the same identifiers resolve, to the corresponding rows (C10, C02)
    pub open spec fn is_remapped_copy_of(&self, src: &Self, m: IMap<archetype::IdentifierRef<R>, archetype::IdentifierRef<R>>) -> bool {
        &&& self.slots@.len() == src.slots@.len()
        &&& forall|s: int| 0 <= s < src.slots@.len() ==> (#[trigger] self.slots@[s]).generation == src.slots@[s].generation
        &&& forall|s: int| 0 <= s < src.slots@.len() ==> (#[trigger] self.slots@[s]).location == vx_remap(src.slots@[s].location, m)
        &&& self.free@ == src.free@
    }
    pub proof fn lemma_remapped_copy_wf(&self, src: &Self, m: IMap<archetype::IdentifierRef<R>, archetype::IdentifierRef<R>>)
        requires self.is_remapped_copy_of(src, m), src.wf(),
        ensures self.wf(), forall|id: entity::Identifier| self.resolves(id) == src.resolves(id),
    {
        assert forall|s: int| 0 <= s < self.slots@.len() && (#[trigger] self.slots@[s]).location is None implies self.free@.contains(s as usize) by {
            assert(src.slots@[s].location is None);
        }
        assert forall|i: int| 0 <= i < self.free@.len() implies self.slots@[(#[trigger] self.free@[i]) as int].location is None by {
            assert(src.slots@[src.free@[i] as int].location is None);
        }
    }
}

impl<R> Locations<R> where R: Registry {
    #[verifier::external_body]
    pub fn new(indices: Range<usize>, identifier: archetype::IdentifierRef<R>) -> (r: Self)
        ensures
            r.indices == indices && r.identifier == identifier,
    {
        unimplemented!()
    }

    #[verifier::external_body]
    pub fn len(&self) -> (n: usize)
        requires
            self.wf(),
        ensures
            n == self.spec_len(),
    {
        unimplemented!()
    }

    #[verifier::external_body]
    pub fn is_empty(&self) -> (b: bool)
        ensures
            b == !(self.indices.start < self.indices.end),
    {
        unimplemented!()
    }

    #[verifier::external_body]
    pub fn next(&mut self) -> (r: Option<Location<R>>)
        requires
            old(self).wf(),
        ensures
            old(self).indices.start < old(self).indices.end ==> r == Some(old(self).nth(0)) && final(self).indices.start == old(self).indices.start + 1,
            old(self).indices.start >= old(self).indices.end ==> r is None && final(self).indices.start == old(self).indices.start,
            final(self).indices.end == old(self).indices.end && final(self).identifier == old(self).identifier,
            final(self).wf(),
    {
        unimplemented!()
    }

}

impl<R> Slot<R> where R: Registry {
    #[verifier::external_body]
    pub fn new(location: Location<R>) -> (r: Self)
        ensures
            r.generation == 0 && r.location == Some(location),
    {
        unimplemented!()
    }

    #[verifier::external_body]
    pub unsafe fn activate_unchecked(&mut self, location: Location<R>)
        requires
            old(self).location is None,
        ensures
            final(self).generation == old(self).generation.wrapping_add(1),
            final(self).location == Some(location),
    {
        unimplemented!()
    }

    #[verifier::external_body]
    pub fn deactivate(&mut self)
        ensures
            final(self).generation == old(self).generation,
            final(self).location is None,
    {
        unimplemented!()
    }

    #[verifier::external_body]
    pub fn is_active(&self) -> (b: bool)
        ensures
            b == (self.location is Some),
    {
        unimplemented!()
    }

    #[verifier::external_body]
    pub unsafe fn clone_with_new_identifier(&self, identifier_map: &HashMap< archetype::IdentifierRef<R>, archetype::IdentifierRef<R>, FnvBuildHasher, >,) -> (r: Self)
        requires
            self.location is Some ==> identifier_map@.dom().contains(self.location->0.identifier),
        ensures
            r.generation == self.generation,
            r.location == vx_remap(self.location, identifier_map@),
    {
        unimplemented!()
    }

}

impl<R> Allocator<R> where R: Registry {
    #[verifier::external_body]
    pub fn new() -> (r: Self)
        ensures
            r.wf(),
            r.slots@.len() == 0 && r.free@.len() == 0,
            r.view() == IMap::<entity::Identifier, Location<R>>::empty(),
    {
        unimplemented!()
    }

    #[verifier::external_body]
    pub fn allocate(&mut self, location: Location<R>) -> (id: entity::Identifier)
        requires
            old(self).wf(),
        ensures
            final(self).wf_free_in_bounds(),
            final(self).wf_free_inactive(),
            final(self).wf_free_distinct(),
            final(self).wf_free_complete(),
            !old(self).resolves(id),
            final(self).resolves(id),
            final(self).view() == old(self).view().insert(id, location),
            forall|i: entity::Identifier| #![trigger final(self).resolves(i)] #![trigger old(self).resolves(i)] (final(self).resolves(i) == (old(self).resolves(i) || i == id)) && (old(self).resolves(i) ==> final(self).view()[i] == old(self).view()[i]),
            final(self).view()[id] == location,
            id.index < old(self).slots@.len() ==> id.generation == old(self).slots@[id.index as int].generation.wrapping_add(1),
            id.index >= old(self).slots@.len() ==> id.index == old(self).slots@.len() && id.generation == 0,
            final(self).slots@.len() == (if id.index < old(self).slots@.len() { old(self).slots@.len() } else { old(self).slots@.len() + 1 }),
            forall|s: int| 0 <= s < old(self).slots@.len() && s != id.index ==> final(self).slots@[s] == old(self).slots@[s],
            old(self).free@.len() > 0 ==> id.index == old(self).free@[0] && final(self).free@ == old(self).free@.subrange(1, old(self).free@.len() as int),
            old(self).free@.len() == 0 ==> final(self).free@ == old(self).free@ && id.index == old(self).slots@.len(),
            Self::allocate_post(old(self), final(self), location, id),
            final(self).active_count() == old(self).active_count() + 1,
    {
        unimplemented!()
    }

    #[verifier::external_body]
    pub fn allocate_batch(&mut self, mut locations: Locations<R>,) -> (ids: Vec<entity::Identifier>)
        requires
            old(self).wf(),
            locations.wf(),
            old(self).slots@.len() + locations.spec_len() <= usize::MAX,
        ensures
            final(self).wf_free_in_bounds(),
            final(self).wf_free_inactive(),
            final(self).wf_free_distinct(),
            final(self).wf_free_complete(),
            ids@.len() == locations.spec_len(),
            forall|k: int| 0 <= k < ids@.len() ==> final(self).resolves(#[trigger] ids@[k]) && final(self).view()[ids@[k]] == locations.nth(k),
            forall|k: int| 0 <= k < ids@.len() ==> !old(self).resolves(#[trigger] ids@[k]),
            forall|j: int, k: int| 0 <= j < k < ids@.len() ==> ids@[j].index != ids@[k].index,
            forall|k: int| 0 <= k < ids@.len() ==> (#[trigger] ids@[k]).index == (if k < old(self).free@.len() { old(self).free@[k] as int } else { old(self).slots@.len() + k - vx_min(old(self).free@.len() as int, ids@.len() as int) }),
            forall|k: int| 0 <= k < ids@.len() && k < old(self).free@.len() ==> (#[trigger] ids@[k]).generation == old(self).slots@[old(self).free@[k] as int].generation.wrapping_add(1),
            forall|k: int| 0 <= k < ids@.len() && k >= old(self).free@.len() ==> (#[trigger] ids@[k]).generation == 0,
            final(self).free@ == old(self).free@.subrange(vx_min(old(self).free@.len() as int, ids@.len() as int), old(self).free@.len() as int),
            final(self).slots@.len() == old(self).slots@.len() + ids@.len() - vx_min(old(self).free@.len() as int, ids@.len() as int),
            final(self).active_count() == old(self).active_count() + ids@.len(),
            forall|s: int| 0 <= s < old(self).slots@.len() && !(exists|k: int| 0 <= k < ids@.len() && (#[trigger] ids@[k]).index == s) ==> final(self).slots@[s] == old(self).slots@[s],
            forall|i: entity::Identifier| final(self).resolves(i) == (old(self).resolves(i) || ids@.contains(i)),
            forall|i: entity::Identifier| old(self).resolves(i) ==> final(self).view()[i] == old(self).view()[i],
    {
        unimplemented!()
    }

    #[verifier::external_body]
    pub fn get(&self, identifier: entity::Identifier) -> (r: Option<Location<R>>)
        ensures
            r == (if self.resolves(identifier) { Some(self.view()[identifier]) } else { None::<Location<R>> }),
    {
        unimplemented!()
    }

    #[verifier::external_body]
    pub fn is_active(&self, identifier: entity::Identifier) -> (b: bool)
        ensures
            b == self.resolves(identifier),
    {
        unimplemented!()
    }

    #[verifier::external_body]
    pub unsafe fn free_unchecked(&mut self, identifier: entity::Identifier)
        requires
            old(self).wf(),
            old(self).resolves(identifier),
        ensures
            final(self).wf_free_in_bounds(),
            final(self).wf_free_inactive(),
            final(self).wf_free_distinct(),
            final(self).wf_free_complete(),
            !final(self).resolves(identifier),
            final(self).view() == old(self).view().remove(identifier),
            forall|i: entity::Identifier| #![trigger final(self).resolves(i)] #![trigger old(self).resolves(i)] (final(self).resolves(i) == (old(self).resolves(i) && i != identifier)) && (final(self).resolves(i) ==> final(self).view()[i] == old(self).view()[i]),
            final(self).free@ == old(self).free@.push(identifier.index),
            final(self).slots@.len() == old(self).slots@.len(),
            forall|s: int| 0 <= s < old(self).slots@.len() ==> (#[trigger] final(self).slots@[s]).generation == old(self).slots@[s].generation,
            forall|s: int| 0 <= s < old(self).slots@.len() && s != identifier.index ==> final(self).slots@[s] == old(self).slots@[s],
            Self::free_post(old(self), final(self), identifier),
            final(self).active_count() + 1 == old(self).active_count(),
    {
        unimplemented!()
    }

    #[verifier::external_body]
    pub unsafe fn modify_location_unchecked(&mut self, identifier: entity::Identifier, location: Location<R>,)
        requires
            old(self).wf(),
            old(self).resolves(identifier),
        ensures
            final(self).wf_free_in_bounds(),
            final(self).wf_free_inactive(),
            final(self).wf_free_distinct(),
            final(self).wf_free_complete(),
            final(self).view() == old(self).view().insert(identifier, location),
            forall|i: entity::Identifier| #![trigger final(self).resolves(i)] #![trigger old(self).resolves(i)] (final(self).resolves(i) == old(self).resolves(i)) && (old(self).resolves(i) && i != identifier ==> final(self).view()[i] == old(self).view()[i]),
            final(self).view()[identifier] == location,
            final(self).active_count() == old(self).active_count(),
            final(self).free@ == old(self).free@,
            final(self).slots@.len() == old(self).slots@.len(),
            forall|s: int| 0 <= s < old(self).slots@.len() ==> (#[trigger] final(self).slots@[s]).generation == old(self).slots@[s].generation,
            forall|s: int| 0 <= s < old(self).slots@.len() && s != identifier.index ==> final(self).slots@[s] == old(self).slots@[s],
    {
        unimplemented!()
    }

    #[verifier::external_body]
    pub unsafe fn modify_location_index_unchecked(&mut self, identifier: entity::Identifier, index: usize,)
        requires
            old(self).wf(),
            old(self).resolves(identifier),
        ensures
            final(self).wf_free_in_bounds(),
            final(self).wf_free_inactive(),
            final(self).wf_free_distinct(),
            final(self).wf_free_complete(),
            final(self).view() == old(self).view().insert(identifier, Location { identifier: old(self).view()[identifier].identifier, index }),
            forall|i: entity::Identifier| #![trigger final(self).resolves(i)] #![trigger old(self).resolves(i)] (final(self).resolves(i) == old(self).resolves(i)) && (old(self).resolves(i) && i != identifier ==> final(self).view()[i] == old(self).view()[i]),
            final(self).view()[identifier] == (Location { identifier: old(self).view()[identifier].identifier, index }),
            final(self).active_count() == old(self).active_count(),
            final(self).free@ == old(self).free@,
            final(self).slots@.len() == old(self).slots@.len(),
            forall|s: int| 0 <= s < old(self).slots@.len() ==> (#[trigger] final(self).slots@[s]).generation == old(self).slots@[s].generation,
            forall|s: int| 0 <= s < old(self).slots@.len() && s != identifier.index ==> final(self).slots@[s] == old(self).slots@[s],
    {
        unimplemented!()
    }

}

impl<R> Allocator<R> where R: Registry {
    #[verifier::external_body]
    pub fn shrink_to_fit(&mut self)
        ensures
            final(self).slots@ == old(self).slots@,
            final(self).free@ == old(self).free@,
            final(self).active_count() == old(self).active_count(),
    {
        unimplemented!()
    }

    #[verifier::external_body]
    pub unsafe fn clone(&self, identifier_map: &HashMap< archetype::IdentifierRef<R>, archetype::IdentifierRef<R>, FnvBuildHasher, >,) -> (r: Self)
        requires
            self.map_covers(identifier_map@),
        ensures
            r.is_remapped_copy_of(self, identifier_map@),
    {
        unimplemented!()
    }

    #[verifier::external_body]
    pub unsafe fn clone_from(&mut self, source: &Self, identifier_map: &HashMap< archetype::IdentifierRef<R>, archetype::IdentifierRef<R>, FnvBuildHasher, >,)
        requires
            source.map_covers(identifier_map@),
        ensures
            final(self).is_remapped_copy_of(source, identifier_map@),
    {
        unimplemented!()
    }

}


/// Ghost history of one allocator: every identifier ever issued.
pub struct Hist {
    pub issued: ISet<entity::Identifier>,
}

impl<R: Registry> Allocator<R> {
    /// History invariant: every issued identifier belongs to an existing slot whose generation
    /// has reached it; every identifier that currently resolves was issued; and the generation a
    /// slot currently shows was issued (so the *next* one is new).
    pub open spec fn hist_inv(&self, h: Hist) -> bool {
        &&& forall|id: entity::Identifier| #[trigger] h.issued.contains(id) ==>
                id.index < self.slots@.len() && id.generation <= self.slots@[id.index as int].generation
        &&& forall|s: int| 0 <= s < self.slots@.len() ==>
                #[trigger] h.issued.contains(entity::Identifier { index: s as usize, generation: self.slots@[s].generation })
    }

    /// what `allocate` promises (conjunction of its labelled postconditions that C02 uses)
    pub open spec fn allocate_post(old: &Self, new: &Self, location: Location<R>, id: entity::Identifier) -> bool {
        &&& new.view() == old.view().insert(id, location)
        &&& !old.resolves(id)
        &&& id.index < old.slots@.len() ==> id.generation == old.slots@[id.index as int].generation.wrapping_add(1)
        &&& id.index >= old.slots@.len() ==> id.index == old.slots@.len() && id.generation == 0
        &&& new.slots@.len() == (if id.index < old.slots@.len() { old.slots@.len() } else { old.slots@.len() + 1 })
        &&& forall|s: int| 0 <= s < old.slots@.len() && s != id.index ==> new.slots@[s] == old.slots@[s]
        &&& new.resolves(id)
    }

    /// what `free_unchecked` promises
    pub open spec fn free_post(old: &Self, new: &Self, id: entity::Identifier) -> bool {
        &&& new.view() == old.view().remove(id)
        &&& new.slots@.len() == old.slots@.len()
        &&& forall|s: int| 0 <= s < old.slots@.len() ==> (#[trigger] new.slots@[s]).generation == old.slots@[s].generation
    }

    /// C02 "every identifier returned differs from every identifier returned before it":
    /// one allocation step from a state satisfying the history invariant issues an identifier
    /// never issued before, and re-establishes the invariant.  A5: the slot's generation has
    /// not wrapped.
    pub proof fn lemma_allocate_fresh(old: &Self, new: &Self, h: Hist, location: Location<R>, id: entity::Identifier)
        requires
            old.hist_inv(h),
            Self::allocate_post(old, new, location, id),
            id.index < old.slots@.len() ==> old.slots@[id.index as int].generation < u64::MAX,
        ensures
            !h.issued.contains(id),
            new.hist_inv(Hist { issued: h.issued.insert(id) }),
    {
        let h2 = Hist { issued: h.issued.insert(id) };
        assert(new.resolves(id));
        assert forall|i: entity::Identifier| #[trigger] h2.issued.contains(i) implies
            i.index < new.slots@.len() && i.generation <= new.slots@[i.index as int].generation by {
            if i == id {
            } else {
                assert(h.issued.contains(i));
                if i.index != id.index { assert(new.slots@[i.index as int] == old.slots@[i.index as int]); }
            }
        }
        assert forall|s: int| 0 <= s < new.slots@.len() implies
            #[trigger] h2.issued.contains(entity::Identifier { index: s as usize, generation: new.slots@[s].generation }) by {
            if s == id.index {
                assert(entity::Identifier { index: s as usize, generation: new.slots@[s].generation } == id);
            } else {
                assert(new.slots@[s] == old.slots@[s]);
                assert(h.issued.contains(entity::Identifier { index: s as usize, generation: old.slots@[s].generation }));
            }
        }
    }

    /// freeing keeps the history invariant (generations never go down)
    pub proof fn lemma_free_keeps_hist(old: &Self, new: &Self, h: Hist, id: entity::Identifier)
        requires old.hist_inv(h), Self::free_post(old, new, id),
        ensures new.hist_inv(h),
    {
        assert forall|s: int| 0 <= s < new.slots@.len() implies
            #[trigger] h.issued.contains(entity::Identifier { index: s as usize, generation: new.slots@[s].generation }) by {
            assert(new.slots@[s].generation == old.slots@[s].generation);
        }
    }

    /// C02 "once removed ... never resolves again even after its slot is reused": an identifier
    /// that was issued and does not resolve now does not resolve after any further allocation
    /// (the only operation that can make a slot active again), because the identifier then
    /// issued is fresh.
    pub proof fn lemma_dead_stays_dead(old: &Self, new: &Self, h: Hist, location: Location<R>, id: entity::Identifier, stale: entity::Identifier)
        requires
            old.hist_inv(h),
            Self::allocate_post(old, new, location, id),
            id.index < old.slots@.len() ==> old.slots@[id.index as int].generation < u64::MAX,
            h.issued.contains(stale),
            !old.resolves(stale),
        ensures
            !new.resolves(stale),
            stale != id,
    {
        Self::lemma_allocate_fresh(old, new, h, location, id);
        assert(new.view().dom().contains(stale) == old.view().insert(id, location).dom().contains(stale));
    }

    /// C02 "a live identifier keeps resolving to the same entity" across allocations and frees
    /// of *other* identifiers: whole-map equality gives it directly.
    pub proof fn lemma_live_stays_live(old: &Self, new: &Self, location: Location<R>, id: entity::Identifier, live: entity::Identifier)
        requires Self::allocate_post(old, new, location, id), old.resolves(live),
        ensures new.resolves(live), new.view()[live] == old.view()[live],
    {
        assert(old.view().dom().contains(live));
        assert(new.view().dom().contains(live));
    }

    pub proof fn lemma_free_other_stays_live(old: &Self, new: &Self, id: entity::Identifier, live: entity::Identifier)
        requires Self::free_post(old, new, id), old.resolves(live), live != id,
        ensures new.resolves(live), new.view()[live] == old.view()[live], !new.resolves(id),
    {
        assert(old.view().dom().contains(live));
        assert(new.view().dom().contains(live));
        assert(!new.view().dom().contains(id));
    }
}

/// reachability witnesses for the preconditions used above (vacuity guard)
pub proof fn witness_hist_inv_reachable<R: Registry>(a: &Allocator<R>)
    requires a.slots@.len() == 0,
    ensures a.hist_inv(Hist { issued: ISet::empty() }),
{
}


/// R10b: `assert!(c)` returns only if `c` holds (it panics, i.e. does not return, otherwise)
#[verifier::external_body]
pub fn vx_assert(c: bool)
    ensures c { unimplemented!() }
#[verifier::external_body]
pub fn vx_check_len<E>(e: &E) -> (b: bool) { unimplemented!() }


/// identifier `i` is attached to some stored row
pub open spec fn vx_stored<R: Registry>(m: IMap<archetype::IdentifierRef<R>, archetype::Archetype<R>>, i: entity::Identifier) -> bool {
    exists|k: archetype::IdentifierRef<R>, r: int| m.dom().contains(k) && 0 <= r < m[k].length && #[trigger] m[k].ids()[r] == i
}

/// W1: every table is well formed, keyed by its own key, and every stored row is reachable
/// through the identifier attached to it
pub open spec fn vx_tables_ok<R: Registry>(m: IMap<archetype::IdentifierRef<R>, archetype::Archetype<R>>, a: &Allocator<R>) -> bool {
    forall|k: archetype::IdentifierRef<R>| m.dom().contains(k) ==>
        (#[trigger] m[k]).wf() && m[k].key() == k && m[k].agrees(a)
}

/// `ks` lists every stored table key exactly once
pub open spec fn vx_enum<R: Registry>(m: IMap<archetype::IdentifierRef<R>, archetype::Archetype<R>>, ks: Seq<archetype::IdentifierRef<R>>) -> bool {
    &&& forall|i: int, j: int| 0 <= i < j < ks.len() ==> ks[i] != ks[j]
    &&& forall|k: archetype::IdentifierRef<R>| m.dom().contains(k) == ks.contains(k)
}
/// sum of the lengths of the tables under `ks`
pub open spec fn vx_sum_keys<R: Registry>(m: IMap<archetype::IdentifierRef<R>, archetype::Archetype<R>>, ks: Seq<archetype::IdentifierRef<R>>) -> nat
    decreases ks.len()
{
    if ks.len() == 0 { 0 } else { vx_sum_keys(m, ks.drop_last()) + m[ks.last()].length as nat }
}
/// C13: the number of stored entities (rows of all tables; independent of the enumeration, see
/// lemma_total_rows)
pub open spec fn vx_total_rows<R: Registry>(m: IMap<archetype::IdentifierRef<R>, archetype::Archetype<R>>) -> nat {
    vx_sum_keys(m, choose|ks: Seq<archetype::IdentifierRef<R>>| vx_enum(m, ks))
}
pub proof fn lemma_sum_remove<R: Registry>(m: IMap<archetype::IdentifierRef<R>, archetype::Archetype<R>>, b: Seq<archetype::IdentifierRef<R>>, j: int)
    requires 0 <= j < b.len(),
    ensures vx_sum_keys(m, b) == vx_sum_keys(m, b.remove(j)) + m[b[j]].length as nat
    decreases b.len()
{
    if j == b.len() - 1 {
        assert(b.remove(j) =~= b.drop_last());
    } else {
        assert(b.remove(j).drop_last() =~= b.drop_last().remove(j));
        assert(b.remove(j).last() == b.last());
        lemma_sum_remove(m, b.drop_last(), j);
    }
}
pub open spec fn vx_nodup<K>(a: Seq<K>) -> bool { forall|i: int, j: int| 0 <= i < j < a.len() ==> a[i] != a[j] }
/// two duplicate-free listings of the same key set have the same sum
pub proof fn lemma_sum_perm<R: Registry>(m: IMap<archetype::IdentifierRef<R>, archetype::Archetype<R>>, a: Seq<archetype::IdentifierRef<R>>, b: Seq<archetype::IdentifierRef<R>>)
    requires vx_nodup(a), vx_nodup(b), forall|k: archetype::IdentifierRef<R>| a.contains(k) == b.contains(k),
    ensures vx_sum_keys(m, a) == vx_sum_keys(m, b)
    decreases a.len()
{
    if a.len() == 0 {
        if b.len() > 0 { assert(b.contains(b[0])); assert(a.contains(b[0])); }
    } else {
        let x = a.last();
        assert(a.contains(x));
        assert(b.contains(x));
        let j = choose|j: int| 0 <= j < b.len() && b[j] == x;
        let a1 = a.drop_last();
        let b1 = b.remove(j);
        assert(vx_nodup(a1));
        assert(vx_nodup(b1)) by {
            assert forall|p: int, q: int| 0 <= p < q < b1.len() implies b1[p] != b1[q] by {
                let pp = if p < j { p } else { p + 1 };
                let qq = if q < j { q } else { q + 1 };
                assert(b1[p] == b[pp] && b1[q] == b[qq]);
            }
        }
        assert forall|k: archetype::IdentifierRef<R>| a1.contains(k) == b1.contains(k) by {
            if a1.contains(k) {
                let p = choose|p: int| 0 <= p < a1.len() && a1[p] == k;
                assert(a[p] == k); assert(k != x);
                assert(a.contains(k)); assert(b.contains(k));
                let q = choose|q: int| 0 <= q < b.len() && b[q] == k;
                assert(q != j);
                let qq = if q < j { q } else { q - 1 };
                assert(b1[qq] == k);
            }
            if b1.contains(k) {
                let q = choose|q: int| 0 <= q < b1.len() && b1[q] == k;
                let qq = if q < j { q } else { q + 1 };
                assert(b[qq] == k); assert(qq != j); assert(k != x);
                assert(b.contains(k)); assert(a.contains(k));
                let p = choose|p: int| 0 <= p < a.len() && a[p] == k;
                assert(p != a.len() - 1);
                assert(a1[p] == k);
            }
        }
        lemma_sum_perm(m, a1, b1);
        lemma_sum_remove(m, b, j);
    }
}
pub proof fn lemma_total_rows<R: Registry>(m: IMap<archetype::IdentifierRef<R>, archetype::Archetype<R>>, ks: Seq<archetype::IdentifierRef<R>>)
    requires vx_enum(m, ks),
    ensures vx_total_rows(m) == vx_sum_keys(m, ks)
{
    let c = choose|c: Seq<archetype::IdentifierRef<R>>| vx_enum(m, c);
    assert(vx_enum(m, c));
    assert forall|k: archetype::IdentifierRef<R>| c.contains(k) == ks.contains(k) by { assert(m.dom().contains(k) == c.contains(k)); }
    lemma_sum_perm(m, c, ks);
}
pub proof fn lemma_sum_take_step<R: Registry>(m: IMap<archetype::IdentifierRef<R>, archetype::Archetype<R>>, ks: Seq<archetype::IdentifierRef<R>>, n: int)
    requires 0 <= n < ks.len(),
    ensures vx_sum_keys(m, ks.take(n + 1)) == vx_sum_keys(m, ks.take(n)) + m[ks[n]].length as nat
{
    assert(ks.take(n + 1).drop_last() =~= ks.take(n));
    assert(ks.take(n + 1).last() == ks[n]);
}

pub mod entities {
    use super::*;
pub struct Batch<Entities> {
    pub entities: Entities,
    pub len: usize,
}


    impl<Entities> Batch<Entities> {
        /// type invariant established by both constructors
        pub open spec fn wf(&self) -> bool { self.len == archetype::vx_batch_rows(self.entities).len() }
    }

impl<Entities> Batch<Entities> {
    #[verifier::external_body]
    pub fn new(entities: Entities) -> (r: Self)
        ensures
            r.wf() && r.entities == entities,
    {
        unimplemented!()
    }

    #[verifier::external_body]
    pub unsafe fn new_unchecked(entities: Entities) -> (r: Self)
        ensures
            r.wf() && r.entities == entities,
    {
        unimplemented!()
    }

    #[verifier::external_body]
    pub fn len(&self) -> (n: usize)
        ensures
            n == self.len,
    {
        unimplemented!()
    }

}

}

use core::any::TypeId;
#[verifier::external_type_specification]
#[verifier::external_body]
pub struct ExTypeId(TypeId);

pub type VxBits = Seq<u8>;
pub uninterp spec fn vx_bits_of<E>() -> VxBits;
pub uninterp spec fn vx_key_bits<R: Registry>(k: archetype::IdentifierRef<R>) -> VxBits;
/// component bytes of the canonical entity type with this TypeId (type-level, R8)
pub uninterp spec fn vx_type_bits(t: TypeId) -> VxBits;

/// A3: the token of an owned buffer denotes the buffer's bytes
#[verifier::external_body]
pub proof fn vx_axiom_ref_bits<R: Registry>(id: &archetype::Identifier<R>)
    ensures vx_key_bits(id.spec_ref()) == id.spec_bits() {}
/// A9 (allocator): an owned identifier buffer that is not stored in the table lives at an address
/// different from every stored table's buffer
#[verifier::external_body]
pub proof fn vx_axiom_fresh_buffer<R: Registry>(t: &VxRawTable<R>, id: &archetype::Identifier<R>)
    ensures !t@.dom().contains(id.spec_ref()) {}

/// A9 (allocator): a table that is not yet stored owns a buffer at an address different from
/// every stored table's buffer
#[verifier::external_body]
pub proof fn vx_axiom_fresh_table<R: Registry>(t: &VxRawTable<R>, a: &archetype::Archetype<R>)
    ensures !t@.dom().contains(a.key()) {}

#[verifier::external_body]
pub fn vx_type_id<E>() -> (t: TypeId) ensures vx_type_bits(t) == vx_bits_of::<E>() { unimplemented!() }
#[verifier::external_body]
pub fn vx_create_archetype_identifier<R: Registry, E>() -> (r: archetype::Identifier<R>)
    ensures r.spec_bits() == vx_bits_of::<E>() { unimplemented!() }
#[verifier::external_body]
pub fn vx_as_bytes_ref<R: Registry>(id: archetype::IdentifierRef<R>) -> (b: Ghost<Seq<u8>>)
    ensures b@ == vx_key_bits(id) { unimplemented!() }
#[verifier::external_body]
pub fn vx_as_bytes<R: Registry>(id: &archetype::Identifier<R>) -> (b: Ghost<Seq<u8>>)
    ensures b@ == id.spec_bits() { unimplemented!() }

use crate::archetype::Archetype;
impl FnvBuildHasher {
    #[verifier::external_body]
    pub fn default() -> (r: Self) { unimplemented!() }
}
pub uninterp spec fn vx_hash<R: Registry>(k: archetype::IdentifierRef<R>) -> u64;
#[verifier::external_body]
pub fn vx_make_hash<R: Registry>(identifier: archetype::IdentifierRef<R>, hash_builder: &FnvBuildHasher) -> (h: u64)
    ensures h == vx_hash(identifier) { unimplemented!() }

// ---- hashbrown::raw::RawTable<Archetype<R>> keyed by the token of each table (A3) ----------
#[verifier::external_body]
#[verifier::accept_recursive_types(R)]
pub struct VxRawTable<R: Registry> { p: PhantomData<R> }
impl<R: Registry> VxRawTable<R> {
    pub uninterp spec fn view(&self) -> IMap<archetype::IdentifierRef<R>, archetype::Archetype<R>>;
    /// every stored table sits under its own key
    pub open spec fn keyed(&self) -> bool {
        forall|k: archetype::IdentifierRef<R>| self@.dom().contains(k) ==> (#[trigger] self@[k]).key() == k
    }
    #[verifier::external_body]
    pub fn new() -> (r: Self) ensures r@ == IMap::<archetype::IdentifierRef<R>, archetype::Archetype<R>>::empty() { unimplemented!() }
    #[verifier::external_body]
    pub fn with_capacity(capacity: usize) -> (r: Self) ensures r@ == IMap::<archetype::IdentifierRef<R>, archetype::Archetype<R>>::empty() { unimplemented!() }
    #[verifier::external_body]
    pub fn vx_get(&self, hash: u64, key: archetype::IdentifierRef<R>) -> (r: Option<&archetype::Archetype<R>>)
        requires hash == vx_hash(key),
        ensures r == (if self@.dom().contains(key) { Some(&self@[key]) } else { None::<&archetype::Archetype<R>> }) { unimplemented!() }
    #[verifier::external_body]
    pub fn vx_get_mut(&mut self, hash: u64, key: archetype::IdentifierRef<R>) -> (r: Option<&mut archetype::Archetype<R>>)
        requires hash == vx_hash(key),
        ensures
            r is Some == old(self)@.dom().contains(key),
            r is Some ==> *r->0 == old(self)@[key] && final(self)@ == old(self)@.insert(key, *final(r->0)),
            r is None ==> final(self)@ == old(self)@,
    { unimplemented!() }
    /// R14: a ghost enumeration of the stored keys (hashbrown iterates every element once, in an
    /// unspecified order)
    pub open spec fn enumerates(&self, keys: Seq<archetype::IdentifierRef<R>>) -> bool {
        &&& forall|i: int, j: int| 0 <= i < j < keys.len() ==> keys[i] != keys[j]
        &&& forall|k: archetype::IdentifierRef<R>| self@.dom().contains(k) == keys.contains(k)
    }
    /// number of stored tables
    pub uninterp spec fn count(&self) -> nat;
    #[verifier::external_body]
    pub fn vx_keys(&self) -> (r: Ghost<Seq<archetype::IdentifierRef<R>>>)
        ensures self.enumerates(r@), r@.len() <= usize::MAX, r@.len() == self.count() { unimplemented!() }
    #[verifier::external_body]
    pub fn len(&self) -> (n: usize) ensures n == self.count() { unimplemented!() }
    #[verifier::external_body]
    pub fn vx_len(&self, keys: Ghost<Seq<archetype::IdentifierRef<R>>>) -> (n: usize)
        requires self.enumerates(keys@),
        ensures n == keys@.len() { unimplemented!() }
    #[verifier::external_body]
    pub fn vx_nth(&self, i: usize, keys: Ghost<Seq<archetype::IdentifierRef<R>>>) -> (r: &archetype::Archetype<R>)
        requires self.enumerates(keys@), i < keys@.len(),
        ensures *r == self@[keys@[i as int]] { unimplemented!() }
    #[verifier::external_body]
    pub fn vx_nth_mut(&mut self, i: usize, keys: Ghost<Seq<archetype::IdentifierRef<R>>>) -> (r: &mut archetype::Archetype<R>)
        requires old(self).enumerates(keys@), i < keys@.len(),
        ensures *r == old(self)@[keys@[i as int]], final(self)@ == old(self)@.insert(keys@[i as int], *final(r)) { unimplemented!() }
    /// `insert_entry`: hashbrown requires that no equal element is present
    #[verifier::external_body]
    pub fn vx_insert_entry(&mut self, hash: u64, value: archetype::Archetype<R>) -> (r: &mut archetype::Archetype<R>)
        requires hash == vx_hash(value.key()), !old(self)@.dom().contains(value.key()),
        ensures *r == value, final(self)@ == old(self)@.insert(value.key(), *final(r)) { unimplemented!() }
    #[verifier::external_body]
    pub fn vx_insert(&mut self, hash: u64, value: archetype::Archetype<R>)
        requires hash == vx_hash(value.key()), !old(self)@.dom().contains(value.key()),
        ensures final(self)@ == old(self)@.insert(value.key(), value) { unimplemented!() }
    /// R14: the bucket the (unsafe) raw iterator yields at position `i` of the enumeration
    #[verifier::external_body]
    pub fn vx_nth_bucket(&self, i: usize, keys: Ghost<Seq<archetype::IdentifierRef<R>>>) -> (r: VxBucket<R>)
        requires self.enumerates(keys@), i < keys@.len(),
        ensures r.key() == keys@[i as int] { unimplemented!() }
    /// `Bucket::as_mut`: the element a live bucket points at
    #[verifier::external_body]
    pub unsafe fn vx_bucket_mut(&mut self, b: &VxBucket<R>) -> (r: &mut archetype::Archetype<R>)
        requires old(self)@.dom().contains(b.key()),
        ensures *r == old(self)@[b.key()], final(self)@ == old(self)@.insert(b.key(), *final(r)) { unimplemented!() }
    /// `RawTable::erase`: the bucket must be live (hashbrown's safety contract)
    #[verifier::external_body]
    pub unsafe fn erase(&mut self, b: VxBucket<R>)
        requires old(self)@.dom().contains(b.key()),
        ensures final(self)@ == old(self)@.remove(b.key()) { unimplemented!() }
    #[verifier::external_body]
    pub fn shrink_to(&mut self, n: usize)
        ensures final(self)@ == old(self)@ { unimplemented!() }
}
/// hashbrown `Bucket<Archetype<R>>`: identified by the key of the element it points at
#[verifier::external_body]
#[verifier::accept_recursive_types(R)]
pub struct VxBucket<R: Registry> { p: PhantomData<R> }
impl<R: Registry> VxBucket<R> {
    pub uninterp spec fn key(&self) -> archetype::IdentifierRef<R>;
}

// ---- hashbrown::HashMap<&'static [u8], IdentifierRef<R>> (bytes -> token) -----------------
#[verifier::external_body]
#[verifier::accept_recursive_types(R)]
pub struct VxBytesMap<R: Registry> { p: PhantomData<R> }
impl<R: Registry> VxBytesMap<R> {
    pub uninterp spec fn view(&self) -> IMap<Seq<u8>, archetype::IdentifierRef<R>>;
    #[verifier::external_body]
    pub fn default() -> (r: Self) ensures r@ == IMap::<Seq<u8>, archetype::IdentifierRef<R>>::empty() { unimplemented!() }
    #[verifier::external_body]
    pub fn vx_with_capacity(capacity: usize) -> (r: Self) ensures r@ == IMap::<Seq<u8>, archetype::IdentifierRef<R>>::empty() { unimplemented!() }
    #[verifier::external_body]
    pub fn vx_get(&self, bytes: Ghost<Seq<u8>>) -> (r: Option<&archetype::IdentifierRef<R>>)
        ensures r == (if self@.dom().contains(bytes@) { Some(&self@[bytes@]) } else { None::<&archetype::IdentifierRef<R>> }) { unimplemented!() }
    /// `insert_unique_unchecked`: the caller promises the key is not present
    #[verifier::external_body]
    pub unsafe fn vx_insert_unique_unchecked(&mut self, bytes: Ghost<Seq<u8>>, value: archetype::IdentifierRef<R>)
        requires !old(self)@.dom().contains(bytes@),
        ensures final(self)@ == old(self)@.insert(bytes@, value) { unimplemented!() }
    /// R5h: `self.iter().filter_map(|(&k, v)| if set.contains(v) { Some(k) } else { None }).collect::<Vec<_>>()`
    #[verifier::external_body]
    pub fn vx_keys_with_value_in(&self, set: &VxTokenSet<R>) -> (r: Vec<VxSliceKey>)
        ensures forall|b: Seq<u8>| (exists|j: int| 0 <= j < r@.len() && (#[trigger] r@[j])@ == b) == (self@.dom().contains(b) && set@.contains(self@[b])) { unimplemented!() }
    #[verifier::external_body]
    pub fn remove(&mut self, k: VxSliceKey)
        ensures final(self)@ == old(self)@.remove(k@) { unimplemented!() }
}
/// a `&'static [u8]` key of the bytes map
#[verifier::external_body]
pub struct VxSliceKey { _p: () }
impl VxSliceKey {
    pub uninterp spec fn view(&self) -> Seq<u8>;
}
// ---- hashbrown::HashMap<TypeId, IdentifierRef<R>> -----------------------------------------
#[verifier::external_body]
#[verifier::accept_recursive_types(R)]
pub struct VxTypeMap<R: Registry> { p: PhantomData<R> }
impl<R: Registry> VxTypeMap<R> {
    pub uninterp spec fn view(&self) -> IMap<TypeId, archetype::IdentifierRef<R>>;
    #[verifier::external_body]
    pub fn default() -> (r: Self) ensures r@ == IMap::<TypeId, archetype::IdentifierRef<R>>::empty() { unimplemented!() }
    #[verifier::external_body]
    pub fn vx_with_capacity(capacity: usize) -> (r: Self) ensures r@ == IMap::<TypeId, archetype::IdentifierRef<R>>::empty() { unimplemented!() }
    #[verifier::external_body]
    pub fn get(&self, t: &TypeId) -> (r: Option<&archetype::IdentifierRef<R>>)
        ensures r == (if self@.dom().contains(*t) { Some(&self@[*t]) } else { None::<&archetype::IdentifierRef<R>> }) { unimplemented!() }
    #[verifier::external_body]
    pub fn insert(&mut self, t: TypeId, value: archetype::IdentifierRef<R>)
        ensures final(self)@ == old(self)@.insert(t, value) { unimplemented!() }
    /// R14: ghost enumeration of the entries
    pub open spec fn enumerates(&self, ts: Seq<TypeId>) -> bool {
        forall|t: TypeId| self@.dom().contains(t) == ts.contains(t)
    }
    #[verifier::external_body]
    pub fn vx_keys(&self) -> (r: Ghost<Seq<TypeId>>) ensures self.enumerates(r@), r@.len() <= usize::MAX { unimplemented!() }
    #[verifier::external_body]
    pub fn vx_len(&self, ts: Ghost<Seq<TypeId>>) -> (n: usize) requires self.enumerates(ts@), ensures n == ts@.len() { unimplemented!() }
    #[verifier::external_body]
    pub fn vx_nth_pair(&self, i: usize, ts: Ghost<Seq<TypeId>>) -> (r: (TypeId, &archetype::IdentifierRef<R>))
        requires self.enumerates(ts@), i < ts@.len(),
        ensures r.0 == ts@[i as int], *r.1 == self@[ts@[i as int]] { unimplemented!() }
    /// R5h: `self.iter().filter_map(|(&k, v)| if set.contains(v) { Some(k) } else { None }).collect::<Vec<_>>()`
    #[verifier::external_body]
    pub fn vx_keys_with_value_in(&self, set: &VxTokenSet<R>) -> (r: Vec<TypeId>)
        ensures forall|t: TypeId| #[trigger] r@.contains(t) == (self@.dom().contains(t) && set@.contains(self@[t])) { unimplemented!() }
    #[verifier::external_body]
    pub fn remove(&mut self, t: &TypeId)
        ensures final(self)@ == old(self)@.remove(*t) { unimplemented!() }
}

// ---- hashbrown::HashMap<IdentifierRef, IdentifierRef> (the key map of clone / clone_from) ----
#[verifier::external_body]
#[verifier::accept_recursive_types(R)]
pub struct VxKeyMap<R: Registry> { p: PhantomData<R> }
impl<R: Registry> VxKeyMap<R> {
    pub uninterp spec fn view(&self) -> IMap<archetype::IdentifierRef<R>, archetype::IdentifierRef<R>>;
    #[verifier::external_body]
    pub fn vx_with_capacity(n: usize) -> (r: Self)
        ensures r@ == IMap::<archetype::IdentifierRef<R>, archetype::IdentifierRef<R>>::empty() { unimplemented!() }
    #[verifier::external_body]
    pub fn insert(&mut self, k: archetype::IdentifierRef<R>, v: archetype::IdentifierRef<R>)
        ensures final(self)@ == old(self)@.insert(k, v) { unimplemented!() }
    #[verifier::external_body]
    pub fn get(&self, k: &archetype::IdentifierRef<R>) -> (r: Option<&archetype::IdentifierRef<R>>)
        ensures r == (if self@.dom().contains(*k) { Some(&self@[*k]) } else { None::<&archetype::IdentifierRef<R>> }) { unimplemented!() }
    /// `map.values().collect::<HashSet<_>>()`
    #[verifier::external_body]
    pub fn vx_values(&self) -> (r: VxTokenSet<R>)
        ensures forall|t: archetype::IdentifierRef<R>| #[trigger] r@.contains(t) == (exists|k: archetype::IdentifierRef<R>| self@.dom().contains(k) && self@[k] == t) { unimplemented!() }
}
#[verifier::external_body]
#[verifier::accept_recursive_types(R)]
pub struct VxTokenSet<R: Registry> { p: PhantomData<R> }
impl<R: Registry> VxTokenSet<R> {
    pub uninterp spec fn view(&self) -> ISet<archetype::IdentifierRef<R>>;
    #[verifier::external_body]
    pub fn contains(&self, t: &archetype::IdentifierRef<R>) -> (b: bool) ensures b == self@.contains(*t) { unimplemented!() }
    #[verifier::external_body]
    pub fn vx_new() -> (r: Self) ensures r@ == ISet::<archetype::IdentifierRef<R>>::empty() { unimplemented!() }
    #[verifier::external_body]
    pub fn insert(&mut self, t: archetype::IdentifierRef<R>) -> (b: bool) ensures final(self)@ == old(self)@.insert(t) { unimplemented!() }
}

/// `c` is a value copy of table `t` under key `k2` (C10): same identifiers, same rows, same
/// component set
pub open spec fn vx_table_copy<R: Registry>(c: archetype::Archetype<R>, t: archetype::Archetype<R>, k2: archetype::IdentifierRef<R>) -> bool {
    c.wf() && c.key() == k2 && c.length == t.length && c.ids() == t.ids() && c.rows() == t.rows() && vx_key_bits(k2) == vx_key_bits(t.key())
}
/// source table under key `k` has its value copy in `dst` under `map[k]`
pub open spec fn vx_copied<R: Registry>(
    map: IMap<archetype::IdentifierRef<R>, archetype::IdentifierRef<R>>,
    dst: IMap<archetype::IdentifierRef<R>, archetype::Archetype<R>>,
    src: IMap<archetype::IdentifierRef<R>, archetype::Archetype<R>>,
    k: archetype::IdentifierRef<R>) -> bool {
    map.dom().contains(k) && dst.dom().contains(map[k]) && vx_table_copy(dst[map[k]], src[k], map[k])
}
/// the old-key -> new-key map returned by Archetypes::clone / clone_from
pub open spec fn vx_is_key_map<R: Registry>(
    map: IMap<archetype::IdentifierRef<R>, archetype::IdentifierRef<R>>,
    src: IMap<archetype::IdentifierRef<R>, archetype::Archetype<R>>,
    dst: IMap<archetype::IdentifierRef<R>, archetype::Archetype<R>>) -> bool {
    &&& forall|k: archetype::IdentifierRef<R>| src.dom().contains(k) ==>
            #[trigger] map.dom().contains(k) && dst.dom().contains(map[k]) && vx_table_copy(dst[map[k]], src[k], map[k])
    &&& forall|k1: archetype::IdentifierRef<R>, k2: archetype::IdentifierRef<R>|
            src.dom().contains(k1) && src.dom().contains(k2) && #[trigger] map[k1] == #[trigger] map[k2] ==> k1 == k2
    &&& forall|k2: archetype::IdentifierRef<R>| #[trigger] dst.dom().contains(k2) ==>
            dst[k2].wf() && dst[k2].key() == k2 &&
            ((exists|k: archetype::IdentifierRef<R>| src.dom().contains(k) && map[k] == k2) || dst[k2].length == 0)
}

// ---- Archetype::clone / clone_from: assumed contracts, checked (bounded) by family K-clone ----
#[verifier::external_body]
pub fn vx_archetype_clone<R: Registry>(a: &archetype::Archetype<R>) -> (r: archetype::Archetype<R>)
    requires a.wf(),
    ensures r.wf(), r.length == a.length, r.ids() == a.ids(), r.rows() == a.rows(), vx_key_bits(r.key()) == vx_key_bits(a.key()) { unimplemented!() }
#[verifier::external_body]
pub fn vx_archetype_clone_from<R: Registry>(a: &mut archetype::Archetype<R>, source: &archetype::Archetype<R>)
    requires old(a).wf(), source.wf(),
    ensures final(a).wf(), final(a).key() == old(a).key(), final(a).length == source.length, final(a).ids() == source.ids(), final(a).rows() == source.rows() { unimplemented!() }

/// `Archetype::component_eq` (R6, assumed contract; K-eq decides it on the real code): the
/// identifier columns and every component cell of the two tables are equal
pub uninterp spec fn vx_tables_eq<R: Registry>(a: archetype::Archetype<R>, b: archetype::Archetype<R>) -> bool;
#[verifier::external_body]
pub unsafe fn vx_component_eq<R: Registry>(a: &archetype::Archetype<R>, b: &archetype::Archetype<R>) -> (r: bool)
    requires vx_key_bits(a.key()) == vx_key_bits(b.key()),
    ensures r == vx_tables_eq(*a, *b) { unimplemented!() }
/// C16: table `t` has a table of the same component set in `m` that is component-equal to it
pub open spec fn vx_has_equal_partner<R: Registry>(t: archetype::Archetype<R>, m: IMap<archetype::IdentifierRef<R>, archetype::Archetype<R>>) -> bool {
    exists|k2: archetype::IdentifierRef<R>| m.dom().contains(k2) && vx_key_bits(k2) == vx_key_bits(t.key()) && vx_tables_eq(t, #[trigger] m[k2])
}

/// every stored table is well formed
pub open spec fn vx_tables_wf<R: Registry>(m: IMap<archetype::IdentifierRef<R>, archetype::Archetype<R>>) -> bool {
    forall|k: archetype::IdentifierRef<R>| m.dom().contains(k) ==> (#[trigger] m[k]).wf()
}
pub open spec fn vx_fresh_table<R: Registry>(a: archetype::Archetype<R>, k: archetype::IdentifierRef<R>, bits: VxBits) -> bool {
    a.wf() && a.length == 0 && a.key() == k && vx_key_bits(k) == bits
}
pub open spec fn vx_single_table<R: Registry>(m: IMap<archetype::IdentifierRef<R>, archetype::Archetype<R>>) -> bool {
    forall|k1: archetype::IdentifierRef<R>, k2: archetype::IdentifierRef<R>|
        m.dom().contains(k1) && m.dom().contains(k2) && vx_key_bits(k1) == vx_key_bits(k2) ==> k1 == k2
}

pub struct Archetypes<R>
where
    R: Registry, {
    pub raw_archetypes: VxRawTable<R>,
    pub hash_builder: FnvBuildHasher,

    pub type_id_lookup: VxTypeMap<R>,
    pub foreign_identifier_lookup: VxBytesMap<R>,
}


impl<R: Registry> Archetypes<R> {
    pub open spec fn view(&self) -> IMap<archetype::IdentifierRef<R>, archetype::Archetype<R>> { self.raw_archetypes@ }
    /// I1: every table sits under its own key
    pub open spec fn inv_keyed(&self) -> bool { self.raw_archetypes.keyed() }
    /// I2: the bytes lookup lists exactly the tables with keys in `d`, each under its own bytes
    pub open spec fn inv_foreign_complete(&self, d: ISet<archetype::IdentifierRef<R>>) -> bool {
        forall|k: archetype::IdentifierRef<R>| #[trigger] d.contains(k) ==>
            self.foreign_identifier_lookup@.dom().contains(vx_key_bits(k)) && self.foreign_identifier_lookup@[vx_key_bits(k)] == k
    }
    pub open spec fn inv_foreign_sound(&self, d: ISet<archetype::IdentifierRef<R>>) -> bool {
        forall|b: Seq<u8>| #[trigger] self.foreign_identifier_lookup@.dom().contains(b) ==>
            d.contains(self.foreign_identifier_lookup@[b]) && vx_key_bits(self.foreign_identifier_lookup@[b]) == b
    }
    /// I3: the type cache points at stored tables of the right component set
    pub open spec fn inv_type_cache(&self, d: ISet<archetype::IdentifierRef<R>>) -> bool {
        forall|t: TypeId| #[trigger] self.type_id_lookup@.dom().contains(t) ==>
            d.contains(self.type_id_lookup@[t]) && vx_key_bits(self.type_id_lookup@[t]) == vx_type_bits(t)
    }
    /// the lookup tables are in step with a table set whose keys are `d` (depends on keys only)
    pub open spec fn lookups_ok(&self, d: ISet<archetype::IdentifierRef<R>>) -> bool {
        self.inv_foreign_complete(d) && self.inv_foreign_sound(d) && self.inv_type_cache(d)
    }
    pub open spec fn wf(&self) -> bool {
        self.inv_keyed() && self.lookups_ok(self@.dom())
    }
    /// C13: entities with the same component set are kept in a single table
    pub proof fn lemma_single_table(&self)
        requires self.wf(),
        ensures vx_single_table(self@),
    {
        assert forall|k1: archetype::IdentifierRef<R>, k2: archetype::IdentifierRef<R>|
            self@.dom().contains(k1) && self@.dom().contains(k2) && vx_key_bits(k1) == vx_key_bits(k2) implies k1 == k2 by {
            assert(self@.dom().contains(k1) && self@.dom().contains(k2));
            assert(self.foreign_identifier_lookup@[vx_key_bits(k1)] == k1);
            assert(self.foreign_identifier_lookup@[vx_key_bits(k2)] == k2);
        }
    }
}


/// identifier `i` is stored in one of the first `n` tables of the enumeration `keys`
pub open spec fn vx_stored_prefix<R: Registry>(m: IMap<archetype::IdentifierRef<R>, archetype::Archetype<R>>, keys: Seq<archetype::IdentifierRef<R>>, n: int, i: entity::Identifier) -> bool {
    exists|j: int| 0 <= j < n && (#[trigger] m[keys[j]]).ids().contains(i)
}
pub proof fn lemma_stored_prefix_step<R: Registry>(m: IMap<archetype::IdentifierRef<R>, archetype::Archetype<R>>, keys: Seq<archetype::IdentifierRef<R>>, n: int, i: entity::Identifier)
    requires 0 <= n < keys.len(),
    ensures vx_stored_prefix(m, keys, n + 1, i) == (vx_stored_prefix(m, keys, n, i) || m[keys[n]].ids().contains(i)),
{
    if vx_stored_prefix(m, keys, n + 1, i) {
        let j = choose|j: int| 0 <= j < n + 1 && (#[trigger] m[keys[j]]).ids().contains(i);
        if j < n { assert(0 <= j < n && m[keys[j]].ids().contains(i)); }
    }
    if vx_stored_prefix(m, keys, n, i) {
        let j = choose|j: int| 0 <= j < n && (#[trigger] m[keys[j]]).ids().contains(i);
        assert(0 <= j < n + 1 && m[keys[j]].ids().contains(i));
    }
    if m[keys[n]].ids().contains(i) {
        assert(0 <= n < n + 1 && m[keys[n]].ids().contains(i));
    }
}
/// over the whole enumeration, "stored in a prefix table" is "stored in the table set"
pub proof fn lemma_stored_prefix_all<R: Registry>(m: IMap<archetype::IdentifierRef<R>, archetype::Archetype<R>>, keys: Seq<archetype::IdentifierRef<R>>, i: entity::Identifier)
    requires
        forall|k: archetype::IdentifierRef<R>| m.dom().contains(k) == keys.contains(k),
        forall|k: archetype::IdentifierRef<R>| m.dom().contains(k) ==> (#[trigger] m[k]).wf(),
    ensures vx_stored_prefix(m, keys, keys.len() as int, i) == vx_stored(m, i),
{
    if vx_stored_prefix(m, keys, keys.len() as int, i) {
        let j = choose|j: int| 0 <= j < keys.len() && (#[trigger] m[keys[j]]).ids().contains(i);
        let k = keys[j];
        assert(keys.contains(k));
        assert(m.dom().contains(k));
        assert(m[k].wf());
        let r = choose|r: int| 0 <= r < m[k].ids().len() && m[k].ids()[r] == i;
        assert(m.dom().contains(k) && 0 <= r < m[k].length && m[k].ids()[r] == i);
    }
    if vx_stored(m, i) {
        let (k, r) = choose|k: archetype::IdentifierRef<R>, r: int| m.dom().contains(k) && 0 <= r < m[k].length && #[trigger] m[k].ids()[r] == i;
        assert(keys.contains(k));
        let j = choose|j: int| 0 <= j < keys.len() && keys[j] == k;
        assert(m[k].wf());
        assert(m[keys[j]].ids()[r] == i);
        assert(m[keys[j]].ids().contains(i));
        assert(0 <= j < keys.len() && m[keys[j]].ids().contains(i));
    }
}

impl<R> Archetypes<R> where R: Registry {
    #[verifier::external_body]
    pub fn new() -> (r: Self)
        ensures
            r.wf(),
            r@ == IMap::<archetype::IdentifierRef<R>, archetype::Archetype<R>>::empty(),
    {
        unimplemented!()
    }

    #[verifier::external_body]
    pub fn with_capacity(capacity: usize) -> (r: Self)
        ensures
            r.wf(),
            r@ == IMap::<archetype::IdentifierRef<R>, archetype::Archetype<R>>::empty(),
    {
        unimplemented!()
    }

    #[verifier::external_body]
    pub fn get(&self, identifier: archetype::IdentifierRef<R>) -> (r: Option<&Archetype<R>>)
        ensures
            r == (if self@.dom().contains(identifier) { Some(&self@[identifier]) } else { None::<&archetype::Archetype<R>> }),
    {
        unimplemented!()
    }

    #[verifier::external_body]
    pub fn get_mut(&mut self, identifier: archetype::IdentifierRef<R>,) -> (r: Option<&mut Archetype<R>>)
        ensures
            r is Some == old(self)@.dom().contains(identifier),
            r is Some ==> *r->0 == old(self)@[identifier] && final(self)@ == old(self)@.insert(identifier, *final(r->0)),
            r is None ==> final(self)@ == old(self)@,
            final(self).foreign_identifier_lookup == old(self).foreign_identifier_lookup && final(self).type_id_lookup == old(self).type_id_lookup,
    {
        unimplemented!()
    }

    #[verifier::external_body]
    pub unsafe fn get_unchecked_mut(&mut self, identifier: archetype::IdentifierRef<R>,) -> (r: &mut Archetype<R>)
        requires
            old(self)@.dom().contains(identifier),
        ensures
            *r == old(self)@[identifier],
            final(self)@ == old(self)@.insert(identifier, *final(r)),
            final(self).foreign_identifier_lookup == old(self).foreign_identifier_lookup && final(self).type_id_lookup == old(self).type_id_lookup,
    {
        unimplemented!()
    }

    #[verifier::external_body]
     fn get_with_foreign(&self, identifier: archetype::IdentifierRef<R>) -> (r: Option<&Archetype<R>>)
        requires
            self.wf(),
        ensures
            r is Some == (exists|k: archetype::IdentifierRef<R>| self@.dom().contains(k) && vx_key_bits(k) == vx_key_bits(identifier)),
            r is Some ==> self@.dom().contains(r->0.key()) && *r->0 == self@[r->0.key()] && vx_key_bits(r->0.key()) == vx_key_bits(identifier),
    {
        unimplemented!()
    }

    #[verifier::external_body]
     fn get_mut_with_foreign(&mut self, identifier: archetype::IdentifierRef<R>,) -> (r: Option<&mut Archetype<R>>)
        requires
            old(self).wf(),
        ensures
            r is Some == (exists|k: archetype::IdentifierRef<R>| old(self)@.dom().contains(k) && vx_key_bits(k) == vx_key_bits(identifier)),
            r is Some ==> old(self)@.dom().contains(r->0.key()) && *r->0 == old(self)@[r->0.key()] && vx_key_bits(r->0.key()) == vx_key_bits(identifier) && final(self)@ == old(self)@.insert(r->0.key(), *final(r->0)),
            r is None ==> final(self)@ == old(self)@,
            final(self).foreign_identifier_lookup == old(self).foreign_identifier_lookup && final(self).type_id_lookup == old(self).type_id_lookup,
    {
        unimplemented!()
    }

    #[verifier::external_body]
    pub fn get_mut_or_insert_new(&mut self, identifier_buffer: archetype::Identifier<R>,) -> (r: &mut Archetype<R>)
        requires
            old(self).wf(),
        ensures
            (exists|k: archetype::IdentifierRef<R>| old(self)@.dom().contains(k) && vx_key_bits(k) == identifier_buffer.spec_bits()) ==> old(self)@.dom().contains(r.key()) && *r == old(self)@[r.key()] && vx_key_bits(r.key()) == identifier_buffer.spec_bits(),
            !(exists|k: archetype::IdentifierRef<R>| old(self)@.dom().contains(k) && vx_key_bits(k) == identifier_buffer.spec_bits()) ==> !old(self)@.dom().contains(r.key()) && vx_fresh_table(*r, r.key(), identifier_buffer.spec_bits()),
            final(self)@ == old(self)@.insert(r.key(), *final(r)),
            final(self).inv_foreign_complete(old(self)@.dom().insert(r.key())),
            final(self).inv_foreign_sound(old(self)@.dom().insert(r.key())),
            final(self).inv_type_cache(old(self)@.dom().insert(r.key())),
    {
        unimplemented!()
    }

    #[verifier::external_body]
    pub unsafe fn get_mut_or_insert_new_for_entity<E, P>(&mut self) -> (r: &mut Archetype<R>)
        requires
            old(self).wf(),
        ensures
            (exists|k: archetype::IdentifierRef<R>| old(self)@.dom().contains(k) && vx_key_bits(k) == vx_bits_of::<E>()) ==> old(self)@.dom().contains(r.key()) && *r == old(self)@[r.key()] && vx_key_bits(r.key()) == vx_bits_of::<E>(),
            !(exists|k: archetype::IdentifierRef<R>| old(self)@.dom().contains(k) && vx_key_bits(k) == vx_bits_of::<E>()) ==> !old(self)@.dom().contains(r.key()) && vx_fresh_table(*r, r.key(), vx_bits_of::<E>()),
            final(self)@ == old(self)@.insert(r.key(), *final(r)),
            final(self).inv_foreign_complete(old(self)@.dom().insert(r.key())),
            final(self).inv_foreign_sound(old(self)@.dom().insert(r.key())),
            final(self).inv_type_cache(old(self)@.dom().insert(r.key())),
    {
        unimplemented!()
    }

    #[verifier::external_body]
    pub fn insert(&mut self, archetype: Archetype<R>) -> (r: Result<(), Archetype<R>>)
        requires
            old(self).wf(),
            archetype.wf(),
        ensures
            (exists|k: archetype::IdentifierRef<R>| old(self)@.dom().contains(k) && vx_key_bits(k) == vx_key_bits(archetype.key())) == (r is Err),
            r is Err ==> final(self)@ == old(self)@ && r == Err::<(), Archetype<R>>(archetype),
            r is Ok ==> final(self)@ == old(self)@.insert(archetype.key(), archetype),
            final(self).inv_keyed(),
            final(self).inv_foreign_complete(final(self)@.dom()),
            final(self).inv_foreign_sound(final(self)@.dom()),
            final(self).inv_type_cache(final(self)@.dom()),
    {
        unimplemented!()
    }

    #[verifier::external_body]
    pub unsafe fn clear(&mut self, entity_allocator: &mut Allocator<R>)
        requires
            old(self).inv_keyed(),
            vx_tables_ok(old(self)@, old(entity_allocator)),
            old(entity_allocator).wf(),
        ensures
            final(self)@.dom() == old(self)@.dom(),
            forall|k: archetype::IdentifierRef<R>| final(self)@.dom().contains(k) ==> (#[trigger] final(self)@[k]).wf() && final(self)@[k].length == 0 && final(self)@[k].key() == k,
            final(entity_allocator).wf(),
            forall|i: entity::Identifier| final(entity_allocator).resolves(i) == (old(entity_allocator).resolves(i) && !vx_stored(old(self)@, i)),
            final(entity_allocator).slots@.len() == old(entity_allocator).slots@.len(),
            final(self).foreign_identifier_lookup == old(self).foreign_identifier_lookup && final(self).type_id_lookup == old(self).type_id_lookup,
    {
        unimplemented!()
    }

}

impl<R> Archetypes<R> where R: Registry {
    #[verifier::external_body]
    pub unsafe fn clone_from(&mut self, source: &Self,) -> (r: VxKeyMap<R>)
        requires
            old(self).wf(),
            source.wf(),
            vx_tables_wf(old(self)@) && vx_tables_wf(source@),
        ensures
            vx_is_key_map(r@, source@, final(self)@),
            vx_single_table(final(self)@),
            final(self).wf(),
    {
        unimplemented!()
    }

}


/// `a` is table `b` after `Archetype::shrink_to_fit` (or untouched): same key, identifiers, rows
pub open spec fn vx_same_table<R: Registry>(a: archetype::Archetype<R>, b: archetype::Archetype<R>) -> bool {
    a.wf() && a.key() == b.key() && a.length == b.length && a.ids() == b.ids() && a.rows() == b.rows()
}


// ---- R9/A10: the serde SeqAccess the archetypes visitor reads tables from.  Ghost state: the
// tables yielded so far and the sum of their lengths (each row owns a 16-byte identifier in live
// memory, so the sum fits usize: A5).
#[verifier::external_body]
#[verifier::accept_recursive_types(R)]
pub struct VxTableSeq<R: Registry> { p: PhantomData<R> }
#[verifier::external_body]
pub struct VxErr { _p: () }
impl<R: Registry> VxTableSeq<R> {
    pub uninterp spec fn yielded(&self) -> Seq<archetype::Archetype<R>>;
    pub uninterp spec fn total(&self) -> usize;
    /// elements left in the (finite) input
    pub uninterp spec fn remaining(&self) -> nat;
    #[verifier::external_body]
    pub fn vx_capacity_hint(&self) -> (n: usize) { unimplemented!() }
    #[verifier::external_body]
    pub fn vx_next_element(&mut self) -> (r: Result<Option<archetype::Archetype<R>>, VxErr>)
        ensures
            r is Ok && r->Ok_0 is Some ==> final(self).yielded() == old(self).yielded().push(r->Ok_0->0) && r->Ok_0->0.wf()
                && final(self).total() == old(self).total() + r->Ok_0->0.length && final(self).remaining() < old(self).remaining(),
            r is Ok && r->Ok_0 is None ==> final(self).yielded() == old(self).yielded() && final(self).total() == old(self).total(),
    { unimplemented!() }
}
#[verifier::external_body]
pub fn vx_custom_error() -> (e: VxErr) { unimplemented!() }

/// sum of the lengths of the tables read so far
pub open spec fn vx_sum_tables<R: Registry>(ts: Seq<archetype::Archetype<R>>) -> nat
    decreases ts.len()
{
    if ts.len() == 0 { 0 } else { vx_sum_tables(ts.drop_last()) + ts.last().length as nat }
}
pub open spec fn vx_keys_of<R: Registry>(ts: Seq<archetype::Archetype<R>>) -> Seq<archetype::IdentifierRef<R>> {
    Seq::new(ts.len(), |j: int| ts[j].key())
}
pub proof fn lemma_sum_tables_keys<R: Registry>(m: IMap<archetype::IdentifierRef<R>, archetype::Archetype<R>>, ts: Seq<archetype::Archetype<R>>)
    requires forall|j: int| 0 <= j < ts.len() ==> m[(#[trigger] ts[j]).key()] == ts[j],
    ensures vx_sum_keys(m, vx_keys_of(ts)) == vx_sum_tables(ts)
    decreases ts.len()
{
    if ts.len() > 0 {
        assert(vx_keys_of(ts).drop_last() =~= vx_keys_of(ts.drop_last()));
        assert(vx_keys_of(ts).last() == ts.last().key());
        lemma_sum_tables_keys(m, ts.drop_last());
    }
}

impl<R> Archetypes<R> where R: Registry {
    #[verifier::external_body]
    pub fn vx_visit_seq(len: &mut usize, seq: &mut VxTableSeq<R>) -> (r: Result<Archetypes<R>, VxErr>)
        requires
            *old(len) == old(seq).total() && *old(len) == 0,
            old(seq).yielded().len() == 0,
        ensures
            r is Ok ==> r->Ok_0.wf() && vx_tables_wf(r->Ok_0@),
            r is Ok ==> vx_single_table(r->Ok_0@) && forall|k: archetype::IdentifierRef<R>| r->Ok_0@.dom().contains(k) ==> (#[trigger] r->Ok_0@[k]).key() == k,
            r is Ok ==> forall|j: int| 0 <= j < final(seq).yielded().len() ==> r->Ok_0@.dom().contains((#[trigger] final(seq).yielded()[j]).key()) && r->Ok_0@[final(seq).yielded()[j].key()] == final(seq).yielded()[j],
            r is Ok ==> forall|k: archetype::IdentifierRef<R>| r->Ok_0@.dom().contains(k) ==> (exists|j: int| 0 <= j < final(seq).yielded().len() && (#[trigger] final(seq).yielded()[j]).key() == k),
            r is Ok ==> forall|a: int, b: int| 0 <= a < b < final(seq).yielded().len() ==> vx_key_bits((#[trigger] final(seq).yielded()[a]).key()) != vx_key_bits((#[trigger] final(seq).yielded()[b]).key()),
            r is Ok ==> *final(len) == final(seq).total(),
            r is Ok ==> *final(len) == vx_total_rows(r->Ok_0@),
    {
        unimplemented!()
    }

}


// ---- R9/A10: the serde Serializer the table set is written to, and the borrowing table iterator
#[verifier::external_body]
pub struct VxSeqSerializer { _p: () }
#[verifier::external_body]
pub struct VxSeqOk { _p: () }
pub struct VxTableTok { pub id: int }
/// the abstract token of a serialized table (K-deser-arch decides the element encoding, bounded)
pub uninterp spec fn vx_ser_table<R: Registry>(t: archetype::Archetype<R>) -> VxTableTok;
impl VxSeqOk { pub uninterp spec fn elems(&self) -> Seq<VxTableTok>; }
#[verifier::external_body]
#[verifier::accept_recursive_types(R)]
pub struct VxTableRefIter<'a, R: Registry> { p: PhantomData<&'a R> }
impl<'a, R: Registry> VxTableRefIter<'a, R> {
    pub uninterp spec fn rest(&self) -> Seq<archetype::Archetype<R>>;
    /// A1: `Iterator::filter(p)`: the items `p` accepts, in order
    #[verifier::external_body]
    pub fn filter<F: Fn(&&'a archetype::Archetype<R>) -> bool>(self, f: F) -> (r: VxTableRefIter<'a, R>)
        requires forall|t: &&'a archetype::Archetype<R>| #[trigger] f.requires((t,)),
        ensures r.rest().len() <= self.rest().len(),
                forall|j: int| 0 <= j < r.rest().len() ==> exists|i: int| 0 <= i < self.rest().len() && self.rest()[i] == #[trigger] r.rest()[j],
                (forall|t: &&'a archetype::Archetype<R>| f.ensures((t,), true)) ==> r.rest() == self.rest()
    { unimplemented!() }
}
impl VxSeqSerializer {
    /// serde `Serializer::is_human_readable()`: any answer
    #[verifier::external_body]
    pub fn is_human_readable(&self) -> (r: bool) { unimplemented!() }
    /// serde `Serializer::collect_seq(iter)`: one element per item of the iterator, in order
    #[verifier::external_body]
    pub fn collect_seq<'a, R: Registry>(self, it: VxTableRefIter<'a, R>) -> (r: Result<VxSeqOk, VxErr>)
        ensures r is Ok ==> r->Ok_0.elems() == Seq::new(it.rest().len(), |j: int| vx_ser_table(it.rest()[j])) { unimplemented!() }
}
impl<R: Registry> Archetypes<R> {
    /// R14/A3: `Archetypes::iter()` (hashbrown RawIter): every stored table once, in some order
    #[verifier::external_body]
    pub fn vx_iter<'a>(&'a self) -> (r: VxTableRefIter<'a, R>)
        ensures exists|ks: Seq<archetype::IdentifierRef<R>>| self.raw_archetypes.enumerates(ks) && r.rest() == Seq::new(ks.len(), |j: int| self@[ks[j]]) { unimplemented!() }
}

impl<R> Archetypes<R> where R: Registry {
    #[verifier::external_body]
    pub fn serialize(&self, serializer: VxSeqSerializer) -> (r: Result<VxSeqOk, VxErr>)
        ensures
            r is Ok ==> exists|ks: Seq<archetype::IdentifierRef<R>>| self.raw_archetypes.enumerates(ks) && r->Ok_0.elems() == Seq::new(ks.len(), |j: int| vx_ser_table(self@[ks[j]])),
    {
        unimplemented!()
    }

}

impl<R> Archetypes<R> where R: Registry {
    #[verifier::external_body]
    pub fn eq(&self, other: &Self) -> (b: bool)
        requires
            self.wf(),
            other.wf(),
        ensures
            b == (self.raw_archetypes.count() == other.raw_archetypes.count() && forall|k: archetype::IdentifierRef<R>| self@.dom().contains(k) ==> vx_has_equal_partner(#[trigger] self@[k], other@)),
    {
        unimplemented!()
    }

}


// ---- C16: the relation Archetypes::eq computes (its proved postcondition) is reflexive and
// symmetric, given that the per-table comparison is (A8: user PartialEq is an equivalence; K-eq:
// component_eq is pointwise equality of identifiers and cells)
pub open spec fn vx_archs_eq_spec<R: Registry>(a: Archetypes<R>, b: Archetypes<R>) -> bool {
    a.raw_archetypes.count() == b.raw_archetypes.count()
        && forall|k: archetype::IdentifierRef<R>| a@.dom().contains(k) ==> vx_has_equal_partner(#[trigger] a@[k], b@)
}
/// A3: a hashbrown table holds finitely many elements; `len()` is their number
#[verifier::external_body]
pub proof fn vx_axiom_count<R: Registry>(t: &VxRawTable<R>)
    ensures exists|ks: Seq<archetype::IdentifierRef<R>>| t.enumerates(ks) && ks.len() == t.count()
{ }
/// pigeonhole: an injective map from the elements of a duplicate-free list into the elements of
/// a duplicate-free list of the same length hits every element
pub proof fn lemma_injective_onto<K>(a: Seq<K>, b: Seq<K>, g: spec_fn(K) -> K)
    requires vx_nodup(a), vx_nodup(b), a.len() == b.len(),
             forall|i: int| 0 <= i < a.len() ==> b.contains(#[trigger] g(a[i])),
             forall|i: int, j: int| 0 <= i < j < a.len() ==> g(a[i]) != g(a[j]),
    ensures forall|y: K| b.contains(y) ==> exists|i: int| 0 <= i < a.len() && #[trigger] g(a[i]) == y
    decreases a.len()
{
    if a.len() > 0 {
        let x = a.last();
        let gx = g(x);
        assert(b.contains(g(a[a.len() - 1])));
        let j = choose|j: int| 0 <= j < b.len() && b[j] == gx;
        let a1 = a.drop_last();
        let b1 = b.remove(j);
        assert(vx_nodup(a1));
        assert(vx_nodup(b1)) by {
            assert forall|p: int, q: int| 0 <= p < q < b1.len() implies b1[p] != b1[q] by {
                let pp = if p < j { p } else { p + 1 };
                let qq = if q < j { q } else { q + 1 };
                assert(b1[p] == b[pp] && b1[q] == b[qq]);
            }
        }
        assert forall|i: int| 0 <= i < a1.len() implies b1.contains(#[trigger] g(a1[i])) by {
            assert(a1[i] == a[i]);
            assert(b.contains(g(a[i])));
            let q = choose|q: int| 0 <= q < b.len() && b[q] == g(a[i]);
            assert(g(a[i]) != g(a[a.len() - 1]));
            assert(q != j);
            let qq = if q < j { q } else { q - 1 };
            assert(b1[qq] == g(a1[i]));
        }
        assert forall|i: int, k: int| 0 <= i < k < a1.len() implies g(a1[i]) != g(a1[k]) by { assert(a1[i] == a[i] && a1[k] == a[k]); }
        lemma_injective_onto(a1, b1, g);
        assert forall|y: K| b.contains(y) implies exists|i: int| 0 <= i < a.len() && #[trigger] g(a[i]) == y by {
            let q = choose|q: int| 0 <= q < b.len() && b[q] == y;
            if q == j { assert(g(a[a.len() - 1]) == y); }
            else {
                let qq = if q < j { q } else { q - 1 };
                assert(b1[qq] == y);
                assert(b1.contains(y));
                let i = choose|i: int| 0 <= i < a1.len() && #[trigger] g(a1[i]) == y;
                assert(a1[i] == a[i]);
                assert(g(a[i]) == y);
            }
        }
    }
}
pub proof fn lemma_archs_eq_reflexive<R: Registry>(a: Archetypes<R>)
    requires a.wf(), forall|t: archetype::Archetype<R>| #[trigger] vx_tables_eq(t, t),
    ensures vx_archs_eq_spec(a, a)
{
    assert forall|k: archetype::IdentifierRef<R>| a@.dom().contains(k) implies vx_has_equal_partner(#[trigger] a@[k], a@) by {
        assert(a@[k].key() == k);
        assert(a@.dom().contains(k) && vx_key_bits(k) == vx_key_bits(a@[k].key()) && vx_tables_eq(a@[k], a@[k]));
    }
}
pub proof fn lemma_archs_eq_symmetric<R: Registry>(a: Archetypes<R>, b: Archetypes<R>)
    requires a.wf(), b.wf(), vx_archs_eq_spec(a, b),
             forall|t: archetype::Archetype<R>, u: archetype::Archetype<R>| #[trigger] vx_tables_eq(t, u) ==> vx_tables_eq(u, t),
    ensures vx_archs_eq_spec(b, a)
{
    a.lemma_single_table();
    vx_axiom_count(&a.raw_archetypes);
    vx_axiom_count(&b.raw_archetypes);
    let ka = choose|ks: Seq<archetype::IdentifierRef<R>>| a.raw_archetypes.enumerates(ks) && ks.len() == a.raw_archetypes.count();
    let kb = choose|ks: Seq<archetype::IdentifierRef<R>>| b.raw_archetypes.enumerates(ks) && ks.len() == b.raw_archetypes.count();
    let g = |k: archetype::IdentifierRef<R>| choose|k2: archetype::IdentifierRef<R>| b@.dom().contains(k2) && vx_key_bits(k2) == vx_key_bits(a@[k].key()) && vx_tables_eq(a@[k], #[trigger] b@[k2]);
    assert forall|i: int| 0 <= i < ka.len() implies kb.contains(#[trigger] g(ka[i])) && vx_key_bits(g(ka[i])) == vx_key_bits(ka[i]) && vx_tables_eq(a@[ka[i]], b@[g(ka[i])]) by {
        assert(ka.contains(ka[i]));
        assert(a@.dom().contains(ka[i]));
        assert(vx_has_equal_partner(a@[ka[i]], b@));
        assert(a@[ka[i]].key() == ka[i]);
        assert(b@.dom().contains(g(ka[i])));
    }
    assert forall|i: int, j: int| 0 <= i < j < ka.len() implies g(ka[i]) != g(ka[j]) by {
        assert(ka.contains(ka[i]) && ka.contains(ka[j]));
        if g(ka[i]) == g(ka[j]) {
            assert(vx_key_bits(ka[i]) == vx_key_bits(ka[j]));
            assert(ka[i] == ka[j]);
        }
    }
    lemma_injective_onto(ka, kb, g);
    assert forall|k2: archetype::IdentifierRef<R>| b@.dom().contains(k2) implies vx_has_equal_partner(#[trigger] b@[k2], a@) by {
        assert(kb.contains(k2));
        let i = choose|i: int| 0 <= i < ka.len() && #[trigger] g(ka[i]) == k2;
        let k = ka[i];
        assert(ka.contains(k));
        assert(b@[k2].key() == k2);
        assert(vx_tables_eq(a@[k], b@[k2]));
        assert(a@.dom().contains(k) && vx_key_bits(k) == vx_key_bits(b@[k2].key()) && vx_tables_eq(b@[k2], a@[k]));
    }
}


// ---- A1: `vec![None; n]`
#[verifier::external_body]
pub fn vx_vec_none<T>(n: usize) -> (v: Vec<Option<T>>)
    ensures v@.len() == n, forall|i: int| 0 <= i < n ==> (#[trigger] v@[i]) is None { unimplemented!() }

/// W2 (same text as in unit world): every identifier the allocator accepts is attached to the
/// stored row it points at
pub open spec fn vx_de_ids_stored<R: Registry>(m: IMap<archetype::IdentifierRef<R>, archetype::Archetype<R>>, a: &Allocator<R>) -> bool {
    forall|i: entity::Identifier| a.resolves(i) ==> {
        let l = #[trigger] a.view()[i];
        m.dom().contains(l.identifier) && l.index < m[l.identifier].length && m[l.identifier].ids()[l.index as int] == i
    }
}
/// the slot a released identifier of the serialized free list claims
pub open spec fn vx_free_slot<R: Registry>(e: entity::Identifier) -> Option<Slot<R>> {
    Some(Slot { generation: e.generation, location: None })
}
/// the slot row `r` of the table under key `k` claims
pub open spec fn vx_row_slot<R: Registry>(t: archetype::Archetype<R>, k: archetype::IdentifierRef<R>, r: int) -> Option<Slot<R>> {
    Some(Slot { generation: t.ids()[r].generation, location: Some(Location { identifier: k, index: r as usize }) })
}
/// the first `n` entries of the serialized free list have claimed their slots
pub open spec fn vx_free_claimed<R: Registry>(slots: Seq<Option<Slot<R>>>, free: Seq<entity::Identifier>, n: int) -> bool {
    &&& forall|j: int| 0 <= j < n ==> (#[trigger] free[j]).index < slots.len() && slots[free[j].index as int] == vx_free_slot::<R>(free[j])
    &&& forall|a: int, b: int| 0 <= a < b < n ==> (#[trigger] free[a]).index != (#[trigger] free[b]).index
}
/// rows 0..rn of table `t` (under key `k`) have claimed their slots
pub open spec fn vx_rows_claimed<R: Registry>(slots: Seq<Option<Slot<R>>>, t: archetype::Archetype<R>, k: archetype::IdentifierRef<R>, rn: int) -> bool {
    forall|r: int| 0 <= r < rn ==> (#[trigger] t.ids()[r]).index < slots.len() && slots[t.ids()[r].index as int] == vx_row_slot(t, k, r)
}
/// slot `s` was claimed by one of the first `fn_` free entries, by a row of one of the first `tn`
/// tables, or by one of the first `rn` rows of table `tn`
pub open spec fn vx_claimed_by<R: Registry>(s: int, free: Seq<entity::Identifier>, fn_: int,
    m: IMap<archetype::IdentifierRef<R>, archetype::Archetype<R>>, keys: Seq<archetype::IdentifierRef<R>>, tn: int, rn: int) -> bool {
    ||| exists|j: int| 0 <= j < fn_ && (#[trigger] free[j]).index == s
    ||| exists|j: int, r: int| 0 <= j < tn && 0 <= r < m[keys[j]].length && (#[trigger] m[keys[j]].ids()[r]).index == s
    ||| exists|r: int| 0 <= r < rn && tn < keys.len() && (#[trigger] m[keys[tn]].ids()[r]).index == s
}

/// number of claimed slots that carry a location (C13: the entity count of the rebuilt allocator)
pub open spec fn vx_opt_active<R: Registry>(s: Seq<Option<Slot<R>>>) -> nat
    decreases s.len()
{
    if s.len() == 0 { 0 } else { vx_opt_active(s.drop_last()) + (if s.last() is Some && s.last()->0.location is Some { 1nat } else { 0nat }) }
}
pub proof fn lemma_opt_none<R: Registry>(s: Seq<Option<Slot<R>>>)
    requires forall|i: int| 0 <= i < s.len() ==> (#[trigger] s[i]) is None,
    ensures vx_opt_active(s) == 0
    decreases s.len()
{
    if s.len() > 0 { assert(s.last() is None); lemma_opt_none(s.drop_last()); }
}
/// claiming an unclaimed slot adds one exactly when the claim carries a location
pub proof fn lemma_opt_claim<R: Registry>(s: Seq<Option<Slot<R>>>, i: int, x: Option<Slot<R>>)
    requires 0 <= i < s.len(), s[i] is None,
    ensures vx_opt_active(s.update(i, x)) == vx_opt_active(s) + (if x is Some && x->0.location is Some { 1nat } else { 0nat })
    decreases s.len()
{
    if i == s.len() - 1 {
        assert(s.update(i, x).drop_last() =~= s.drop_last());
    } else {
        assert(s.update(i, x).drop_last() =~= s.drop_last().update(i, x));
        lemma_opt_claim(s.drop_last(), i, x);
    }
}
pub proof fn lemma_opt_unwrap<R: Registry>(s: Seq<Option<Slot<R>>>, t: Seq<Slot<R>>)
    requires s.len() == t.len(), forall|i: int| 0 <= i < s.len() ==> (#[trigger] s[i]) is Some && t[i] == s[i]->0,
    ensures vx_active_count(t) == vx_opt_active(s)
    decreases s.len()
{
    if s.len() > 0 {
        assert(s.last() is Some && t.last() == s.last()->0);
        lemma_opt_unwrap(s.drop_last(), t.drop_last());
    }
}

/// the exit state of the claiming loops makes a well-formed allocator that agrees with the tables
pub proof fn lemma_de_end<R: Registry>(vx_sl: Seq<Option<Slot<R>>>, vx_fr: Seq<entity::Identifier>,
    vx_m: IMap<archetype::IdentifierRef<R>, archetype::Archetype<R>>, keys: Seq<archetype::IdentifierRef<R>>, a: Allocator<R>)
    requires
        vx_enum(vx_m, keys),
        forall|k: archetype::IdentifierRef<R>| vx_m.dom().contains(k) ==> (#[trigger] vx_m[k]).wf() && vx_m[k].key() == k,
        vx_free_claimed(vx_sl, vx_fr, vx_fr.len() as int),
        forall|j: int| 0 <= j < keys.len() ==> vx_rows_claimed(vx_sl, #[trigger] vx_m[keys[j]], keys[j], vx_m[keys[j]].length as int),
        forall|s: int| 0 <= s < vx_sl.len() && (#[trigger] vx_sl[s]) is Some ==> vx_claimed_by(s, vx_fr, vx_fr.len() as int, vx_m, keys, keys.len() as int, 0),
        forall|s: int| 0 <= s < vx_sl.len() ==> (#[trigger] vx_sl[s]) is Some,
        vx_opt_active(vx_sl) == vx_sum_keys(vx_m, keys),
        a.slots@.len() == vx_sl.len(), forall|s: int| 0 <= s < vx_sl.len() ==> (#[trigger] a.slots@[s]) == vx_sl[s]->0,
        a.free@.len() == vx_fr.len(), forall|j: int| 0 <= j < vx_fr.len() ==> (#[trigger] a.free@[j]) == vx_fr[j].index,
    ensures
        a.wf(),
        forall|k: archetype::IdentifierRef<R>| vx_m.dom().contains(k) ==> (#[trigger] vx_m[k]).agrees(&a),
        vx_de_ids_stored(vx_m, &a),
        a.active_count() == vx_total_rows(vx_m),
        forall|j: int| 0 <= j < vx_fr.len() ==> (#[trigger] vx_fr[j]).index < vx_sl.len() && a.slots@[vx_fr[j].index as int].generation == vx_fr[j].generation,
{
            let n = keys.len() as int;
            assert(a.slots@.len() == vx_sl.len());
            assert forall|s: int| 0 <= s < vx_sl.len() implies (#[trigger] a.slots@[s]) == vx_sl[s]->0 && vx_sl[s] is Some by { }
            // free list: in bounds, inactive, distinct
            assert forall|j: int| 0 <= j < a.free@.len() implies (#[trigger] a.free@[j]) < a.slots@.len() && a.slots@[a.free@[j] as int].location is None by {
                assert(a.free@[j] == vx_fr[j].index);
                assert(vx_sl[vx_fr[j].index as int] == vx_free_slot::<R>(vx_fr[j]));
            }
            assert forall|i: int, j: int| 0 <= i < j < a.free@.len() implies a.free@[i] != a.free@[j] by {
                assert(vx_fr[i].index != vx_fr[j].index);
            }
            // complete: an inactive slot was claimed by a free entry (rows claim active slots)
            assert forall|s: int| 0 <= s < a.slots@.len() && (#[trigger] a.slots@[s]).location is None implies a.free@.contains(s as usize) by {
                assert(vx_sl[s] is Some);
                assert(vx_claimed_by(s, vx_fr, vx_fr.len() as int, vx_m, keys, n, 0));
                if exists|j: int, q: int| 0 <= j < n && 0 <= q < vx_m[keys[j]].length && (#[trigger] vx_m[keys[j]].ids()[q]).index == s {
                    let (j, q) = choose|j: int, q: int| 0 <= j < n && 0 <= q < vx_m[keys[j]].length && (#[trigger] vx_m[keys[j]].ids()[q]).index == s;
                    assert(vx_rows_claimed(vx_sl, vx_m[keys[j]], keys[j], vx_m[keys[j]].length as int));
                    assert(vx_sl[s] == vx_row_slot(vx_m[keys[j]], keys[j], q));
                    assert(false);
                }
                let j = choose|j: int| 0 <= j < vx_fr.len() && (#[trigger] vx_fr[j]).index == s;
                assert(a.free@[j] == s as usize);
            }
            assert(a.wf());
            // entity count: active slots == claimed slots with a location == rows of all tables
            lemma_opt_unwrap(vx_sl, a.slots@);
            lemma_total_rows(vx_m, keys);
            assert(a.active_count() == vx_total_rows(vx_m));
            // every table agrees with the allocator
            assert forall|k: archetype::IdentifierRef<R>| vx_m.dom().contains(k) implies (#[trigger] vx_m[k]).agrees(&a) by {
                assert(keys.contains(k));
                let j = choose|j: int| 0 <= j < n && keys[j] == k;
                let tb = vx_m[k];
                assert(tb.key() == k);
                assert(vx_rows_claimed(vx_sl, vx_m[keys[j]], keys[j], vx_m[keys[j]].length as int));
                assert forall|q: int| 0 <= q < tb.length implies a.resolves(#[trigger] tb.ids()[q])
                    && a.view()[tb.ids()[q]] == (Location { identifier: tb.key(), index: q as usize }) by {
                    assert(vx_sl[tb.ids()[q].index as int] == vx_row_slot(tb, k, q));
                }
            }
            // every accepted identifier is stored
            assert forall|id: entity::Identifier| a.resolves(id) implies ({
                let l = #[trigger] a.view()[id];
                vx_m.dom().contains(l.identifier) && l.index < vx_m[l.identifier].length && vx_m[l.identifier].ids()[l.index as int] == id
            }) by {
                let s = id.index as int;
                assert(vx_sl[s] is Some);
                assert(vx_claimed_by(s, vx_fr, vx_fr.len() as int, vx_m, keys, n, 0));
                if exists|j: int| 0 <= j < vx_fr.len() && (#[trigger] vx_fr[j]).index == s {
                    let j = choose|j: int| 0 <= j < vx_fr.len() && (#[trigger] vx_fr[j]).index == s;
                    assert(vx_sl[s] == vx_free_slot::<R>(vx_fr[j]));
                    assert(false);
                }
                let (j, q) = choose|j: int, q: int| 0 <= j < n && 0 <= q < vx_m[keys[j]].length && (#[trigger] vx_m[keys[j]].ids()[q]).index == s;
                let tb = vx_m[keys[j]];
                assert(keys.contains(keys[j]));
                assert(vx_m.dom().contains(keys[j]));
                assert(vx_rows_claimed(vx_sl, tb, keys[j], tb.length as int));
                assert(vx_sl[s] == vx_row_slot(tb, keys[j], q));
                assert(tb.ids()[q].generation == id.generation && tb.ids()[q].index == id.index);
                assert(tb.ids()[q] == id);
            }

    assert forall|j: int| 0 <= j < vx_fr.len() implies (#[trigger] vx_fr[j]).index < vx_sl.len() && a.slots@[vx_fr[j].index as int].generation == vx_fr[j].generation by {
        assert(vx_sl[vx_fr[j].index as int] == vx_free_slot::<R>(vx_fr[j]));
    }
}

/// one step of the row-claiming loop: row `r` of table `t` claims its (so far unclaimed) slot
pub proof fn lemma_de_row<R: Registry>(vx_pre: Seq<Option<Slot<R>>>, vx_new: Seq<Option<Slot<R>>>, vx_fr: Seq<entity::Identifier>,
    vx_m: IMap<archetype::IdentifierRef<R>, archetype::Archetype<R>>, keys: Seq<archetype::IdentifierRef<R>>, t: int, r: int)
    requires
        0 <= t < keys.len(), vx_m[keys[t]].key() == keys[t], 0 <= r < vx_m[keys[t]].length,
        vx_m[keys[t]].ids()[r].index < vx_pre.len(), vx_pre[vx_m[keys[t]].ids()[r].index as int] is None,
        vx_new == vx_pre.update(vx_m[keys[t]].ids()[r].index as int, vx_row_slot(vx_m[keys[t]], keys[t], r)),
        vx_free_claimed(vx_pre, vx_fr, vx_fr.len() as int),
        forall|j: int| 0 <= j < t ==> vx_rows_claimed(vx_pre, #[trigger] vx_m[keys[j]], keys[j], vx_m[keys[j]].length as int),
        vx_rows_claimed(vx_pre, vx_m[keys[t]], keys[t], r),
        forall|s: int| 0 <= s < vx_pre.len() && (#[trigger] vx_pre[s]) is Some ==> vx_claimed_by(s, vx_fr, vx_fr.len() as int, vx_m, keys, t, r),
    ensures
        vx_free_claimed(vx_new, vx_fr, vx_fr.len() as int),
        forall|j: int| 0 <= j < t ==> vx_rows_claimed(vx_new, #[trigger] vx_m[keys[j]], keys[j], vx_m[keys[j]].length as int),
        vx_rows_claimed(vx_new, vx_m[keys[t]], keys[t], r + 1),
        forall|s: int| 0 <= s < vx_new.len() && (#[trigger] vx_new[s]) is Some ==> vx_claimed_by(s, vx_fr, vx_fr.len() as int, vx_m, keys, t, r + 1),
        vx_opt_active(vx_new) == vx_opt_active(vx_pre) + 1,
{
                let tb = vx_m[keys[t]];
                let e = tb.ids()[r];
                assert(tb.key() == keys[t]);
                assert(vx_new == vx_pre.update(e.index as int, vx_row_slot(tb, keys[t], r)));
                lemma_opt_claim(vx_pre, e.index as int, vx_row_slot(tb, keys[t], r));
                // nothing claimed before sits at the index just claimed (it was None)
                assert forall|j: int| 0 <= j < vx_fr.len() implies (#[trigger] vx_fr[j]).index != e.index by {
                    assert(vx_pre[vx_fr[j].index as int] is Some);
                }
                assert(vx_free_claimed(vx_new, vx_fr, vx_fr.len() as int));
                assert forall|j: int| 0 <= j < t implies vx_rows_claimed(vx_new, #[trigger] vx_m[keys[j]], keys[j], vx_m[keys[j]].length as int) by {
                    let tj = vx_m[keys[j]];
                    assert(vx_rows_claimed(vx_pre, tj, keys[j], tj.length as int));
                    assert forall|q: int| 0 <= q < tj.length implies (#[trigger] tj.ids()[q]).index < vx_new.len() && vx_new[tj.ids()[q].index as int] == vx_row_slot(tj, keys[j], q) by {
                        assert(vx_pre[tj.ids()[q].index as int] is Some);
                    }
                }
                assert(vx_rows_claimed(vx_new, tb, keys[t], r + 1)) by {
                    assert forall|q: int| 0 <= q < r + 1 implies (#[trigger] tb.ids()[q]).index < vx_new.len() && vx_new[tb.ids()[q].index as int] == vx_row_slot(tb, keys[t], q) by {
                        if q < r { assert(vx_pre[tb.ids()[q].index as int] is Some); }
                    }
                }
                assert forall|s: int| 0 <= s < vx_new.len() && (#[trigger] vx_new[s]) is Some implies vx_claimed_by(s, vx_fr, vx_fr.len() as int, vx_m, keys, t, r + 1) by {
                    if s == e.index as int {
                        assert(0 <= r < r + 1 && t < keys.len() && vx_m[keys[t]].ids()[r].index == s);
                    } else {
                        assert(vx_pre[s] is Some);
                        assert(vx_claimed_by(s, vx_fr, vx_fr.len() as int, vx_m, keys, t, r));
                        if exists|q: int| 0 <= q < r && t < keys.len() && (#[trigger] vx_m[keys[t]].ids()[q]).index == s {
                            let q = choose|q: int| 0 <= q < r && t < keys.len() && (#[trigger] vx_m[keys[t]].ids()[q]).index == s;
                            assert(0 <= q < r + 1 && t < keys.len() && vx_m[keys[t]].ids()[q].index == s);
                        }
                    }
                }

}

// ---- C06/C11: exact characterisation of the inputs from_serialized_parts accepts
pub open spec fn vx_row_in<R: Registry>(m: IMap<archetype::IdentifierRef<R>, archetype::Archetype<R>>, k: archetype::IdentifierRef<R>, r: int) -> bool {
    m.dom().contains(k) && 0 <= r < m[k].length
}
/// slot `s` is named by a free entry or by a stored row
pub open spec fn vx_covered<R: Registry>(s: int, fr: Seq<entity::Identifier>, m: IMap<archetype::IdentifierRef<R>, archetype::Archetype<R>>) -> bool {
    ||| exists|j: int| 0 <= j < fr.len() && (#[trigger] fr[j]).index == s
    ||| exists|k: archetype::IdentifierRef<R>, r: int| vx_row_in(m, k, r) && (#[trigger] m[k].ids()[r]).index == s
}
pub open spec fn vx_valid_a(length: int, fr: Seq<entity::Identifier>) -> bool { forall|j: int| 0 <= j < fr.len() ==> (#[trigger] fr[j]).index < length }
pub open spec fn vx_valid_b(fr: Seq<entity::Identifier>) -> bool { forall|a: int, b: int| 0 <= a < b < fr.len() ==> (#[trigger] fr[a]).index != (#[trigger] fr[b]).index }
pub open spec fn vx_valid_c<R: Registry>(length: int, m: IMap<archetype::IdentifierRef<R>, archetype::Archetype<R>>) -> bool {
    forall|k: archetype::IdentifierRef<R>, r: int| vx_row_in(m, k, r) ==> (#[trigger] m[k].ids()[r]).index < length
}
pub open spec fn vx_valid_d<R: Registry>(m: IMap<archetype::IdentifierRef<R>, archetype::Archetype<R>>) -> bool {
    forall|k1: archetype::IdentifierRef<R>, r1: int, k2: archetype::IdentifierRef<R>, r2: int|
        vx_row_in(m, k1, r1) && vx_row_in(m, k2, r2) && (k1 != k2 || r1 != r2) ==> (#[trigger] m[k1].ids()[r1]).index != (#[trigger] m[k2].ids()[r2]).index
}
pub open spec fn vx_valid_e<R: Registry>(fr: Seq<entity::Identifier>, m: IMap<archetype::IdentifierRef<R>, archetype::Archetype<R>>) -> bool {
    forall|j: int, k: archetype::IdentifierRef<R>, r: int| 0 <= j < fr.len() && vx_row_in(m, k, r) ==> (#[trigger] fr[j]).index != (#[trigger] m[k].ids()[r]).index
}
pub open spec fn vx_valid_f<R: Registry>(length: int, fr: Seq<entity::Identifier>, m: IMap<archetype::IdentifierRef<R>, archetype::Archetype<R>>) -> bool {
    forall|s: int| 0 <= s < length ==> #[trigger] vx_covered(s, fr, m)
}
/// the serialized (length, free list) and the table set describe one allocator: every index
/// 0..length is named exactly once, by a free entry or by a stored row
#[verifier::opaque]
pub open spec fn vx_valid_parts<R: Registry>(length: int, fr: Seq<entity::Identifier>, m: IMap<archetype::IdentifierRef<R>, archetype::Archetype<R>>) -> bool {
    vx_valid_a(length, fr) && vx_valid_b(fr) && vx_valid_c(length, m) && vx_valid_d(m) && vx_valid_e(fr, m) && vx_valid_f(length, fr, m)
}
/// the free list as `Serialize for Allocator` writes it: (index, generation of that slot), in order
pub open spec fn vx_ser_free<R: Registry>(a: Allocator<R>) -> Seq<entity::Identifier> {
    Seq::new(a.free@.len(), |j: int| entity::Identifier { index: a.free@[j], generation: a.slots@[a.free@[j] as int].generation })
}
/// C06: what a well-formed world serializes is accepted (allocator leg): the parts of any
/// allocator that satisfies the world invariant with a table set are valid -- also for any other
/// table set with the same identifier columns (validity only reads `ids()`)
pub proof fn lemma_wf_world_parts_valid<R: Registry>(a: Allocator<R>, m: IMap<archetype::IdentifierRef<R>, archetype::Archetype<R>>)
    requires a.wf(), forall|k: archetype::IdentifierRef<R>| m.dom().contains(k) ==> (#[trigger] m[k]).agrees(&a) && m[k].key() == k, vx_de_ids_stored(m, &a),
    ensures vx_valid_parts(a.slots@.len() as int, vx_ser_free(a), m)
{ reveal(vx_valid_parts);
    let fr = vx_ser_free(a);
    let length = a.slots@.len() as int;
    a.lemma_slots_len_fits();
    assert(vx_valid_a(length, fr));
    assert(vx_valid_b(fr));
    assert(vx_valid_c(length, m)) by {
        assert forall|k: archetype::IdentifierRef<R>, r: int| vx_row_in(m, k, r) implies (#[trigger] m[k].ids()[r]).index < length by { assert(m[k].agrees(&a)); }
    }
    assert(vx_valid_d(m)) by {
        assert forall|k1: archetype::IdentifierRef<R>, r1: int, k2: archetype::IdentifierRef<R>, r2: int|
            vx_row_in(m, k1, r1) && vx_row_in(m, k2, r2) && (k1 != k2 || r1 != r2) implies (#[trigger] m[k1].ids()[r1]).index != (#[trigger] m[k2].ids()[r2]).index by {
            assert(m[k1].agrees(&a)); assert(m[k2].agrees(&a));
            let i1 = m[k1].ids()[r1]; let i2 = m[k2].ids()[r2];
            if i1.index == i2.index {
                assert(i1.generation == i2.generation);
                assert(i1 == i2);
                assert(a.view()[i1] == (Location { identifier: k1, index: r1 as usize }));
                assert(a.view()[i2] == (Location { identifier: k2, index: r2 as usize }));
            }
        }
    }
    assert(vx_valid_e(fr, m)) by {
        assert forall|j: int, k: archetype::IdentifierRef<R>, r: int| 0 <= j < fr.len() && vx_row_in(m, k, r) implies (#[trigger] fr[j]).index != (#[trigger] m[k].ids()[r]).index by {
            assert(m[k].agrees(&a));
            assert(a.slots@[a.free@[j] as int].location is None);
        }
    }
    assert(vx_valid_f(length, fr, m)) by {
        assert forall|s: int| 0 <= s < length implies #[trigger] vx_covered(s, fr, m) by {
            if a.slots@[s].location is None {
                assert(a.free@.contains(s as usize));
                let j = choose|j: int| 0 <= j < a.free@.len() && a.free@[j] == s as usize;
                assert(fr[j].index == s);
            } else {
                let id = entity::Identifier { index: s as usize, generation: a.slots@[s].generation };
                assert(a.resolves(id));
                let l = a.view()[id];
                assert(vx_row_in(m, l.identifier, l.index as int) && m[l.identifier].ids()[l.index as int].index == s);
            }
        }
    }
}

/// validity only reads the identifier columns: it carries over to any other table set that holds
/// the same columns under other (pairwise distinct) keys -- e.g. the tables a deserializer rebuilt
pub proof fn lemma_valid_rekey<R: Registry>(length: int, fr: Seq<entity::Identifier>,
    m: IMap<archetype::IdentifierRef<R>, archetype::Archetype<R>>, m2: IMap<archetype::IdentifierRef<R>, archetype::Archetype<R>>,
    f: IMap<archetype::IdentifierRef<R>, archetype::IdentifierRef<R>>)
    requires
        vx_valid_parts(length, fr, m),
        forall|k: archetype::IdentifierRef<R>| m.dom().contains(k) ==> m2.dom().contains(#[trigger] f[k]) && m2[f[k]].ids() == m[k].ids() && m2[f[k]].length == m[k].length,
        forall|k2: archetype::IdentifierRef<R>| m2.dom().contains(k2) ==> exists|k: archetype::IdentifierRef<R>| m.dom().contains(k) && #[trigger] f[k] == k2,
        forall|k1: archetype::IdentifierRef<R>, k2: archetype::IdentifierRef<R>| m.dom().contains(k1) && m.dom().contains(k2) && #[trigger] f[k1] == #[trigger] f[k2] ==> k1 == k2,
    ensures vx_valid_parts(length, fr, m2)
{
    reveal(vx_valid_parts);
    let pre = |k2: archetype::IdentifierRef<R>| choose|k: archetype::IdentifierRef<R>| m.dom().contains(k) && #[trigger] f[k] == k2;
    assert forall|k2: archetype::IdentifierRef<R>, r: int| vx_row_in(m2, k2, r) implies vx_row_in(m, pre(k2), r) && m[pre(k2)].ids()[r] == (#[trigger] m2[k2].ids()[r]) by {
        let k = pre(k2);
        assert(m.dom().contains(k) && f[k] == k2);
    }
    assert(vx_valid_c(length, m2)) by {
        assert forall|k2: archetype::IdentifierRef<R>, r: int| vx_row_in(m2, k2, r) implies (#[trigger] m2[k2].ids()[r]).index < length by {
            assert(vx_row_in(m, pre(k2), r));
            assert(m[pre(k2)].ids()[r].index < length);
        }
    }
    assert(vx_valid_d(m2)) by {
        assert forall|k1: archetype::IdentifierRef<R>, r1: int, k2: archetype::IdentifierRef<R>, r2: int|
            vx_row_in(m2, k1, r1) && vx_row_in(m2, k2, r2) && (k1 != k2 || r1 != r2) implies (#[trigger] m2[k1].ids()[r1]).index != (#[trigger] m2[k2].ids()[r2]).index by {
            let p1 = pre(k1); let p2 = pre(k2);
            assert(vx_row_in(m, p1, r1) && vx_row_in(m, p2, r2));
            assert(f[p1] == k1 && f[p2] == k2);
            assert(p1 != p2 || r1 != r2);
            assert(m[p1].ids()[r1].index != m[p2].ids()[r2].index);
        }
    }
    assert(vx_valid_e(fr, m2)) by {
        assert forall|j: int, k2: archetype::IdentifierRef<R>, r: int| 0 <= j < fr.len() && vx_row_in(m2, k2, r) implies (#[trigger] fr[j]).index != (#[trigger] m2[k2].ids()[r]).index by {
            assert(vx_row_in(m, pre(k2), r));
            assert(fr[j].index != m[pre(k2)].ids()[r].index);
        }
    }
    assert(vx_valid_f(length, fr, m2)) by {
        assert forall|s: int| 0 <= s < length implies #[trigger] vx_covered(s, fr, m2) by {
            assert(vx_covered(s, fr, m));
            if !(exists|j: int| 0 <= j < fr.len() && (#[trigger] fr[j]).index == s) {
                let (k, r) = choose|k: archetype::IdentifierRef<R>, r: int| vx_row_in(m, k, r) && (#[trigger] m[k].ids()[r]).index == s;
                assert(vx_row_in(m2, f[k], r) && m2[f[k]].ids()[r].index == s);
            }
        }
    }
}
// ---- every error exit contradicts validity
pub proof fn lemma_site_free_oob<R: Registry>(length: int, fr: Seq<entity::Identifier>, m: IMap<archetype::IdentifierRef<R>, archetype::Archetype<R>>, j: int)
    requires 0 <= j < fr.len(), fr[j].index >= length,
    ensures !vx_valid_parts(length, fr, m)
{ reveal(vx_valid_parts); if vx_valid_a(length, fr) { assert(fr[j].index < length); } }
pub proof fn lemma_site_free_dup<R: Registry>(length: int, fr: Seq<entity::Identifier>, m: IMap<archetype::IdentifierRef<R>, archetype::Archetype<R>>, j: int, sl: Seq<Option<Slot<R>>>)
    requires 0 <= j < fr.len(), fr[j].index < sl.len(), sl[fr[j].index as int] is Some,
             forall|s: int| 0 <= s < sl.len() && (#[trigger] sl[s]) is Some ==> (exists|j2: int| 0 <= j2 < j && (#[trigger] fr[j2]).index == s),
    ensures !vx_valid_parts(length, fr, m)
{ reveal(vx_valid_parts);
    let j2 = choose|j2: int| 0 <= j2 < j && (#[trigger] fr[j2]).index == fr[j].index as int;
    if vx_valid_b(fr) { assert(fr[j2].index != fr[j].index); }
}
pub proof fn lemma_site_row_oob<R: Registry>(length: int, fr: Seq<entity::Identifier>, m: IMap<archetype::IdentifierRef<R>, archetype::Archetype<R>>, k: archetype::IdentifierRef<R>, r: int)
    requires vx_row_in(m, k, r), m[k].ids()[r].index >= length,
    ensures !vx_valid_parts(length, fr, m)
{ reveal(vx_valid_parts); if vx_valid_c(length, m) { assert(m[k].ids()[r].index < length); } }
pub proof fn lemma_site_row_dup<R: Registry>(length: int, fr: Seq<entity::Identifier>, m: IMap<archetype::IdentifierRef<R>, archetype::Archetype<R>>,
    keys: Seq<archetype::IdentifierRef<R>>, t: int, r: int)
    requires vx_enum(m, keys), 0 <= t < keys.len(), 0 <= r < m[keys[t]].length,
             vx_claimed_by(m[keys[t]].ids()[r].index as int, fr, fr.len() as int, m, keys, t, r),
    ensures !vx_valid_parts(length, fr, m)
{ reveal(vx_valid_parts);
    let s = m[keys[t]].ids()[r].index as int;
    assert(keys.contains(keys[t]));
    assert(vx_row_in(m, keys[t], r));
    if exists|j: int| 0 <= j < fr.len() && (#[trigger] fr[j]).index == s {
        let j = choose|j: int| 0 <= j < fr.len() && (#[trigger] fr[j]).index == s;
        if vx_valid_e(fr, m) { assert(fr[j].index != m[keys[t]].ids()[r].index); }
    } else if exists|j: int, q: int| 0 <= j < t && 0 <= q < m[keys[j]].length && (#[trigger] m[keys[j]].ids()[q]).index == s {
        let (j, q) = choose|j: int, q: int| 0 <= j < t && 0 <= q < m[keys[j]].length && (#[trigger] m[keys[j]].ids()[q]).index == s;
        assert(keys.contains(keys[j]));
        assert(vx_row_in(m, keys[j], q));
        assert(keys[j] != keys[t]);
        if vx_valid_d(m) { assert(m[keys[j]].ids()[q].index != m[keys[t]].ids()[r].index); }
    } else {
        let q = choose|q: int| 0 <= q < r && t < keys.len() && (#[trigger] m[keys[t]].ids()[q]).index == s;
        assert(vx_row_in(m, keys[t], q));
        if vx_valid_d(m) { assert(m[keys[t]].ids()[q].index != m[keys[t]].ids()[r].index); }
    }
}
pub proof fn lemma_site_missing<R: Registry>(length: int, fr: Seq<entity::Identifier>, m: IMap<archetype::IdentifierRef<R>, archetype::Archetype<R>>,
    keys: Seq<archetype::IdentifierRef<R>>, sl: Seq<Option<Slot<R>>>, s: int)
    requires vx_enum(m, keys), sl.len() == length, 0 <= s < length, sl[s] is None,
             vx_free_claimed(sl, fr, fr.len() as int),
             forall|j: int| 0 <= j < keys.len() ==> vx_rows_claimed(sl, #[trigger] m[keys[j]], keys[j], m[keys[j]].length as int),
    ensures !vx_valid_parts(length, fr, m)
{ reveal(vx_valid_parts);
    if vx_valid_f(length, fr, m) {
        assert(vx_covered(s, fr, m));
        if exists|j: int| 0 <= j < fr.len() && (#[trigger] fr[j]).index == s {
            let j = choose|j: int| 0 <= j < fr.len() && (#[trigger] fr[j]).index == s;
            assert(sl[fr[j].index as int] == vx_free_slot::<R>(fr[j]));
        } else {
            let (k, r) = choose|k: archetype::IdentifierRef<R>, r: int| vx_row_in(m, k, r) && (#[trigger] m[k].ids()[r]).index == s;
            assert(keys.contains(k));
            let j = choose|j: int| 0 <= j < keys.len() && keys[j] == k;
            assert(vx_rows_claimed(sl, m[keys[j]], keys[j], m[keys[j]].length as int));
            assert(sl[m[k].ids()[r].index as int] == vx_row_slot(m[k], k, r));
        }
    }
}
/// and an accepted input is valid
pub proof fn lemma_ok_parts_valid<R: Registry>(sl: Seq<Option<Slot<R>>>, fr: Seq<entity::Identifier>,
    m: IMap<archetype::IdentifierRef<R>, archetype::Archetype<R>>, keys: Seq<archetype::IdentifierRef<R>>)
    requires
        vx_enum(m, keys),
        vx_free_claimed(sl, fr, fr.len() as int),
        forall|j: int| 0 <= j < keys.len() ==> vx_rows_claimed(sl, #[trigger] m[keys[j]], keys[j], m[keys[j]].length as int),
        forall|s: int| 0 <= s < sl.len() && (#[trigger] sl[s]) is Some ==> vx_claimed_by(s, fr, fr.len() as int, m, keys, keys.len() as int, 0),
        forall|s: int| 0 <= s < sl.len() ==> (#[trigger] sl[s]) is Some,
    ensures vx_valid_parts(sl.len() as int, fr, m)
{ reveal(vx_valid_parts);
    let length = sl.len() as int;
    assert forall|k: archetype::IdentifierRef<R>, r: int| vx_row_in(m, k, r) implies (#[trigger] m[k].ids()[r]).index < length && sl[m[k].ids()[r].index as int] == vx_row_slot(m[k], k, r) by {
        assert(keys.contains(k));
        let j = choose|j: int| 0 <= j < keys.len() && keys[j] == k;
        assert(vx_rows_claimed(sl, m[keys[j]], keys[j], m[keys[j]].length as int));
    }
    assert(vx_valid_a(length, fr));
    assert(vx_valid_b(fr));
    assert(vx_valid_c(length, m));
    assert(vx_valid_d(m)) by {
        assert forall|k1: archetype::IdentifierRef<R>, r1: int, k2: archetype::IdentifierRef<R>, r2: int|
            vx_row_in(m, k1, r1) && vx_row_in(m, k2, r2) && (k1 != k2 || r1 != r2) implies (#[trigger] m[k1].ids()[r1]).index != (#[trigger] m[k2].ids()[r2]).index by {
            if m[k1].ids()[r1].index == m[k2].ids()[r2].index {
                assert(vx_row_slot(m[k1], k1, r1) == vx_row_slot(m[k2], k2, r2));
                assert(vx_row_slot(m[k1], k1, r1)->0.location->0.identifier == k1);
                assert(vx_row_slot(m[k1], k1, r1)->0.location->0.index == r1 as usize);
            }
        }
    }
    assert(vx_valid_e(fr, m)) by {
        assert forall|j: int, k: archetype::IdentifierRef<R>, r: int| 0 <= j < fr.len() && vx_row_in(m, k, r) implies (#[trigger] fr[j]).index != (#[trigger] m[k].ids()[r]).index by {
            assert(sl[fr[j].index as int] == vx_free_slot::<R>(fr[j]));
        }
    }
    assert(vx_valid_f(length, fr, m)) by {
        assert forall|s: int| 0 <= s < length implies #[trigger] vx_covered(s, fr, m) by {
            assert(sl[s] is Some);
            assert(vx_claimed_by(s, fr, fr.len() as int, m, keys, keys.len() as int, 0));
            if exists|j: int, q: int| 0 <= j < keys.len() && 0 <= q < m[keys[j]].length && (#[trigger] m[keys[j]].ids()[q]).index == s {
                let (j, q) = choose|j: int, q: int| 0 <= j < keys.len() && 0 <= q < m[keys[j]].length && (#[trigger] m[keys[j]].ids()[q]).index == s;
                assert(keys.contains(keys[j]));
                assert(vx_row_in(m, keys[j], q));
            }
        }
    }
}

impl<R> Allocator<R> where R: Registry {
    #[verifier::loop_isolation(false)]
    pub fn from_serialized_parts(length: usize, free: Vec<entity::Identifier>, archetypes: &Archetypes<R>) -> (r: Result<Allocator<R>, VxErr>)
        requires
            archetypes.inv_keyed(),
            vx_tables_wf(archetypes@),
        ensures
            r is Ok ==> r->Ok_0.wf(),
            r is Ok ==> forall|k: archetype::IdentifierRef<R>| archetypes@.dom().contains(k) ==> (#[trigger] archetypes@[k]).agrees(&r->Ok_0),
            r is Ok ==> vx_de_ids_stored(archetypes@, &r->Ok_0),
            r is Ok ==> r->Ok_0.active_count() == vx_total_rows(archetypes@),
            vx_valid_parts(length as int, free@, archetypes@) ==> r is Ok,
            r is Ok ==> vx_valid_parts(length as int, free@, archetypes@),
            r is Ok ==> r->Ok_0.slots@.len() == length,
            r is Ok ==> r->Ok_0.free@.len() == free@.len() && forall|j: int| 0 <= j < free@.len() ==> r->Ok_0.free@[j] == (#[trigger] free@[j]).index,
            r is Ok ==> forall|j: int| 0 <= j < free@.len() ==> (#[trigger] free@[j]).index < length && r->Ok_0.slots@[free@[j].index as int].generation == free@[j].generation,
    {

let ghost vx_m = archetypes@; let ghost vx_fr = free@; let ghost mut vx_c: int = 0; let ghost mut vx_pre = Seq::<Option<Slot<R>>>::empty();

        let mut slots = vx_vec_none::<Slot<R>>(length);
proof { lemma_opt_none(slots@); }

        for entity_identifier in vx_it1: free.iter() 
            invariant
                vx_c == vx_it1.index@,
                slots@.len() == length,
                vx_free_claimed(slots@, vx_fr, vx_c),
                vx_opt_active(slots@) == 0,
                forall|s: int| 0 <= s < slots@.len() && (#[trigger] slots@[s]) is Some ==> (exists|j: int| 0 <= j < vx_c && (#[trigger] vx_fr[j]).index == s),
{
proof { vx_pre = slots@; if entity_identifier.index >= slots@.len() { lemma_site_free_oob(length as int, vx_fr, vx_m, vx_c); } else if slots@[entity_identifier.index as int] is Some { lemma_site_free_dup(length as int, vx_fr, vx_m, vx_c, slots@); } }
            if entity_identifier.index >= slots.len() { return Err(vx_custom_error()); }
            if slots[entity_identifier.index].is_some() { return Err(vx_custom_error()); }
            slots.set(entity_identifier.index, Some(Slot {
                        generation: entity_identifier.generation,
                        location: None,
                    }));
proof {
                let k = vx_c;
                let e = vx_fr[k];
                assert(e == *entity_identifier);
                assert(slots@ == vx_pre.update(e.index as int, vx_free_slot::<R>(e)));
                assert forall|j: int| 0 <= j < k implies (#[trigger] vx_fr[j]).index != e.index by {
                    assert(vx_pre[vx_fr[j].index as int] is Some);
                }
                lemma_opt_claim(vx_pre, e.index as int, vx_free_slot::<R>(e));
                assert(vx_free_claimed(slots@, vx_fr, k + 1));
                assert forall|s: int| 0 <= s < slots@.len() && (#[trigger] slots@[s]) is Some implies (exists|j: int| 0 <= j < k + 1 && (#[trigger] vx_fr[j]).index == s) by {
                    if s == e.index as int { assert(vx_fr[k].index == s); }
                    else {
                        assert(vx_pre[s] is Some);
                        let j = choose|j: int| 0 <= j < k && (#[trigger] vx_fr[j]).index == s;
                        assert(0 <= j < k + 1 && vx_fr[j].index == s);
                    }
                }
                vx_c = vx_c + 1;
            }

        }

        let vx_keys1 = archetypes.raw_archetypes.vx_keys(); let vx_n1 = archetypes.raw_archetypes.vx_len(vx_keys1); let mut vx_i1: usize = 0;
proof { assert(vx_keys1@.take(0).len() == 0); }
 while vx_i1 < vx_n1 
            invariant
                vx_i1 <= vx_n1 && vx_n1 == vx_keys1@.len(),
                slots@.len() == length,
                vx_free_claimed(slots@, vx_fr, vx_fr.len() as int),
                forall|j: int| 0 <= j < vx_i1 ==> vx_rows_claimed(slots@, #[trigger] vx_m[vx_keys1@[j]], vx_keys1@[j], vx_m[vx_keys1@[j]].length as int),
                vx_opt_active(slots@) == vx_sum_keys(vx_m, vx_keys1@.take(vx_i1 as int)),
                forall|s: int| 0 <= s < slots@.len() && (#[trigger] slots@[s]) is Some ==> vx_claimed_by(s, vx_fr, vx_fr.len() as int, vx_m, vx_keys1@, vx_i1 as int, 0),
            decreases vx_n1 - vx_i1
{
 let archetype = archetypes.raw_archetypes.vx_nth(vx_i1, vx_keys1);
proof { assert(vx_keys1@.contains(vx_keys1@[vx_i1 as int])); assert(vx_m.dom().contains(vx_keys1@[vx_i1 as int])); assert(archetype.wf()); }


            let mut i: usize = 0;
 while i < archetype.length 
            invariant
                i <= archetype.length && vx_i1 < vx_n1 && *archetype == vx_m[vx_keys1@[vx_i1 as int]],
                slots@.len() == length,
                vx_free_claimed(slots@, vx_fr, vx_fr.len() as int),
                forall|j: int| 0 <= j < vx_i1 ==> vx_rows_claimed(slots@, #[trigger] vx_m[vx_keys1@[j]], vx_keys1@[j], vx_m[vx_keys1@[j]].length as int),
                vx_rows_claimed(slots@, vx_m[vx_keys1@[vx_i1 as int]], vx_keys1@[vx_i1 as int], i as int),
                vx_opt_active(slots@) == vx_sum_keys(vx_m, vx_keys1@.take(vx_i1 as int)) + i,
                forall|s: int| 0 <= s < slots@.len() && (#[trigger] slots@[s]) is Some ==> vx_claimed_by(s, vx_fr, vx_fr.len() as int, vx_m, vx_keys1@, vx_i1 as int, i as int),
            decreases archetype.length - i
{
 let entity_identifier = &archetype.entity_identifiers[i];

proof { vx_pre = slots@; assert(vx_keys1@.contains(vx_keys1@[vx_i1 as int])); assert(vx_m.dom().contains(vx_keys1@[vx_i1 as int])); assert(archetype.wf()); assert(archetype.ids()[i as int] == archetype.entity_identifiers@[i as int]); assert(vx_row_in(vx_m, vx_keys1@[vx_i1 as int], i as int)); if entity_identifier.index >= slots@.len() { lemma_site_row_oob(length as int, vx_fr, vx_m, vx_keys1@[vx_i1 as int], i as int); } else if slots@[entity_identifier.index as int] is Some { lemma_site_row_dup(length as int, vx_fr, vx_m, vx_keys1@, vx_i1 as int, i as int); } }
                if entity_identifier.index >= slots.len() { return Err(vx_custom_error()); }
            if slots[entity_identifier.index].is_some() { return Err(vx_custom_error()); }
            slots.set(entity_identifier.index, Some(Slot {
                            generation: entity_identifier.generation,
                            location: Some(Location {

                                identifier: unsafe { archetype.identifier() },
                                index: i,
                            }),
                        }));
            
proof {
                assert(vx_m[vx_keys1@[vx_i1 as int]].ids()[i as int] == *entity_identifier);
                assert(vx_m[vx_keys1@[vx_i1 as int]].key() == vx_keys1@[vx_i1 as int]);
                lemma_de_row(vx_pre, slots@, vx_fr, vx_m, vx_keys1@, vx_i1 as int, i as int);
            }
 i += 1;
 }
        
proof {
            // table t is done: its rows move from the "current table" disjunct to the "earlier tables" one
            let t = vx_i1 as int;
            let tb = vx_m[vx_keys1@[t]];
            assert(i == tb.length);
            lemma_sum_take_step(vx_m, vx_keys1@, t);
            assert forall|s: int| 0 <= s < slots@.len() && (#[trigger] slots@[s]) is Some implies vx_claimed_by(s, vx_fr, vx_fr.len() as int, vx_m, vx_keys1@, t + 1, 0) by {
                assert(vx_claimed_by(s, vx_fr, vx_fr.len() as int, vx_m, vx_keys1@, t, tb.length as int));
                if exists|q: int| 0 <= q < tb.length && t < vx_keys1@.len() && (#[trigger] vx_m[vx_keys1@[t]].ids()[q]).index == s {
                    let q = choose|q: int| 0 <= q < tb.length && t < vx_keys1@.len() && (#[trigger] vx_m[vx_keys1@[t]].ids()[q]).index == s;
                    assert(0 <= t < t + 1 && 0 <= q < vx_m[vx_keys1@[t]].length && vx_m[vx_keys1@[t]].ids()[q].index == s);
                }
                if exists|j: int, q: int| 0 <= j < t && 0 <= q < vx_m[vx_keys1@[j]].length && (#[trigger] vx_m[vx_keys1@[j]].ids()[q]).index == s {
                    let (j, q) = choose|j: int, q: int| 0 <= j < t && 0 <= q < vx_m[vx_keys1@[j]].length && (#[trigger] vx_m[vx_keys1@[j]].ids()[q]).index == s;
                    assert(0 <= j < t + 1 && 0 <= q < vx_m[vx_keys1@[j]].length && vx_m[vx_keys1@[j]].ids()[q].index == s);
                }
            }
        }
 vx_i1 += 1;
 }

        let mut i: usize = 0;
 while i < slots.len() 
            invariant
                i <= slots@.len(),
                forall|s: int| 0 <= s < i ==> (#[trigger] slots@[s]) is Some,
            decreases slots@.len() - i
{
 let slot = &slots[i];

proof { if slots@[i as int] is None { lemma_site_missing(length as int, vx_fr, vx_m, vx_keys1@, slots@, i as int); } }
            if slot.is_none() {
                return Err(vx_custom_error());
            }
        
 i += 1;
 }
        let ghost vx_sl = slots@; let ghost vx_fr = free@;
        let mut vx_slots: Vec<Slot<R>> = Vec::new();
proof { vx_c = 0; }

        for slot in vx_it4: slots 
            invariant
                vx_c == vx_it4.index@ && vx_it4.seq() == vx_sl,
                vx_slots@.len() == vx_c && forall|s: int| 0 <= s < vx_c ==> (#[trigger] vx_slots@[s]) == vx_sl[s]->0,
{ vx_slots.push(slot.unwrap());
proof { vx_c = vx_c + 1; }
 }
        let mut vx_free: VecDeque<usize> = VecDeque::new();
proof { vx_c = 0; }

        for entity_identifier in vx_it5: free 
            invariant
                vx_c == vx_it5.index@ && vx_it5.seq() == vx_fr,
                vx_free@.len() == vx_c && forall|j: int| 0 <= j < vx_c ==> (#[trigger] vx_free@[j]) == vx_fr[j].index,
{ vx_free.push_back(entity_identifier.index);
proof { vx_c = vx_c + 1; }
 }
proof {
            assert(vx_keys1@.take(vx_keys1@.len() as int) =~= vx_keys1@);
            lemma_de_end(vx_sl, vx_fr, vx_m, vx_keys1@, Allocator::<R> { slots: vx_slots, free: vx_free });
            lemma_ok_parts_valid(vx_sl, vx_fr, vx_m, vx_keys1@);
        }
        Ok(Self { slots: vx_slots, free: vx_free })
    
    }

}

} // verus!
fn main() {}
