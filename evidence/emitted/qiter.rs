// GENERATED on every run by /verif/vx from the working tree of the repository. Do not edit.
#![feature(allocator_api)]
#![allow(unused_imports, unused_variables, unused_mut, dead_code, unused_unsafe, unused_parens, unused_braces)]
use vstd::prelude::*;
verus! {

use std::collections::VecDeque;
use core::ops::Range;
use std::marker::PhantomData;

// ---- assumed std specs (assumption A1) -------------------------------------------------
pub uninterp spec fn vx_range_is_empty<Idx>(r: Range<Idx>) -> bool;
pub assume_specification<Idx> [Range::<Idx>::is_empty] (r: &Range<Idx>) -> (b: bool)
    where Idx: std::cmp::PartialOrd + std::cmp::PartialOrd,
    ensures b == vx_range_is_empty(*r);
#[verifier::external_body]
pub proof fn vx_axiom_range_is_empty_usize(r: Range<usize>)
    ensures vx_range_is_empty(r) == !(r.start < r.end) {}

pub assume_specification<T, A> [VecDeque::<T, A>::shrink_to_fit] (v: &mut VecDeque<T, A>)
    where A: std::alloc::Allocator,
    ensures final(v)@ == old(v)@;

pub assume_specification<T, A> [Vec::<T, A>::shrink_to_fit] (v: &mut Vec<T, A>)
    where A: std::alloc::Allocator,
    ensures final(v)@ == old(v)@;

// R2b: unreachable_unchecked() becomes a call that must be proved unreachable.
#[verifier::external_body]
pub fn vx_unreachable() -> !
    requires false
{
    unreachable!()
}


pub trait Registry {}


pub mod archetype {
    use super::*;
    // R7: archetype::IdentifierRef<R> is an opaque, copyable token (a pointer into the buffer
    // owned by the archetype); equality of tokens is equality of the abstract archetype key.
    #[verifier::external_body]
    #[verifier::accept_recursive_types(R)]
    pub struct IdentifierRef<R: Registry> { p: PhantomData<R> }
    impl<R: Registry> Clone for IdentifierRef<R> {
        #[verifier::external_body]
        fn clone(&self) -> (r: Self) ensures r == *self { unimplemented!() }
    }
    impl<R: Registry> Copy for IdentifierRef<R> {}


    // ---- R7: the owning identifier buffer is opaque; `as_ref` yields its token --------------
    #[verifier::external_body]
    #[verifier::accept_recursive_types(R)]
    pub struct Identifier<R: Registry> { p: PhantomData<R> }
    pub mod identifier {
        use super::*;
        #[verifier::external_body]
        #[verifier::accept_recursive_types(R)]
        pub struct Iter<R: Registry> { p: PhantomData<R> }
    }
    impl<R: Registry> Identifier<R> {
        pub uninterp spec fn spec_ref(&self) -> IdentifierRef<R>;
        /// the bytes of the buffer (K-bits: `as_slice`, `iter`)
        pub uninterp spec fn spec_bits(&self) -> Seq<u8>;
        #[verifier::external_body]
        pub unsafe fn new(bytes: Vec<u8>) -> (r: Self) ensures r.spec_bits() == bytes@ { unimplemented!() }
        #[verifier::external_body]
        pub unsafe fn as_ref(&self) -> (r: IdentifierRef<R>) ensures r == self.spec_ref() { unimplemented!() }
        #[verifier::external_body]
        pub unsafe fn iter(&self) -> (r: identifier::Iter<R>) { unimplemented!() }
        #[verifier::external_body]
        pub fn count(&self) -> (r: usize) { unimplemented!() }
        #[verifier::external_body]
        pub fn size_of_components(&self) -> (r: usize) { unimplemented!() }
    }

    // ---- R6: type-erased columns.  One abstract row per entity. ------------------------------
    #[verifier::external_body]
    pub struct VxRow { p: PhantomData<u8> }
    #[verifier::external_body]
    pub struct VxColumns { p: PhantomData<u8> }
    impl VxColumns {
        pub uninterp spec fn view(&self) -> Seq<VxRow>;
        #[verifier::external_body]
        pub fn vx_with_capacity(n: usize) -> (r: VxColumns) ensures r@.len() == 0 { unimplemented!() }
    }
    pub uninterp spec fn vx_entity_row<E>(e: E) -> VxRow;
    pub uninterp spec fn vx_batch_rows<E>(e: E) -> Seq<VxRow>;
    pub uninterp spec fn vx_row_set<C>(row: VxRow, c: C) -> VxRow;
    pub uninterp spec fn vx_row_add<C>(row: VxRow, c: C) -> VxRow;
    pub uninterp spec fn vx_row_remove<C>(row: VxRow, c: PhantomData<C>) -> VxRow;
    pub uninterp spec fn vx_buffer_row(bytes: Seq<u8>) -> VxRow;
    pub uninterp spec fn vx_ptr_row(p: *const u8) -> VxRow;
    /// R6b: the pointer handed to push_from_buffer_* denotes the packed row held by the Vec
    #[verifier::external_body]
    pub fn vx_as_ptr(v: &Vec<u8>) -> (p: *const u8) ensures vx_ptr_row(p) == vx_buffer_row(v@) { unimplemented!() }

    pub open spec fn vx_swap_remove<T>(s: Seq<T>, i: int) -> Seq<T> {
        if i == s.len() - 1 { s.drop_last() } else { s.update(i, s.last()).drop_last() }
    }

    // R4: `Vec::from_raw_parts(ptr, L, cap)` over a buffer holding >= L initialised elements is
    // the vector of the first L of them.
    pub fn vx_raw_vec_len<T>(v: &mut Vec<T>, len: usize)
        requires old(v)@.len() >= len,
        ensures final(v)@ == old(v)@.take(len as int),
    {
        v.truncate(len);
        proof { assert(v@ =~= old(v)@.take(len as int)); }
    }

    #[verifier::external_body]
    pub unsafe fn vx_new_components_with_capacity<R: Registry>(components: &mut VxColumns, capacity: usize, it: identifier::Iter<R>)
        ensures final(components)@.len() == 0 { unimplemented!() }
    #[verifier::external_body]
    pub unsafe fn vx_push_components<E>(entity: E, components: &mut VxColumns, length: usize)
        requires old(components)@.len() == length,
        ensures final(components)@ == old(components)@.push(vx_entity_row(entity)) { unimplemented!() }
    #[verifier::external_body]
    pub fn vx_component_len<E>(entities: &E) -> (n: usize)
        ensures n == vx_batch_rows(*entities).len() { unimplemented!() }
    #[verifier::external_body]
    pub unsafe fn vx_extend_components<E>(entities: E, components: &mut VxColumns, length: usize)
        requires old(components)@.len() == length,
        ensures final(components)@ == old(components)@ + vx_batch_rows(entities) { unimplemented!() }
    #[verifier::external_body]
    pub unsafe fn vx_set_component<R: Registry, C>(index: usize, component: C, components: &mut VxColumns, length: usize, it: identifier::Iter<R>)
        requires old(components)@.len() == length, index < length,
        ensures final(components)@ == old(components)@.update(index as int, vx_row_set(old(components)@[index as int], component)) { unimplemented!() }
    #[verifier::external_body]
    pub unsafe fn vx_remove_component_row<R: Registry>(index: usize, components: &mut VxColumns, length: usize, it: identifier::Iter<R>)
        requires old(components)@.len() == length, index < length,
        ensures final(components)@ == vx_swap_remove(old(components)@, index as int) { unimplemented!() }
    #[verifier::external_body]
    pub unsafe fn vx_pop_component_row<R: Registry>(index: usize, bytes: &mut Vec<u8>, components: &mut VxColumns, length: usize, it: identifier::Iter<R>)
        requires old(components)@.len() == length, index < length,
        ensures final(components)@ == vx_swap_remove(old(components)@, index as int),
                vx_buffer_row(final(bytes)@) == old(components)@[index as int] { unimplemented!() }
    #[verifier::external_body]
    pub unsafe fn vx_push_components_from_buffer_and_component<R: Registry, C>(buffer: *const u8, component: C, components: &mut VxColumns, length: usize, it: identifier::Iter<R>)
        requires old(components)@.len() == length,
        ensures final(components)@ == old(components)@.push(vx_row_add(vx_ptr_row(buffer), component)) { unimplemented!() }
    #[verifier::external_body]
    pub unsafe fn vx_push_components_from_buffer_skipping_component<R: Registry, C>(buffer: *const u8, component: PhantomData<C>, components: &mut VxColumns, length: usize, it: identifier::Iter<R>)
        requires old(components)@.len() == length,
        ensures final(components)@ == old(components)@.push(vx_row_remove(vx_ptr_row(buffer), component)) { unimplemented!() }
    #[verifier::external_body]
    pub unsafe fn vx_clear_components<R: Registry>(components: &mut VxColumns, length: usize, it: identifier::Iter<R>)
        requires old(components)@.len() == length,
        ensures final(components)@.len() == 0 { unimplemented!() }
    #[verifier::external_body]
    pub unsafe fn vx_shrink_components_to_fit<R: Registry>(components: &mut VxColumns, length: usize, it: identifier::Iter<R>)
        requires old(components)@.len() == length,
        ensures final(components)@ == old(components)@ { unimplemented!() }
    #[verifier::external_body]
    pub unsafe fn vx_reserve_components(components: &mut VxColumns, length: usize, additional: usize)
        requires old(components)@.len() == length,
        ensures final(components)@ == old(components)@ { unimplemented!() }

pub struct Archetype<R>
where
    R: Registry, {
    pub identifier: Identifier<R>,

    pub entity_identifiers: Vec<entity::Identifier>,
    pub components: VxColumns,
    pub length: usize,
}


    impl<R: Registry> Archetype<R> {
        pub open spec fn key(&self) -> IdentifierRef<R> { self.identifier.spec_ref() }
        /// the entity identifier column: the first `length` elements of the raw buffer
        pub open spec fn ids(&self) -> Seq<entity::Identifier> { self.entity_identifiers@.take(self.length as int) }
        pub open spec fn rows(&self) -> Seq<VxRow> { self.components@ }
        pub open spec fn wf(&self) -> bool {
            self.entity_identifiers@.len() >= self.length && self.components@.len() == self.length
        }
        /// C13 / C02: every stored row is reachable through exactly the identifier attached to
        /// it: that identifier resolves, to (this table, that row)
        pub open spec fn agrees(&self, a: &Allocator<R>) -> bool {
            forall|r: int| 0 <= r < self.length ==> a.resolves(#[trigger] self.ids()[r])
                && a.view()[self.ids()[r]] == (Location { identifier: self.key(), index: r as usize })
        }
        /// the identifier of the last row (the one a swap-remove moves) is live
        pub proof fn lemma_last_resolves(&self, a: &Allocator<R>)
            requires self.agrees(a), self.wf(), self.length > 0,
            ensures a.resolves(self.entity_identifiers@.take(self.length as int).last()),
                    a.resolves(self.entity_identifiers@[self.length - 1]),
        {
            assert(self.ids()[self.length - 1] == self.entity_identifiers@[self.length - 1]);
        }
        pub proof fn lemma_ids_distinct(&self, a: &Allocator<R>)
            requires self.agrees(a), self.wf(),
            ensures forall|r: int, q: int| 0 <= r < q < self.length ==> self.ids()[r] != self.ids()[q],
        {
            assert forall|r: int, q: int| 0 <= r < q < self.length implies self.ids()[r] != self.ids()[q] by {
                assert(a.view()[self.ids()[r]].index == r as usize);
                assert(a.view()[self.ids()[q]].index == q as usize);
            }
        }
    }

impl<R> Archetype<R> where R: Registry {
    pub fn new(identifier: Identifier<R>) -> (r: Self)
        ensures
            r.wf(),
            r.length == 0 && r.ids().len() == 0 && r.rows().len() == 0,
            r.key() == identifier.spec_ref(),
    {

        let mut entity_identifiers = Vec::new();

        let components_len = identifier.count();
        let mut components = VxColumns::vx_with_capacity(components_len);

        unsafe {
            vx_new_components_with_capacity(&mut components, 0, identifier.iter());
        }

        unsafe {
            Self::from_raw_parts(
                identifier,
                entity_identifiers,
                components,
                0,
            )
        }
    
    }

    pub unsafe fn from_raw_parts(identifier: Identifier<R>, entity_identifiers: Vec<entity::Identifier>, components: VxColumns, length: usize) -> (r: Self)
        ensures
            r.identifier == identifier && r.entity_identifiers == entity_identifiers && r.components == components && r.length == length,
    {

        Self {
            identifier,

            entity_identifiers,
            components,
            length,
        }
    
    }

    pub unsafe fn push<E>(&mut self, entity: E, entity_allocator: &mut Allocator<R>,) -> (id: entity::Identifier)
        requires
            old(self).wf(),
            old(entity_allocator).wf(),
            old(self).agrees(old(entity_allocator)),
            old(self).length < usize::MAX,
        ensures
            final(self).wf(),
            final(self).key() == old(self).key(),
            final(entity_allocator).wf_free_in_bounds(),
            final(entity_allocator).wf_free_inactive(),
            final(entity_allocator).wf_free_distinct(),
            final(entity_allocator).wf_free_complete(),
            final(self).agrees(final(entity_allocator)),
            final(self).length == old(self).length + 1,
            final(self).ids() == old(self).ids().push(id),
            final(self).rows() == old(self).rows().push(vx_entity_row(entity)),
            final(entity_allocator).active_count() == old(entity_allocator).active_count() + 1,
            Allocator::allocate_post(old(entity_allocator), final(entity_allocator), Location { identifier: old(self).key(), index: old(self).length }, id),
    {

let ghost vx_self0 = *self; let ghost vx_alloc0 = *entity_allocator;


        unsafe { vx_push_components(entity, &mut self.components, self.length) };

        let entity_identifier = entity_allocator.allocate(Location {
            identifier:

                unsafe { self.identifier.as_ref() },
            index: self.length,
        });

        vx_raw_vec_len(&mut self.entity_identifiers, self.length);
        self.entity_identifiers.push(entity_identifier);
        /* R4: write-back of self.entity_identifiers dropped */

        self.length += 1;

proof {
            assert(self.ids() =~= vx_self0.ids().push(entity_identifier));
            assert forall|r: int| 0 <= r < self.length implies entity_allocator.resolves(#[trigger] self.ids()[r])
                && entity_allocator.view()[self.ids()[r]] == (Location { identifier: self.key(), index: r as usize }) by {
                if r < vx_self0.length {
                    assert(self.ids()[r] == vx_self0.ids()[r]);
                    assert(vx_alloc0.resolves(vx_self0.ids()[r]));
                    assert(vx_alloc0.view().dom().contains(vx_self0.ids()[r]));
                }
            }
        }
        entity_identifier

    }

    pub unsafe fn extend<E>(&mut self, entities: entities::Batch<E>, entity_allocator: &mut Allocator<R>,) -> (ids: Vec<entity::Identifier>)
        requires
            old(self).wf(),
            old(entity_allocator).wf(),
            old(self).agrees(old(entity_allocator)),
            old(self).length + vx_batch_rows(entities.entities).len() <= usize::MAX,
            old(entity_allocator).slots@.len() + vx_batch_rows(entities.entities).len() <= usize::MAX,
        ensures
            final(self).wf(),
            final(self).key() == old(self).key(),
            final(entity_allocator).wf_free_in_bounds(),
            final(entity_allocator).wf_free_inactive(),
            final(entity_allocator).wf_free_distinct(),
            final(entity_allocator).wf_free_complete(),
            final(self).agrees(final(entity_allocator)),
            final(self).length == old(self).length + vx_batch_rows(entities.entities).len(),
            final(self).ids() == old(self).ids() + ids@,
            final(self).rows() == old(self).rows() + vx_batch_rows(entities.entities),
            ids@.len() == vx_batch_rows(entities.entities).len(),
            final(entity_allocator).active_count() == old(entity_allocator).active_count() + ids@.len(),
            forall|k: int| 0 <= k < ids@.len() ==> !old(entity_allocator).resolves(#[trigger] ids@[k]),
            forall|i: entity::Identifier| old(entity_allocator).resolves(i) ==> final(entity_allocator).resolves(i) && final(entity_allocator).view()[i] == old(entity_allocator).view()[i],
            forall|i: entity::Identifier| final(entity_allocator).resolves(i) == (old(entity_allocator).resolves(i) || ids@.contains(i)),
    {

let ghost vx_self0 = *self; let ghost vx_alloc0 = *entity_allocator;

        let component_len = vx_component_len(&entities.entities);

        unsafe {
            vx_extend_components(entities.entities, &mut self.components, self.length);
        }

        let entity_identifiers = entity_allocator.allocate_batch(Locations::new(
            self.length..(self.length + component_len),

            unsafe { self.identifier.as_ref() },
        ));

        vx_raw_vec_len(&mut self.entity_identifiers, self.length);
let ghost vx_mid = *self; proof { assert(self.entity_identifiers@ =~= vx_self0.ids() + entity_identifiers@.take(0)); }

        { let mut vx_i: usize = 0; while vx_i < entity_identifiers.len() 
            invariant
                vx_i <= entity_identifiers@.len(),
                self.entity_identifiers@ == vx_self0.ids() + entity_identifiers@.take(vx_i as int),
                self.length == vx_self0.length && self.components == vx_mid.components && self.identifier == vx_self0.identifier,
            decreases entity_identifiers@.len() - vx_i
{
 self.entity_identifiers.push(entity_identifiers[vx_i]);
 vx_i += 1;
 } }
        /* R4: write-back of self.entity_identifiers dropped */

        self.length += component_len;

proof {
            assert(entity_identifiers@.take(entity_identifiers@.len() as int) =~= entity_identifiers@);
            assert(self.ids() =~= vx_self0.ids() + entity_identifiers@);
            assert forall|r: int| 0 <= r < self.length implies entity_allocator.resolves(#[trigger] self.ids()[r])
                && entity_allocator.view()[self.ids()[r]] == (Location { identifier: self.key(), index: r as usize }) by {
                if r < vx_self0.length {
                    assert(self.ids()[r] == vx_self0.ids()[r]);
                    assert(vx_alloc0.resolves(vx_self0.ids()[r]));
                } else {
                    let k = r - vx_self0.length;
                    assert(self.ids()[r] == entity_identifiers@[k]);
                }
            }
        }
        entity_identifiers

    }

    pub unsafe fn set_component_unchecked<C>(&mut self, index: usize, component: C)
        requires
            old(self).wf(),
            index < old(self).length,
        ensures
            final(self).wf(),
            final(self).key() == old(self).key(),
            final(self).rows() == old(self).rows().update(index as int, vx_row_set(old(self).rows()[index as int], component)),
            final(self).ids() == old(self).ids() && final(self).length == old(self).length,
    {


        unsafe {
            vx_set_component(
                index,
                component,
                &mut self.components,
                self.length,
                self.identifier.iter(),
            );
        }
    
    }

    pub unsafe fn remove_row_unchecked(&mut self, index: usize, entity_allocator: &mut Allocator<R>,)
        requires
            old(self).wf(),
            old(entity_allocator).wf(),
            old(self).agrees(old(entity_allocator)),
            index < old(self).length,
        ensures
            final(self).wf(),
            final(self).key() == old(self).key(),
            final(entity_allocator).wf_free_in_bounds(),
            final(entity_allocator).wf_free_inactive(),
            final(entity_allocator).wf_free_distinct(),
            final(entity_allocator).wf_free_complete(),
            final(self).length == old(self).length - 1,
            final(self).ids() == vx_swap_remove(old(self).ids(), index as int),
            final(self).rows() == vx_swap_remove(old(self).rows(), index as int),
            final(self).agrees(final(entity_allocator)),
            forall|i: entity::Identifier| #![trigger final(entity_allocator).resolves(i)] #![trigger old(entity_allocator).resolves(i)] (final(entity_allocator).resolves(i) == old(entity_allocator).resolves(i)) && (old(entity_allocator).resolves(i) && !(index < old(self).length - 1 && i == old(self).ids().last()) ==> final(entity_allocator).view()[i] == old(entity_allocator).view()[i]),
            final(entity_allocator).view() == (if index < old(self).length - 1 { old(entity_allocator).view().insert(old(self).ids().last(), Location { identifier: old(self).key(), index: index }) } else { old(entity_allocator).view() }),
            final(entity_allocator).active_count() == old(entity_allocator).active_count(),
            final(entity_allocator).free@ == old(entity_allocator).free@,
            final(entity_allocator).slots@.len() == old(entity_allocator).slots@.len(),
            forall|s: int| 0 <= s < old(entity_allocator).slots@.len() ==> (#[trigger] final(entity_allocator).slots@[s]).generation == old(entity_allocator).slots@[s].generation,
    {

let ghost vx_self0 = *self; let ghost vx_alloc0 = *entity_allocator; proof { vx_self0.lemma_ids_distinct(&vx_alloc0); vx_self0.lemma_last_resolves(&vx_alloc0); }


        unsafe {
            vx_remove_component_row(index, &mut self.components, self.length, self.identifier.iter());
        }

        vx_raw_vec_len(&mut self.entity_identifiers, self.length);

        if index < self.length - 1 {

            unsafe {
                entity_allocator.modify_location_index_unchecked(
                    *self.entity_identifiers.last().unwrap(),
                    index,
                );
            }
        }
        self.entity_identifiers.swap_remove(index);

        self.length -= 1;
proof {
            let len = vx_self0.length as int;
            let idx = index as int;
            vx_self0.lemma_ids_distinct(&vx_alloc0);
            assert(self.ids() =~= vx_swap_remove(vx_self0.ids(), idx));
            assert forall|r: int| 0 <= r < self.length implies entity_allocator.resolves(#[trigger] self.ids()[r])
                && entity_allocator.view()[self.ids()[r]] == (Location { identifier: self.key(), index: r as usize }) by {
                if r == idx {
                    assert(self.ids()[r] == vx_self0.ids()[len - 1]);
                } else {
                    assert(self.ids()[r] == vx_self0.ids()[r]);
                    assert(vx_self0.ids()[r] != vx_self0.ids()[len - 1]);
                    assert(vx_alloc0.view().dom().contains(vx_self0.ids()[r]));
                }
            }
        }

    }

    pub unsafe fn pop_row_unchecked(&mut self, index: usize, entity_allocator: &mut Allocator<R>,) -> (r: (entity::Identifier, Vec<u8>))
        requires
            old(self).wf(),
            old(entity_allocator).wf(),
            old(self).agrees(old(entity_allocator)),
            index < old(self).length,
        ensures
            final(self).wf(),
            final(self).key() == old(self).key(),
            final(entity_allocator).wf_free_in_bounds(),
            final(entity_allocator).wf_free_inactive(),
            final(entity_allocator).wf_free_distinct(),
            final(entity_allocator).wf_free_complete(),
            final(self).length == old(self).length - 1,
            final(self).ids() == vx_swap_remove(old(self).ids(), index as int),
            final(self).rows() == vx_swap_remove(old(self).rows(), index as int),
            r.0 == old(self).ids()[index as int] && vx_buffer_row(r.1@) == old(self).rows()[index as int],
            final(self).agrees(final(entity_allocator)),
            forall|i: entity::Identifier| #![trigger final(entity_allocator).resolves(i)] #![trigger old(entity_allocator).resolves(i)] (final(entity_allocator).resolves(i) == old(entity_allocator).resolves(i)) && (old(entity_allocator).resolves(i) && !(index < old(self).length - 1 && i == old(self).ids().last()) ==> final(entity_allocator).view()[i] == old(entity_allocator).view()[i]),
            final(entity_allocator).view() == (if index < old(self).length - 1 { old(entity_allocator).view().insert(old(self).ids().last(), Location { identifier: old(self).key(), index: index }) } else { old(entity_allocator).view() }),
            final(entity_allocator).active_count() == old(entity_allocator).active_count(),
            final(entity_allocator).free@ == old(entity_allocator).free@,
            final(entity_allocator).slots@.len() == old(entity_allocator).slots@.len(),
            forall|s: int| 0 <= s < old(entity_allocator).slots@.len() ==> (#[trigger] final(entity_allocator).slots@[s]).generation == old(entity_allocator).slots@[s].generation,
    {

let ghost vx_self0 = *self; let ghost vx_alloc0 = *entity_allocator; proof { vx_self0.lemma_ids_distinct(&vx_alloc0); vx_self0.lemma_last_resolves(&vx_alloc0); }

        let size_of_components = self.identifier.size_of_components();
        let mut bytes: Vec<u8> = Vec::with_capacity(size_of_components);

        unsafe {
            vx_pop_component_row(
                index,
                &mut bytes,
                &mut self.components,
                self.length,
                self.identifier.iter(),
            );
        }

        

        vx_raw_vec_len(&mut self.entity_identifiers, self.length);

        if index < self.length - 1 {

            unsafe {
                entity_allocator.modify_location_index_unchecked(
                    *self.entity_identifiers.last().unwrap(),
                    index,
                );
            }
        }
        let entity_identifier = self.entity_identifiers.swap_remove(index);

        self.length -= 1;

proof {
            let len = vx_self0.length as int;
            let idx = index as int;
            vx_self0.lemma_ids_distinct(&vx_alloc0);
            assert(self.ids() =~= vx_swap_remove(vx_self0.ids(), idx));
            assert forall|r: int| 0 <= r < self.length implies entity_allocator.resolves(#[trigger] self.ids()[r])
                && entity_allocator.view()[self.ids()[r]] == (Location { identifier: self.key(), index: r as usize }) by {
                if r == idx {
                    assert(self.ids()[r] == vx_self0.ids()[len - 1]);
                } else {
                    assert(self.ids()[r] == vx_self0.ids()[r]);
                    assert(vx_self0.ids()[r] != vx_self0.ids()[len - 1]);
                    assert(vx_alloc0.view().dom().contains(vx_self0.ids()[r]));
                }
            }
        }
        (entity_identifier, bytes)

    }

    pub unsafe fn push_from_buffer_and_component<C>(&mut self, entity_identifier: entity::Identifier, buffer: *const u8, component: C,) -> (r: usize)
        requires
            old(self).wf(),
            old(self).length < usize::MAX,
        ensures
            final(self).wf(),
            final(self).key() == old(self).key(),
            r == old(self).length,
            final(self).length == old(self).length + 1,
            final(self).ids() == old(self).ids().push(entity_identifier),
            final(self).rows() == old(self).rows().push(vx_row_add(vx_ptr_row(buffer), component)),
    {

let ghost vx_self0 = *self;


        unsafe {
            vx_push_components_from_buffer_and_component(
                buffer,
                component,
                &mut self.components,
                self.length,
                self.identifier.iter(),
            );
        }

        vx_raw_vec_len(&mut self.entity_identifiers, self.length);
        self.entity_identifiers.push(entity_identifier);
        /* R4: write-back of self.entity_identifiers dropped */

        self.length += 1;

proof { assert(self.ids() =~= vx_self0.ids().push(entity_identifier)); }
        self.length - 1

    }

    pub unsafe fn push_from_buffer_skipping_component<C>(&mut self, entity_identifier: entity::Identifier, buffer: *const u8,) -> (r: usize)
        requires
            old(self).wf(),
            old(self).length < usize::MAX,
        ensures
            final(self).wf(),
            final(self).key() == old(self).key(),
            r == old(self).length,
            final(self).length == old(self).length + 1,
            final(self).ids() == old(self).ids().push(entity_identifier),
            final(self).rows() == old(self).rows().push(vx_row_remove(vx_ptr_row(buffer), PhantomData::<C>)),
    {

let ghost vx_self0 = *self;


        unsafe {
            vx_push_components_from_buffer_skipping_component(
                buffer,
                PhantomData::<C>,
                &mut self.components,
                self.length,
                self.identifier.iter(),
            );
        }

        vx_raw_vec_len(&mut self.entity_identifiers, self.length);
        self.entity_identifiers.push(entity_identifier);
        /* R4: write-back of self.entity_identifiers dropped */

        self.length += 1;

proof { assert(self.ids() =~= vx_self0.ids().push(entity_identifier)); }
        self.length - 1

    }

    pub unsafe fn clear(&mut self, entity_allocator: &mut Allocator<R>)
        requires
            old(self).wf(),
            old(entity_allocator).wf(),
            old(self).agrees(old(entity_allocator)),
        ensures
            final(self).wf(),
            final(self).key() == old(self).key(),
            final(entity_allocator).wf_free_in_bounds(),
            final(entity_allocator).wf_free_inactive(),
            final(entity_allocator).wf_free_distinct(),
            final(entity_allocator).wf_free_complete(),
            final(self).length == 0 && final(self).rows().len() == 0 && final(self).ids().len() == 0,
            forall|k: int| 0 <= k < old(self).length ==> !final(entity_allocator).resolves(#[trigger] old(self).ids()[k]),
            forall|i: entity::Identifier| final(entity_allocator).resolves(i) == (old(entity_allocator).resolves(i) && !old(self).ids().contains(i)),
            forall|i: entity::Identifier| final(entity_allocator).resolves(i) ==> final(entity_allocator).view()[i] == old(entity_allocator).view()[i],
            final(entity_allocator).active_count() + old(self).length == old(entity_allocator).active_count(),
            final(entity_allocator).slots@.len() == old(entity_allocator).slots@.len(),
            forall|s: int| 0 <= s < old(entity_allocator).slots@.len() ==> (#[trigger] final(entity_allocator).slots@[s]).generation == old(entity_allocator).slots@[s].generation,
    {

let ghost vx_self0 = *self; let ghost vx_alloc0 = *entity_allocator; proof { vx_self0.lemma_ids_distinct(&vx_alloc0); }


        unsafe { vx_clear_components(&mut self.components, self.length, self.identifier.iter()) };

        vx_raw_vec_len(&mut self.entity_identifiers, self.length);
        for entity_identifier in vx_it: self.entity_identifiers.iter() 
            invariant
                entity_allocator.wf(),
                self.entity_identifiers@ == vx_self0.ids(),
                vx_it.index@ <= vx_self0.length,
                vx_self0.ids().len() == vx_self0.length,
                forall|r: int| vx_it.index@ <= r < vx_self0.length ==> entity_allocator.resolves(#[trigger] vx_self0.ids()[r]),
                forall|i: entity::Identifier| entity_allocator.resolves(i) == (vx_alloc0.resolves(i) && !vx_self0.ids().take(vx_it.index@).contains(i)),
                forall|i: entity::Identifier| entity_allocator.resolves(i) ==> entity_allocator.view()[i] == vx_alloc0.view()[i],
                entity_allocator.slots@.len() == vx_alloc0.slots@.len(),
                entity_allocator.active_count() + vx_it.index@ == vx_alloc0.active_count(),
                forall|s: int| 0 <= s < vx_alloc0.slots@.len() ==> (#[trigger] entity_allocator.slots@[s]).generation == vx_alloc0.slots@[s].generation,
                forall|r: int, q: int| 0 <= r < q < vx_self0.length ==> vx_self0.ids()[r] != vx_self0.ids()[q],
{

let ghost vx_pre = *entity_allocator; let ghost vx_k = vx_it.index@; proof { assert(vx_k < vx_self0.length); assert(*entity_identifier == vx_self0.ids()[vx_k]); }
            unsafe { entity_allocator.free_unchecked(*entity_identifier) };
proof {
                let k = vx_k;
                let idk = vx_self0.ids()[k];
                assert(*entity_identifier == idk);
                let t0 = vx_self0.ids().take(k);
                let t1 = vx_self0.ids().take(k + 1);
                assert(t1 =~= t0.push(idk));
                assert forall|i: entity::Identifier| entity_allocator.resolves(i) == (vx_alloc0.resolves(i) && !t1.contains(i)) by {
                    assert(entity_allocator.resolves(i) == (vx_pre.resolves(i) && i != idk));
                    assert(vx_pre.resolves(i) == (vx_alloc0.resolves(i) && !t0.contains(i)));
                    assert(t1.contains(i) == (t0.contains(i) || i == idk)) by {
                        if t1.contains(i) {
                            let j = choose|j: int| 0 <= j < t1.len() && t1[j] == i;
                            if j < k { assert(t0[j] == i); }
                        }
                        if t0.contains(i) {
                            let j = choose|j: int| 0 <= j < t0.len() && t0[j] == i;
                            assert(t1[j] == i);
                        }
                        if i == idk { assert(t1[k] == idk); }
                    }
                }
                assert forall|r: int| k + 1 <= r < vx_self0.length implies entity_allocator.resolves(#[trigger] vx_self0.ids()[r]) by {
                    assert(vx_self0.ids()[r] != idk);
                    assert(vx_pre.resolves(vx_self0.ids()[r]));
                }
                assert forall|i: entity::Identifier| entity_allocator.resolves(i) implies entity_allocator.view()[i] == vx_alloc0.view()[i] by {
                    assert(vx_pre.resolves(i));
                }
            }

        }
        self.entity_identifiers.clear();

        self.length = 0;
proof {
            assert(vx_self0.ids().take(vx_self0.length as int) =~= vx_self0.ids());
            assert(self.ids() =~= Seq::<entity::Identifier>::empty());
        }

    }

    pub unsafe fn reserve<E>(&mut self, additional: usize)
        requires
            old(self).wf(),
        ensures
            final(self).wf(),
            final(self).key() == old(self).key(),
            final(self).length == old(self).length && final(self).rows() == old(self).rows() && final(self).ids() == old(self).ids(),
    {


        unsafe { vx_reserve_components(&mut self.components, self.length, additional) }

        vx_raw_vec_len(&mut self.entity_identifiers, self.length);
        self.entity_identifiers.reserve(additional);
        /* R4: write-back of self.entity_identifiers dropped */
    
    }

    pub fn clear_detached(&mut self)
        requires
            old(self).wf(),
        ensures
            final(self).wf(),
            final(self).key() == old(self).key(),
            final(self).length == 0 && final(self).rows().len() == 0 && final(self).ids().len() == 0,
    {


        unsafe { vx_clear_components(&mut self.components, self.length, self.identifier.iter()) };

        self.length = 0;
    
    }

    pub fn shrink_to_fit(&mut self)
        requires
            old(self).wf(),
        ensures
            final(self).wf(),
            final(self).key() == old(self).key(),
            final(self).length == old(self).length && final(self).rows() == old(self).rows() && final(self).ids() == old(self).ids(),
    {


        unsafe {
            vx_shrink_components_to_fit(&mut self.components, self.length, self.identifier.iter());
        }

        vx_raw_vec_len(&mut self.entity_identifiers, self.length);
        self.entity_identifiers.shrink_to_fit();
        /* R4: write-back of self.entity_identifiers dropped */
    
    }

    pub unsafe fn identifier(&self) -> (r: IdentifierRef<R>)
        ensures
            r == self.key(),
    {


        unsafe { self.identifier.as_ref() }
    
    }

    pub fn len(&self) -> (r: usize)
        ensures
            r == self.length,
    {

        self.length
    
    }

    pub fn is_empty(&self) -> (r: bool)
        ensures
            r == (self.length == 0),
    {

        self.len() == 0
    
    }

}

}

// R7: hashbrown::HashMap is an opaque type whose abstract value is a (possibly infinite-domain)
// map; `get` is assumed to be lookup in that map (assumption A3).
pub struct FnvBuildHasher;
#[verifier::external_body]
#[verifier::accept_recursive_types(K)]
#[verifier::accept_recursive_types(V)]
#[verifier::accept_recursive_types(S)]
pub struct HashMap<K, V, S> { p: PhantomData<(K, V, S)> }
impl<K, V, S> HashMap<K, V, S> {
    pub uninterp spec fn view(&self) -> IMap<K, V>;
    #[verifier::external_body]
    pub fn get(&self, k: &K) -> (r: Option<&V>)
        ensures r == (if self@.dom().contains(*k) { Some(&self@[*k]) } else { None::<&V> })
    { unimplemented!() }
}

pub mod entity {
    use super::*;
#[derive(Clone, Copy)]
pub struct Identifier {
    pub index: usize,
    pub generation: u64,
}

impl Identifier {
    pub fn new(index: usize, generation: u64) -> (r: Self)
        ensures
            r.index == index,
            r.generation == generation,
    {

        Self { index, generation }
    
    }

}

}
pub struct Location<R>
where
    R: Registry, {

    pub identifier: archetype::IdentifierRef<R>,

    pub index: usize,
}

impl<R> Clone for Location<R> where R: Registry {
     fn clone(&self) -> (r: Self)
        ensures
            r == *self,
    {

        *self
    
    }

}

impl<R> Copy for Location<R> where R: Registry {}

impl<R> Location<R> where R: Registry {
    pub fn new(identifier: archetype::IdentifierRef<R>, index: usize) -> (r: Self)
        ensures
            r == (Location { identifier, index }),
    {

        Self { identifier, index }
    
    }

    pub unsafe fn clone_with_new_identifier(&self, identifier_map: &HashMap< archetype::IdentifierRef<R>, archetype::IdentifierRef<R>, FnvBuildHasher, >,) -> (r: Self)
        requires
            identifier_map@.dom().contains(self.identifier),
        ensures
            r == (Location { identifier: identifier_map@[self.identifier], index: self.index }),
    {

        Self {

            identifier: *unsafe { identifier_map.get(&self.identifier).unwrap() },
            index: self.index,
        }
    
    }

}

pub struct Locations<R>
where
    R: Registry, {

    pub indices: Range<usize>,

    pub identifier: archetype::IdentifierRef<R>,
}

pub struct Slot<R>
where
    R: Registry, {

    pub generation: u64,

    pub location: Option<Location<R>>,
}

pub struct Allocator<R>
where
    R: Registry, {
    pub slots: Vec<Slot<R>>,
    pub free: VecDeque<usize>,
}


impl<R: Registry> Locations<R> {
    pub open spec fn wf(&self) -> bool { self.indices.start <= self.indices.end }
    pub open spec fn spec_len(&self) -> nat { (self.indices.end - self.indices.start) as nat }
    /// the k-th location this iterator will still yield
    pub open spec fn nth(&self, k: int) -> Location<R> {
        Location { identifier: self.identifier, index: (self.indices.start + k) as usize }
    }
}

impl<R: Registry> Allocator<R> {
    // ---- representation invariant (C13) ----
    pub open spec fn wf_free_in_bounds(&self) -> bool {
        forall|i: int| 0 <= i < self.free@.len() ==> (#[trigger] self.free@[i]) < self.slots@.len()
    }
    pub open spec fn wf_free_inactive(&self) -> bool {
        forall|i: int| 0 <= i < self.free@.len() ==> self.slots@[(#[trigger] self.free@[i]) as int].location is None
    }
    pub open spec fn wf_free_distinct(&self) -> bool {
        forall|i: int, j: int| 0 <= i < j < self.free@.len() ==> self.free@[i] != self.free@[j]
    }
    /// every released slot is available for reuse: none is lost
    pub open spec fn wf_free_complete(&self) -> bool {
        forall|s: int| 0 <= s < self.slots@.len() && (#[trigger] self.slots@[s]).location is None
            ==> self.free@.contains(s as usize)
    }
    pub open spec fn wf(&self) -> bool {
        self.wf_free_in_bounds() && self.wf_free_inactive() && self.wf_free_distinct() && self.wf_free_complete()
    }

    // ---- abstract view: the map identifier -> location (C01 / C02) ----
    pub open spec fn resolves(&self, id: entity::Identifier) -> bool {
        id.index < self.slots@.len()
            && self.slots@[id.index as int].generation == id.generation
            && self.slots@[id.index as int].location is Some
    }
    pub open spec fn view(&self) -> IMap<entity::Identifier, Location<R>> {
        IMap::new(|id: entity::Identifier| self.resolves(id), |id: entity::Identifier| self.slots@[id.index as int].location->0)
    }
    pub proof fn lemma_slots_len_fits(&self) ensures self.slots@.len() <= usize::MAX {
        assert(self.slots.len() == self.slots@.len());
    }
    pub open spec fn active_count(&self) -> nat { vx_active_count(self.slots@) }
    /// slot `s` is the same in `self` and `o`
    pub open spec fn same_slot(&self, o: &Self, s: int) -> bool {
        s < self.slots@.len() && s < o.slots@.len() && self.slots@[s] == o.slots@[s]
    }
}

pub open spec fn vx_min(a: int, b: int) -> int { if a <= b { a } else { b } }

/// number of active slots == number of live identifiers (C13: World::len())
pub open spec fn vx_active_count<R: Registry>(s: Seq<Slot<R>>) -> nat
    decreases s.len()
{
    if s.len() == 0 { 0 } else { vx_active_count(s.drop_last()) + (if s.last().location is Some { 1nat } else { 0nat }) }
}
pub proof fn lemma_count_push<R: Registry>(s: Seq<Slot<R>>, x: Slot<R>)
    ensures vx_active_count(s.push(x)) == vx_active_count(s) + (if x.location is Some { 1nat } else { 0nat })
{
    assert(s.push(x).drop_last() =~= s);
}
pub proof fn lemma_count_update<R: Registry>(s: Seq<Slot<R>>, i: int, x: Slot<R>)
    requires 0 <= i < s.len(),
    ensures vx_active_count(s.update(i, x)) + (if s[i].location is Some { 1nat } else { 0nat })
        == vx_active_count(s) + (if x.location is Some { 1nat } else { 0nat })
    decreases s.len()
{
    if i == s.len() - 1 {
        assert(s.update(i, x).drop_last() =~= s.drop_last());
    } else {
        assert(s.update(i, x).drop_last() =~= s.drop_last().update(i, x));
        lemma_count_update(s.drop_last(), i, x);
    }
}
pub proof fn lemma_count_same_activity<R: Registry>(s: Seq<Slot<R>>, t: Seq<Slot<R>>)
    requires s.len() == t.len(), forall|i: int| 0 <= i < s.len() ==> ((#[trigger] s[i]).location is Some) == (t[i].location is Some),
    ensures vx_active_count(s) == vx_active_count(t)
    decreases s.len()
{
    if s.len() > 0 {
        assert(s.last().location is Some == t.last().location is Some);
        lemma_count_same_activity(s.drop_last(), t.drop_last());
    }
}
/// an active slot makes the count positive
pub proof fn lemma_count_positive<R: Registry>(s: Seq<Slot<R>>, i: int)
    requires 0 <= i < s.len(), s[i].location is Some,
    ensures vx_active_count(s) >= 1
    decreases s.len()
{
    if i == s.len() - 1 { } else { lemma_count_positive(s.drop_last(), i); }
}
pub proof fn lemma_count_bound<R: Registry>(s: Seq<Slot<R>>)
    ensures vx_active_count(s) <= s.len()
    decreases s.len()
{
    if s.len() > 0 { lemma_count_bound(s.drop_last()); }
}
/// no slot active  <=>  count 0
pub proof fn lemma_count_zero<R: Registry>(s: Seq<Slot<R>>)
    requires forall|i: int| 0 <= i < s.len() ==> (#[trigger] s[i]).location is None,
    ensures vx_active_count(s) == 0
    decreases s.len()
{
    if s.len() > 0 { assert(s.last().location is None); lemma_count_zero(s.drop_last()); }
}

/// a location re-keyed through the old-archetype -> new-archetype identifier map (C10)
pub open spec fn vx_remap<R: Registry>(l: Option<Location<R>>, m: IMap<archetype::IdentifierRef<R>, archetype::IdentifierRef<R>>) -> Option<Location<R>> {
    match l { Some(l) => Some(Location { identifier: m[l.identifier], index: l.index }), None => None }
}

impl<R: Registry> Allocator<R> {
    /// safety precondition of clone / clone_from: the map covers every archetype some slot refers to
    pub open spec fn map_covers(&self, m: IMap<archetype::IdentifierRef<R>, archetype::IdentifierRef<R>>) -> bool {
        forall|s: int| 0 <= s < self.slots@.len() && (#[trigger] self.slots@[s]).location is Some ==> m.dom().contains(self.slots@[s].location->0.identifier)
    }
    /// `self` is `src` with every location re-keyed through `m`: same slots, same generations,
    /// same free list -- so the same identifiers resolve, to the corresponding rows (C10, C02)
    pub open spec fn is_remapped_copy_of(&self, src: &Self, m: IMap<archetype::IdentifierRef<R>, archetype::IdentifierRef<R>>) -> bool {
        &&& self.slots@.len() == src.slots@.len()
        &&& forall|s: int| 0 <= s < src.slots@.len() ==> (#[trigger] self.slots@[s]).generation == src.slots@[s].generation
        &&& forall|s: int| 0 <= s < src.slots@.len() ==> (#[trigger] self.slots@[s]).location == vx_remap(src.slots@[s].location, m)
        &&& self.free@ == src.free@
    }
    pub proof fn lemma_remapped_copy_wf(&self, src: &Self, m: IMap<archetype::IdentifierRef<R>, archetype::IdentifierRef<R>>)
        requires self.is_remapped_copy_of(src, m), src.wf(),
        ensures self.wf(), forall|id: entity::Identifier| self.resolves(id) == src.resolves(id),
    {
        assert forall|s: int| 0 <= s < self.slots@.len() && (#[trigger] self.slots@[s]).location is None implies self.free@.contains(s as usize) by {
            assert(src.slots@[s].location is None);
        }
        assert forall|i: int| 0 <= i < self.free@.len() implies self.slots@[(#[trigger] self.free@[i]) as int].location is None by {
            assert(src.slots@[src.free@[i] as int].location is None);
        }
    }
}

impl<R> Locations<R> where R: Registry {
    pub fn new(indices: Range<usize>, identifier: archetype::IdentifierRef<R>) -> (r: Self)
        ensures
            r.indices == indices && r.identifier == identifier,
    {

        Self {
            indices,
            identifier,
        }
    
    }

    pub fn len(&self) -> (n: usize)
        requires
            self.wf(),
        ensures
            n == self.spec_len(),
    {

        assert(self.indices.end >= self.indices.start);
        self.indices.end - self.indices.start
    
    }

    pub fn is_empty(&self) -> (b: bool)
        ensures
            b == !(self.indices.start < self.indices.end),
    {

proof { vx_axiom_range_is_empty_usize(self.indices); }

        self.indices.is_empty()
    
    }

    pub fn next(&mut self) -> (r: Option<Location<R>>)
        requires
            old(self).wf(),
        ensures
            old(self).indices.start < old(self).indices.end ==> r == Some(old(self).nth(0)) && final(self).indices.start == old(self).indices.start + 1,
            old(self).indices.start >= old(self).indices.end ==> r is None && final(self).indices.start == old(self).indices.start,
            final(self).indices.end == old(self).indices.end && final(self).identifier == old(self).identifier,
            final(self).wf(),
    {

        match self.indices.next() { Some(index) => Some(Location {
            identifier: self.identifier,
            index,
        }), None => None }
    
    }

}

impl<R> Slot<R> where R: Registry {
    pub fn new(location: Location<R>) -> (r: Self)
        ensures
            r.generation == 0 && r.location == Some(location),
    {

        Self {
            generation: 0,
            location: Some(location),
        }
    
    }

    pub unsafe fn activate_unchecked(&mut self, location: Location<R>)
        requires
            old(self).location is None,
        ensures
            final(self).generation == old(self).generation.wrapping_add(1),
            final(self).location == Some(location),
    {

        self.generation = self.generation.wrapping_add(1);
        self.location = Some(location);
    
    }

    pub fn deactivate(&mut self)
        ensures
            final(self).generation == old(self).generation,
            final(self).location is None,
    {

        self.location = None;
    
    }

    pub fn is_active(&self) -> (b: bool)
        ensures
            b == (self.location is Some),
    {

        self.location.is_some()
    
    }

    pub unsafe fn clone_with_new_identifier(&self, identifier_map: &HashMap< archetype::IdentifierRef<R>, archetype::IdentifierRef<R>, FnvBuildHasher, >,) -> (r: Self)
        requires
            self.location is Some ==> identifier_map@.dom().contains(self.location->0.identifier),
        ensures
            r.generation == self.generation,
            r.location == vx_remap(self.location, identifier_map@),
    {

        Self {
            generation: self.generation,
            location: match self.location { Some(location) => Some(unsafe { location.clone_with_new_identifier(identifier_map) }), None => None },
        }
    
    }

}

impl<R> Allocator<R> where R: Registry {
    pub fn new() -> (r: Self)
        ensures
            r.wf(),
            r.slots@.len() == 0 && r.free@.len() == 0,
            r.view() == IMap::<entity::Identifier, Location<R>>::empty(),
    {

        Self {
            slots: Vec::new(),
            free: VecDeque::new(),
        }
    
    }

    pub fn allocate(&mut self, location: Location<R>) -> (id: entity::Identifier)
        requires
            old(self).wf(),
        ensures
            final(self).wf_free_in_bounds(),
            final(self).wf_free_inactive(),
            final(self).wf_free_distinct(),
            final(self).wf_free_complete(),
            !old(self).resolves(id),
            final(self).resolves(id),
            final(self).view() == old(self).view().insert(id, location),
            forall|i: entity::Identifier| #![trigger final(self).resolves(i)] #![trigger old(self).resolves(i)] (final(self).resolves(i) == (old(self).resolves(i) || i == id)) && (old(self).resolves(i) ==> final(self).view()[i] == old(self).view()[i]),
            final(self).view()[id] == location,
            id.index < old(self).slots@.len() ==> id.generation == old(self).slots@[id.index as int].generation.wrapping_add(1),
            id.index >= old(self).slots@.len() ==> id.index == old(self).slots@.len() && id.generation == 0,
            final(self).slots@.len() == (if id.index < old(self).slots@.len() { old(self).slots@.len() } else { old(self).slots@.len() + 1 }),
            forall|s: int| 0 <= s < old(self).slots@.len() && s != id.index ==> final(self).slots@[s] == old(self).slots@[s],
            old(self).free@.len() > 0 ==> id.index == old(self).free@[0] && final(self).free@ == old(self).free@.subrange(1, old(self).free@.len() as int),
            old(self).free@.len() == 0 ==> final(self).free@ == old(self).free@ && id.index == old(self).slots@.len(),
            Self::allocate_post(old(self), final(self), location, id),
            final(self).active_count() == old(self).active_count() + 1,
    {

let ghost vx_old = *self;

        let (index, generation) = if let Some(index) = self.free.pop_front() {
            let slot =

                &mut self.slots[index];

            unsafe { slot.activate_unchecked(location) };
            (index, slot.generation)
        } else {
            let index = self.slots.len();
            self.slots.push(Slot::new(location));

            (index, 0)
        };

proof {
            let id = entity::Identifier { index, generation };
            self.lemma_slots_len_fits(); vx_old.lemma_slots_len_fits();
            if vx_old.free@.len() > 0 {
                assert(self.slots@ =~= vx_old.slots@.update(index as int, self.slots@[index as int]));
                lemma_count_update(vx_old.slots@, index as int, self.slots@[index as int]);
            } else {
                assert(self.slots@ =~= vx_old.slots@.push(self.slots@[index as int]));
                lemma_count_push(vx_old.slots@, self.slots@[index as int]);
            }
            if vx_old.free@.len() > 0 {
                assert(index == vx_old.free@[0]);
                assert(self.free@ =~= vx_old.free@.subrange(1, vx_old.free@.len() as int));
                assert forall|i: int| 0 <= i < self.free@.len() implies self.free@[i] == vx_old.free@[i + 1] by {}
                assert forall|i: int| 0 <= i < self.free@.len() implies #[trigger] self.free@[i] != index by {
                    assert(vx_old.free@[0] != vx_old.free@[i + 1]);
                }
                assert forall|s: int| 0 <= s < self.slots@.len() && (#[trigger] self.slots@[s]).location is None
                    implies self.free@.contains(s as usize) by {
                    assert(s != index);
                    assert(vx_old.slots@[s].location is None);
                    assert(vx_old.free@.contains(s as usize));
                    let k = choose|k: int| 0 <= k < vx_old.free@.len() && vx_old.free@[k] == s as usize;
                    assert(k != 0);
                    assert(self.free@[k - 1] == s as usize);
                }
            } else {
                assert(self.free@ =~= vx_old.free@);
                assert forall|s: int| 0 <= s < self.slots@.len() && (#[trigger] self.slots@[s]).location is None
                    implies self.free@.contains(s as usize) by {
                    assert(s != index);
                    assert(vx_old.slots@[s].location is None);
                }
            }
            assert(self.view() =~= vx_old.view().insert(id, location)) by {
                assert forall|i: entity::Identifier| self.resolves(i) == (i == id || vx_old.resolves(i)) by {
                    if i.index != index && i.index < vx_old.slots@.len() { assert(self.slots@[i.index as int] == vx_old.slots@[i.index as int]); }
                }
                assert forall|i: entity::Identifier| self.resolves(i) implies
                    #[trigger] self.view()[i] == vx_old.view().insert(id, location)[i] by {
                    if i.index != index && i.index < vx_old.slots@.len() { assert(self.slots@[i.index as int] == vx_old.slots@[i.index as int]); }
                }
            }
        }
        entity::Identifier::new(index, generation)

    }

    pub fn allocate_batch(&mut self, mut locations: Locations<R>,) -> (ids: Vec<entity::Identifier>)
        requires
            old(self).wf(),
            locations.wf(),
            old(self).slots@.len() + locations.spec_len() <= usize::MAX,
        ensures
            final(self).wf_free_in_bounds(),
            final(self).wf_free_inactive(),
            final(self).wf_free_distinct(),
            final(self).wf_free_complete(),
            ids@.len() == locations.spec_len(),
            forall|k: int| 0 <= k < ids@.len() ==> final(self).resolves(#[trigger] ids@[k]) && final(self).view()[ids@[k]] == locations.nth(k),
            forall|k: int| 0 <= k < ids@.len() ==> !old(self).resolves(#[trigger] ids@[k]),
            forall|j: int, k: int| 0 <= j < k < ids@.len() ==> ids@[j].index != ids@[k].index,
            forall|k: int| 0 <= k < ids@.len() ==> (#[trigger] ids@[k]).index == (if k < old(self).free@.len() { old(self).free@[k] as int } else { old(self).slots@.len() + k - vx_min(old(self).free@.len() as int, ids@.len() as int) }),
            forall|k: int| 0 <= k < ids@.len() && k < old(self).free@.len() ==> (#[trigger] ids@[k]).generation == old(self).slots@[old(self).free@[k] as int].generation.wrapping_add(1),
            forall|k: int| 0 <= k < ids@.len() && k >= old(self).free@.len() ==> (#[trigger] ids@[k]).generation == 0,
            final(self).free@ == old(self).free@.subrange(vx_min(old(self).free@.len() as int, ids@.len() as int), old(self).free@.len() as int),
            final(self).slots@.len() == old(self).slots@.len() + ids@.len() - vx_min(old(self).free@.len() as int, ids@.len() as int),
            final(self).active_count() == old(self).active_count() + ids@.len(),
            forall|s: int| 0 <= s < old(self).slots@.len() && !(exists|k: int| 0 <= k < ids@.len() && (#[trigger] ids@[k]).index == s) ==> final(self).slots@[s] == old(self).slots@[s],
            forall|i: entity::Identifier| final(self).resolves(i) == (old(self).resolves(i) || ids@.contains(i)),
            forall|i: entity::Identifier| old(self).resolves(i) ==> final(self).view()[i] == old(self).view()[i],
    {

let ghost vx_old = *self; let ghost vx_l0 = locations;

        let mut identifiers: Vec<entity::Identifier> = Vec::with_capacity(locations.len());

        while !locations.is_empty() 
            invariant
                self.wf_free_in_bounds(),
                self.wf_free_inactive(),
                self.wf_free_distinct(),
                self.wf_free_complete(),
                locations.wf(),
                locations.indices.end == vx_l0.indices.end,
                locations.identifier == vx_l0.identifier,
                identifiers@.len() == locations.indices.start - vx_l0.indices.start,
                identifiers@.len() <= vx_old.free@.len(),
                self.free@ == vx_old.free@.subrange(identifiers@.len() as int, vx_old.free@.len() as int),
                self.slots@.len() == vx_old.slots@.len(),
                vx_active_count(self.slots@) == vx_active_count(vx_old.slots@) + identifiers@.len(),
                forall|k: int| 0 <= k < identifiers@.len() ==> (#[trigger] identifiers@[k]).index == vx_old.free@[k] && identifiers@[k].generation == vx_old.slots@[vx_old.free@[k] as int].generation.wrapping_add(1),
                forall|k: int| 0 <= k < identifiers@.len() ==> (#[trigger] self.slots@[vx_old.free@[k] as int]) == (Slot { generation: vx_old.slots@[vx_old.free@[k] as int].generation.wrapping_add(1), location: Some(vx_l0.nth(k)) }),
                forall|s: int| 0 <= s < vx_old.slots@.len() && !(exists|k: int| 0 <= k < identifiers@.len() && #[trigger] vx_old.free@[k] == s) ==> self.slots@[s] == vx_old.slots@[s],
                vx_old.wf(),
                vx_old.slots@.len() + vx_l0.spec_len() <= usize::MAX,
                vx_l0.wf(),
            ensures
                self.free@.len() == 0 || !(locations.indices.start < locations.indices.end),
            decreases self.free@.len()
{
            let Some(index) = self.free.pop_front() else {
                break;
            };
proof {
                let k = identifiers@.len() as int;
                assert(index == vx_old.free@[k]);
                assert(self.free@ =~= vx_old.free@.subrange(k + 1, vx_old.free@.len() as int));
                assert forall|j: int| 0 <= j < k implies vx_old.free@[j] != index by { }
                assert(self.slots@[index as int] == vx_old.slots@[index as int]) by {
                    if exists|j: int| 0 <= j < k && #[trigger] vx_old.free@[j] == index as int {
                        let j = choose|j: int| 0 <= j < k && #[trigger] vx_old.free@[j] == index as int;
                        assert(vx_old.free@[j] != vx_old.free@[k]);
                    }
                }
            }
            let ghost vx_pre = *self; let ghost vx_k = identifiers@.len() as int;
            let slot =

                &mut self.slots[index];

            unsafe { slot.activate_unchecked(locations.next().unwrap()) };
            identifiers.push(entity::Identifier::new(index, slot.generation));
proof {
                let k = vx_k;
                self.lemma_slots_len_fits(); vx_old.lemma_slots_len_fits();
                assert(self.slots@ =~= vx_pre.slots@.update(index as int, self.slots@[index as int]));
                lemma_count_update(vx_pre.slots@, index as int, self.slots@[index as int]);
                assert(vx_pre.slots@[index as int].location is None);
                assert(self.free@ == vx_pre.free@);
                assert forall|i: int| 0 <= i < self.free@.len() implies (#[trigger] self.free@[i]) != index by {
                    assert(self.free@[i] == vx_old.free@[k + 1 + i]);
                    assert(vx_old.free@[k] != vx_old.free@[k + 1 + i]);
                }
                assert forall|j: int| 0 <= j < identifiers@.len() implies
                    (#[trigger] self.slots@[vx_old.free@[j] as int]) == (Slot { generation: vx_old.slots@[vx_old.free@[j] as int].generation.wrapping_add(1), location: Some(vx_l0.nth(j)) }) by {
                    if j < k { assert(vx_old.free@[j] != vx_old.free@[k]); assert(self.slots@[vx_old.free@[j] as int] == vx_pre.slots@[vx_old.free@[j] as int]); }
                }
                assert forall|s: int| 0 <= s < vx_old.slots@.len() && !(exists|j: int| 0 <= j < identifiers@.len() && #[trigger] vx_old.free@[j] == s)
                    implies self.slots@[s] == vx_old.slots@[s] by {
                    assert(vx_old.free@[k] != s);
                    assert(!(exists|j: int| 0 <= j < k && #[trigger] vx_old.free@[j] == s)) by {
                        if exists|j: int| 0 <= j < k && #[trigger] vx_old.free@[j] == s {
                            let j = choose|j: int| 0 <= j < k && #[trigger] vx_old.free@[j] == s;
                            assert(0 <= j < identifiers@.len() && vx_old.free@[j] == s);
                        }
                    }
                }
                assert forall|s: int| 0 <= s < self.slots@.len() && (#[trigger] self.slots@[s]).location is None
                    implies self.free@.contains(s as usize) by {
                    if exists|j: int| 0 <= j < k + 1 && #[trigger] vx_old.free@[j] == s {
                        let j = choose|j: int| 0 <= j < k + 1 && #[trigger] vx_old.free@[j] == s;
                        assert(self.slots@[vx_old.free@[j] as int].location is Some);
                    } else {
                        assert(self.slots@[s] == vx_old.slots@[s]);
                        assert(vx_old.free@.contains(s as usize));
                        let m = choose|m: int| 0 <= m < vx_old.free@.len() && vx_old.free@[m] == s as usize;
                        assert(m >= k + 1);
                        assert(self.free@[m - k - 1] == s as usize);
                    }
                }
            }

        }

        let remaining_locations = locations.len();
        let slots_len = self.slots.len();
let ghost vx_mid = *self; let ghost vx_mid_start = locations.indices.start as int; let ghost vx_reused = identifiers@.len() as int; let ghost vx_ids1 = identifiers@;

        while let Some(location) = locations.next() 
            invariant
                locations.wf(),
                locations.indices.end == vx_l0.indices.end,
                locations.identifier == vx_l0.identifier,
                self.slots@.len() - slots_len == locations.indices.start - vx_mid_start,
                self.free@ == vx_mid.free@,
                forall|s: int| 0 <= s < slots_len ==> self.slots@[s] == vx_mid.slots@[s],
                forall|s: int| slots_len <= s < self.slots@.len() ==> (#[trigger] self.slots@[s]) == (Slot { generation: 0, location: Some(vx_l0.nth(vx_mid_start - vx_l0.indices.start + s - slots_len)) }),
                vx_mid_start <= locations.indices.start <= locations.indices.end,
                slots_len == vx_mid.slots@.len(),
                vx_active_count(self.slots@) == vx_active_count(vx_mid.slots@) + self.slots@.len() - slots_len,
            ensures
                locations.indices.start == locations.indices.end,
            decreases locations.indices.end - locations.indices.start
{
let ghost vx_s = self.slots@;
 self.slots.push(Slot::new(location));
proof { assert(self.slots@ =~= vx_s.push(self.slots@.last())); lemma_count_push(vx_s, self.slots@.last()); }

 }
        for index in 0..remaining_locations 
            invariant
                identifiers@.len() == vx_reused + index,
                forall|k: int| 0 <= k < vx_reused ==> identifiers@[k] == vx_ids1[k],
                forall|k: int| vx_reused <= k < identifiers@.len() ==> (#[trigger] identifiers@[k]) == (entity::Identifier { index: (slots_len + k - vx_reused) as usize, generation: 0 }),
                slots_len + remaining_locations <= usize::MAX,
{
 identifiers.push(entity::Identifier::new(slots_len + index, 0));
 }

proof {
            let k1 = vx_reused;
            self.lemma_slots_len_fits(); vx_old.lemma_slots_len_fits(); vx_mid.lemma_slots_len_fits();
            let n = vx_l0.spec_len() as int;
            let ids = identifiers@;
            assert(k1 == vx_min(vx_old.free@.len() as int, n));
            assert(ids.len() == n);
            assert(self.free@ == vx_mid.free@);
            // --- shape of every returned identifier and of the slot it names
            assert forall|k: int| 0 <= k < n implies
                (#[trigger] ids[k]).index < self.slots@.len()
                && self.slots@[ids[k].index as int] == (Slot { generation: ids[k].generation, location: Some(vx_l0.nth(k)) })
                && (k < k1 ==> ids[k].index == vx_old.free@[k] && ids[k].generation == vx_old.slots@[vx_old.free@[k] as int].generation.wrapping_add(1))
                && (k >= k1 ==> ids[k].index == slots_len + k - k1 && ids[k].generation == 0) by {
                if k < k1 {
                    assert(ids[k] == vx_ids1[k]);
                    assert(self.slots@[vx_old.free@[k] as int] == vx_mid.slots@[vx_old.free@[k] as int]);
                } else {
                    assert(ids[k] == (entity::Identifier { index: (slots_len + k - k1) as usize, generation: 0 }));
                    let s = slots_len + k - k1;
                    assert(self.slots@[s] == (Slot { generation: 0, location: Some(vx_l0.nth(vx_mid_start - vx_l0.indices.start + s - slots_len)) }));
                }
            }
            // --- slots that no returned identifier names are unchanged
            assert forall|s: int| 0 <= s < vx_old.slots@.len() && !(exists|k: int| 0 <= k < n && (#[trigger] ids[k]).index == s)
                implies self.slots@[s] == vx_old.slots@[s] by {
                assert(self.slots@[s] == vx_mid.slots@[s]);
                assert(!(exists|k: int| 0 <= k < k1 && #[trigger] vx_old.free@[k] == s)) by {
                    if exists|k: int| 0 <= k < k1 && #[trigger] vx_old.free@[k] == s {
                        let k = choose|k: int| 0 <= k < k1 && #[trigger] vx_old.free@[k] == s;
                        assert(ids[k].index == s);
                    }
                }
            }
            // --- wf of the final state
            assert forall|i: int| 0 <= i < self.free@.len() implies
                self.slots@[(#[trigger] self.free@[i]) as int].location is None by {
                let s = self.free@[i] as int;
                assert(self.free@[i] == vx_old.free@[k1 + i]);
                assert(self.slots@[s] == vx_mid.slots@[s]);
            }
            assert forall|s: int| 0 <= s < self.slots@.len() && (#[trigger] self.slots@[s]).location is None
                implies self.free@.contains(s as usize) by {
                assert(s < slots_len);
                assert(vx_mid.slots@[s].location is None);
                assert(vx_mid.free@.contains(s as usize));
            }
            // --- freshness, distinctness
            assert forall|k: int| 0 <= k < n implies !vx_old.resolves(#[trigger] ids[k]) by {
                if k < k1 { assert(vx_old.slots@[vx_old.free@[k] as int].location is None); }
            }
            assert forall|j: int, k: int| 0 <= j < k < n implies ids[j].index != ids[k].index by {
                if k < k1 { assert(vx_old.free@[j] != vx_old.free@[k]); }
            }
            // --- the map view
            assert forall|i: entity::Identifier| self.resolves(i) == (vx_old.resolves(i) || ids.contains(i)) by {
                if ids.contains(i) {
                    let k = choose|k: int| 0 <= k < ids.len() && ids[k] == i;
                    assert(self.resolves(ids[k]));
                } else if i.index < self.slots@.len() {
                    let s = i.index as int;
                    if exists|k: int| 0 <= k < n && (#[trigger] ids[k]).index == s {
                        let k = choose|k: int| 0 <= k < n && (#[trigger] ids[k]).index == s;
                        assert(self.slots@[s].generation == ids[k].generation);
                        if self.resolves(i) { assert(i == ids[k]); }
                        if k < k1 { assert(vx_old.slots@[vx_old.free@[k] as int].location is None); }
                        assert(!vx_old.resolves(i));
                    } else if s < vx_old.slots@.len() {
                        assert(self.slots@[s] == vx_old.slots@[s]);
                    } else {
                        let k = s - slots_len + k1;
                        assert(ids[k].index == s);
                    }
                }
            }
            assert forall|i: entity::Identifier| vx_old.resolves(i) implies self.view()[i] == vx_old.view()[i] by {
                let s = i.index as int;
                if exists|k: int| 0 <= k < n && (#[trigger] ids[k]).index == s {
                    let k = choose|k: int| 0 <= k < n && (#[trigger] ids[k]).index == s;
                    if k < k1 { assert(vx_old.slots@[vx_old.free@[k] as int].location is None); }
                } else {
                    assert(self.slots@[s] == vx_old.slots@[s]);
                }
            }
            assert(self.free@ =~= vx_old.free@.subrange(vx_min(vx_old.free@.len() as int, ids.len() as int), vx_old.free@.len() as int));
        }
        identifiers

    }

    pub fn get(&self, identifier: entity::Identifier) -> (r: Option<Location<R>>)
        ensures
            r == (if self.resolves(identifier) { Some(self.view()[identifier]) } else { None::<Location<R>> }),
    {

        let slot = self.slots.get(identifier.index)?;
        if slot.generation == identifier.generation {
            slot.location
        } else {
            None
        }
    
    }

    pub fn is_active(&self, identifier: entity::Identifier) -> (b: bool)
        ensures
            b == self.resolves(identifier),
    {

        if let Some(slot) = self.slots.get(identifier.index) {
            if slot.is_active() && slot.generation == identifier.generation {
                return true;
            }
        }
        false
    
    }

    pub unsafe fn free_unchecked(&mut self, identifier: entity::Identifier)
        requires
            old(self).wf(),
            old(self).resolves(identifier),
        ensures
            final(self).wf_free_in_bounds(),
            final(self).wf_free_inactive(),
            final(self).wf_free_distinct(),
            final(self).wf_free_complete(),
            !final(self).resolves(identifier),
            final(self).view() == old(self).view().remove(identifier),
            forall|i: entity::Identifier| #![trigger final(self).resolves(i)] #![trigger old(self).resolves(i)] (final(self).resolves(i) == (old(self).resolves(i) && i != identifier)) && (final(self).resolves(i) ==> final(self).view()[i] == old(self).view()[i]),
            final(self).free@ == old(self).free@.push(identifier.index),
            final(self).slots@.len() == old(self).slots@.len(),
            forall|s: int| 0 <= s < old(self).slots@.len() ==> (#[trigger] final(self).slots@[s]).generation == old(self).slots@[s].generation,
            forall|s: int| 0 <= s < old(self).slots@.len() && s != identifier.index ==> final(self).slots@[s] == old(self).slots@[s],
            Self::free_post(old(self), final(self), identifier),
            final(self).active_count() + 1 == old(self).active_count(),
    {

let ghost vx_old = *self;

        let slot =

            &mut self.slots[identifier.index];
        slot.deactivate();
        self.free.push_back(identifier.index);
proof {
            self.lemma_slots_len_fits(); vx_old.lemma_slots_len_fits();
            assert(self.slots@ =~= vx_old.slots@.update(identifier.index as int, self.slots@[identifier.index as int]));
            lemma_count_update(vx_old.slots@, identifier.index as int, self.slots@[identifier.index as int]);
            assert(self.free@ =~= vx_old.free@.push(identifier.index));
            assert forall|i: int| 0 <= i < vx_old.free@.len() implies vx_old.free@[i] != identifier.index by {
                assert(vx_old.slots@[vx_old.free@[i] as int].location is None);
            }
            assert forall|s: int| 0 <= s < self.slots@.len() && (#[trigger] self.slots@[s]).location is None
                implies self.free@.contains(s as usize) by {
                if s == identifier.index {
                    assert(self.free@[vx_old.free@.len() as int] == s as usize);
                } else {
                    assert(vx_old.slots@[s].location is None);
                    let k = choose|k: int| 0 <= k < vx_old.free@.len() && vx_old.free@[k] == s as usize;
                    assert(self.free@[k] == s as usize);
                }
            }
            assert(self.view() =~= vx_old.view().remove(identifier)) by {
                assert forall|i: entity::Identifier| self.resolves(i) == (i != identifier && vx_old.resolves(i)) by {
                    if i.index != identifier.index && i.index < vx_old.slots@.len() { assert(self.slots@[i.index as int] == vx_old.slots@[i.index as int]); }
                }
                assert forall|i: entity::Identifier| self.resolves(i) implies
                    #[trigger] self.view()[i] == vx_old.view().remove(identifier)[i] by {
                    if i.index != identifier.index && i.index < vx_old.slots@.len() { assert(self.slots@[i.index as int] == vx_old.slots@[i.index as int]); }
                }
            }
        }

    
    }

    pub unsafe fn modify_location_unchecked(&mut self, identifier: entity::Identifier, location: Location<R>,)
        requires
            old(self).wf(),
            old(self).resolves(identifier),
        ensures
            final(self).wf_free_in_bounds(),
            final(self).wf_free_inactive(),
            final(self).wf_free_distinct(),
            final(self).wf_free_complete(),
            final(self).view() == old(self).view().insert(identifier, location),
            forall|i: entity::Identifier| #![trigger final(self).resolves(i)] #![trigger old(self).resolves(i)] (final(self).resolves(i) == old(self).resolves(i)) && (old(self).resolves(i) && i != identifier ==> final(self).view()[i] == old(self).view()[i]),
            final(self).view()[identifier] == location,
            final(self).active_count() == old(self).active_count(),
            final(self).free@ == old(self).free@,
            final(self).slots@.len() == old(self).slots@.len(),
            forall|s: int| 0 <= s < old(self).slots@.len() ==> (#[trigger] final(self).slots@[s]).generation == old(self).slots@[s].generation,
            forall|s: int| 0 <= s < old(self).slots@.len() && s != identifier.index ==> final(self).slots@[s] == old(self).slots@[s],
    {

let ghost vx_old = *self;


        (self.slots[identifier.index]).location = Some(location);
proof {
            self.lemma_slots_len_fits(); vx_old.lemma_slots_len_fits();
            assert(self.slots@ =~= vx_old.slots@.update(identifier.index as int, self.slots@[identifier.index as int]));
            lemma_count_update(vx_old.slots@, identifier.index as int, self.slots@[identifier.index as int]);
            assert(self.view() =~= vx_old.view().insert(identifier, location)) by {
                assert forall|i: entity::Identifier| self.resolves(i) == (i == identifier || vx_old.resolves(i)) by {
                    if i.index != identifier.index && i.index < vx_old.slots@.len() { assert(self.slots@[i.index as int] == vx_old.slots@[i.index as int]); }
                }
                assert forall|i: entity::Identifier| self.resolves(i) implies
                    #[trigger] self.view()[i] == vx_old.view().insert(identifier, location)[i] by {
                    if i.index != identifier.index && i.index < vx_old.slots@.len() { assert(self.slots@[i.index as int] == vx_old.slots@[i.index as int]); }
                }
            }
            assert forall|s: int| 0 <= s < self.slots@.len() && (#[trigger] self.slots@[s]).location is None
                implies self.free@.contains(s as usize) by {
                assert(s != identifier.index);
                assert(vx_old.slots@[s].location is None);
            }
        }

    }

    pub unsafe fn modify_location_index_unchecked(&mut self, identifier: entity::Identifier, index: usize,)
        requires
            old(self).wf(),
            old(self).resolves(identifier),
        ensures
            final(self).wf_free_in_bounds(),
            final(self).wf_free_inactive(),
            final(self).wf_free_distinct(),
            final(self).wf_free_complete(),
            final(self).view() == old(self).view().insert(identifier, Location { identifier: old(self).view()[identifier].identifier, index }),
            forall|i: entity::Identifier| #![trigger final(self).resolves(i)] #![trigger old(self).resolves(i)] (final(self).resolves(i) == old(self).resolves(i)) && (old(self).resolves(i) && i != identifier ==> final(self).view()[i] == old(self).view()[i]),
            final(self).view()[identifier] == (Location { identifier: old(self).view()[identifier].identifier, index }),
            final(self).active_count() == old(self).active_count(),
            final(self).free@ == old(self).free@,
            final(self).slots@.len() == old(self).slots@.len(),
            forall|s: int| 0 <= s < old(self).slots@.len() ==> (#[trigger] final(self).slots@[s]).generation == old(self).slots@[s].generation,
            forall|s: int| 0 <= s < old(self).slots@.len() && s != identifier.index ==> final(self).slots@[s] == old(self).slots@[s],
    {

let ghost vx_old = *self;


        (self.slots[identifier.index]
                .location
                .as_mut()
                .unwrap()).index = index;
proof {
            self.lemma_slots_len_fits(); vx_old.lemma_slots_len_fits();
            assert(self.slots@ =~= vx_old.slots@.update(identifier.index as int, self.slots@[identifier.index as int]));
            lemma_count_update(vx_old.slots@, identifier.index as int, self.slots@[identifier.index as int]);
            let nl = Location { identifier: vx_old.view()[identifier].identifier, index };
            assert(self.view() =~= vx_old.view().insert(identifier, nl)) by {
                assert forall|i: entity::Identifier| self.resolves(i) == (i == identifier || vx_old.resolves(i)) by {
                    if i.index != identifier.index && i.index < vx_old.slots@.len() { assert(self.slots@[i.index as int] == vx_old.slots@[i.index as int]); }
                }
                assert forall|i: entity::Identifier| self.resolves(i) implies
                    #[trigger] self.view()[i] == vx_old.view().insert(identifier, nl)[i] by {
                    if i.index != identifier.index && i.index < vx_old.slots@.len() { assert(self.slots@[i.index as int] == vx_old.slots@[i.index as int]); }
                }
            }
            assert forall|s: int| 0 <= s < self.slots@.len() && (#[trigger] self.slots@[s]).location is None
                implies self.free@.contains(s as usize) by {
                assert(s != identifier.index);
                assert(vx_old.slots@[s].location is None);
            }
        }

    }

}

impl<R> Allocator<R> where R: Registry {
    pub fn shrink_to_fit(&mut self)
        ensures
            final(self).slots@ == old(self).slots@,
            final(self).free@ == old(self).free@,
            final(self).active_count() == old(self).active_count(),
    {

        self.free.shrink_to_fit();
    
    }

    pub unsafe fn clone(&self, identifier_map: &HashMap< archetype::IdentifierRef<R>, archetype::IdentifierRef<R>, FnvBuildHasher, >,) -> (r: Self)
        requires
            self.map_covers(identifier_map@),
        ensures
            r.is_remapped_copy_of(self, identifier_map@),
    {

        Self {
            slots: { let mut vx_v: Vec<Slot<R>> = Vec::new(); let mut vx_i: usize = 0; while vx_i < self.slots.len() 
            invariant
                vx_i <= self.slots@.len() && vx_v@.len() == vx_i,
                forall|s: int| 0 <= s < vx_i ==> (#[trigger] vx_v@[s]).generation == self.slots@[s].generation,
                forall|s: int| 0 <= s < vx_i ==> (#[trigger] vx_v@[s]).location == vx_remap(self.slots@[s].location, identifier_map@),
                self.map_covers(identifier_map@),
            decreases self.slots@.len() - vx_i
{
 let slot = &self.slots[vx_i];
 vx_v.push(unsafe {slot.clone_with_new_identifier(identifier_map)});
 vx_i += 1;
 } vx_v },
            free: self.free.clone(),
        }
    
    }

    pub unsafe fn clone_from(&mut self, source: &Self, identifier_map: &HashMap< archetype::IdentifierRef<R>, archetype::IdentifierRef<R>, FnvBuildHasher, >,)
        requires
            source.map_covers(identifier_map@),
        ensures
            final(self).is_remapped_copy_of(source, identifier_map@),
    {

        self.slots.clear();
        { let mut vx_i: usize = 0; while vx_i < source.slots.len() 
            invariant
                vx_i <= source.slots@.len() && self.slots@.len() == vx_i,
                forall|s: int| 0 <= s < vx_i ==> (#[trigger] self.slots@[s]).generation == source.slots@[s].generation,
                forall|s: int| 0 <= s < vx_i ==> (#[trigger] self.slots@[s]).location == vx_remap(source.slots@[s].location, identifier_map@),
                source.map_covers(identifier_map@),
            decreases source.slots@.len() - vx_i
{
 let slot = &source.slots[vx_i];
 self.slots.push(unsafe {slot.clone_with_new_identifier(identifier_map)});
 vx_i += 1;
 } }

        self.free = source.free.clone();
    
    }

}


/// Ghost history of one allocator: every identifier ever issued.
pub struct Hist {
    pub issued: ISet<entity::Identifier>,
}

impl<R: Registry> Allocator<R> {
    /// History invariant: every issued identifier belongs to an existing slot whose generation
    /// has reached it; every identifier that currently resolves was issued; and the generation a
    /// slot currently shows was issued (so the *next* one is new).
    pub open spec fn hist_inv(&self, h: Hist) -> bool {
        &&& forall|id: entity::Identifier| #[trigger] h.issued.contains(id) ==>
                id.index < self.slots@.len() && id.generation <= self.slots@[id.index as int].generation
        &&& forall|s: int| 0 <= s < self.slots@.len() ==>
                #[trigger] h.issued.contains(entity::Identifier { index: s as usize, generation: self.slots@[s].generation })
    }

    /// what `allocate` promises (conjunction of its labelled postconditions that C02 uses)
    pub open spec fn allocate_post(old: &Self, new: &Self, location: Location<R>, id: entity::Identifier) -> bool {
        &&& new.view() == old.view().insert(id, location)
        &&& !old.resolves(id)
        &&& id.index < old.slots@.len() ==> id.generation == old.slots@[id.index as int].generation.wrapping_add(1)
        &&& id.index >= old.slots@.len() ==> id.index == old.slots@.len() && id.generation == 0
        &&& new.slots@.len() == (if id.index < old.slots@.len() { old.slots@.len() } else { old.slots@.len() + 1 })
        &&& forall|s: int| 0 <= s < old.slots@.len() && s != id.index ==> new.slots@[s] == old.slots@[s]
        &&& new.resolves(id)
    }

    /// what `free_unchecked` promises
    pub open spec fn free_post(old: &Self, new: &Self, id: entity::Identifier) -> bool {
        &&& new.view() == old.view().remove(id)
        &&& new.slots@.len() == old.slots@.len()
        &&& forall|s: int| 0 <= s < old.slots@.len() ==> (#[trigger] new.slots@[s]).generation == old.slots@[s].generation
    }

    /// C02 "every identifier returned differs from every identifier returned before it":
    /// one allocation step from a state satisfying the history invariant issues an identifier
    /// never issued before, and re-establishes the invariant.  A5: the slot's generation has
    /// not wrapped.
    pub proof fn lemma_allocate_fresh(old: &Self, new: &Self, h: Hist, location: Location<R>, id: entity::Identifier)
        requires
            old.hist_inv(h),
            Self::allocate_post(old, new, location, id),
            id.index < old.slots@.len() ==> old.slots@[id.index as int].generation < u64::MAX,
        ensures
            !h.issued.contains(id),
            new.hist_inv(Hist { issued: h.issued.insert(id) }),
    {
        let h2 = Hist { issued: h.issued.insert(id) };
        assert(new.resolves(id));
        assert forall|i: entity::Identifier| #[trigger] h2.issued.contains(i) implies
            i.index < new.slots@.len() && i.generation <= new.slots@[i.index as int].generation by {
            if i == id {
            } else {
                assert(h.issued.contains(i));
                if i.index != id.index { assert(new.slots@[i.index as int] == old.slots@[i.index as int]); }
            }
        }
        assert forall|s: int| 0 <= s < new.slots@.len() implies
            #[trigger] h2.issued.contains(entity::Identifier { index: s as usize, generation: new.slots@[s].generation }) by {
            if s == id.index {
                assert(entity::Identifier { index: s as usize, generation: new.slots@[s].generation } == id);
            } else {
                assert(new.slots@[s] == old.slots@[s]);
                assert(h.issued.contains(entity::Identifier { index: s as usize, generation: old.slots@[s].generation }));
            }
        }
    }

    /// freeing keeps the history invariant (generations never go down)
    pub proof fn lemma_free_keeps_hist(old: &Self, new: &Self, h: Hist, id: entity::Identifier)
        requires old.hist_inv(h), Self::free_post(old, new, id),
        ensures new.hist_inv(h),
    {
        assert forall|s: int| 0 <= s < new.slots@.len() implies
            #[trigger] h.issued.contains(entity::Identifier { index: s as usize, generation: new.slots@[s].generation }) by {
            assert(new.slots@[s].generation == old.slots@[s].generation);
        }
    }

    /// C02 "once removed ... never resolves again even after its slot is reused": an identifier
    /// that was issued and does not resolve now does not resolve after any further allocation
    /// (the only operation that can make a slot active again), because the identifier then
    /// issued is fresh.
    pub proof fn lemma_dead_stays_dead(old: &Self, new: &Self, h: Hist, location: Location<R>, id: entity::Identifier, stale: entity::Identifier)
        requires
            old.hist_inv(h),
            Self::allocate_post(old, new, location, id),
            id.index < old.slots@.len() ==> old.slots@[id.index as int].generation < u64::MAX,
            h.issued.contains(stale),
            !old.resolves(stale),
        ensures
            !new.resolves(stale),
            stale != id,
    {
        Self::lemma_allocate_fresh(old, new, h, location, id);
        assert(new.view().dom().contains(stale) == old.view().insert(id, location).dom().contains(stale));
    }

    /// C02 "a live identifier keeps resolving to the same entity" across allocations and frees
    /// of *other* identifiers: whole-map equality gives it directly.
    pub proof fn lemma_live_stays_live(old: &Self, new: &Self, location: Location<R>, id: entity::Identifier, live: entity::Identifier)
        requires Self::allocate_post(old, new, location, id), old.resolves(live),
        ensures new.resolves(live), new.view()[live] == old.view()[live],
    {
        assert(old.view().dom().contains(live));
        assert(new.view().dom().contains(live));
    }

    pub proof fn lemma_free_other_stays_live(old: &Self, new: &Self, id: entity::Identifier, live: entity::Identifier)
        requires Self::free_post(old, new, id), old.resolves(live), live != id,
        ensures new.resolves(live), new.view()[live] == old.view()[live], !new.resolves(id),
    {
        assert(old.view().dom().contains(live));
        assert(new.view().dom().contains(live));
        assert(!new.view().dom().contains(id));
    }
}

/// reachability witnesses for the preconditions used above (vacuity guard)
pub proof fn witness_hist_inv_reachable<R: Registry>(a: &Allocator<R>)
    requires a.slots@.len() == 0,
    ensures a.hist_inv(Hist { issued: ISet::empty() }),
{
}


/// R10b: `assert!(c)` returns only if `c` holds (it panics, i.e. does not return, otherwise)
#[verifier::external_body]
pub fn vx_assert(c: bool)
    ensures c { unimplemented!() }
#[verifier::external_body]
pub fn vx_check_len<E>(e: &E) -> (b: bool) { unimplemented!() }


/// identifier `i` is attached to some stored row
pub open spec fn vx_stored<R: Registry>(m: IMap<archetype::IdentifierRef<R>, archetype::Archetype<R>>, i: entity::Identifier) -> bool {
    exists|k: archetype::IdentifierRef<R>, r: int| m.dom().contains(k) && 0 <= r < m[k].length && #[trigger] m[k].ids()[r] == i
}

/// W1: every table is well formed, keyed by its own key, and every stored row is reachable
/// through the identifier attached to it
pub open spec fn vx_tables_ok<R: Registry>(m: IMap<archetype::IdentifierRef<R>, archetype::Archetype<R>>, a: &Allocator<R>) -> bool {
    forall|k: archetype::IdentifierRef<R>| m.dom().contains(k) ==>
        (#[trigger] m[k]).wf() && m[k].key() == k && m[k].agrees(a)
}

/// `ks` lists every stored table key exactly once
pub open spec fn vx_enum<R: Registry>(m: IMap<archetype::IdentifierRef<R>, archetype::Archetype<R>>, ks: Seq<archetype::IdentifierRef<R>>) -> bool {
    &&& forall|i: int, j: int| 0 <= i < j < ks.len() ==> ks[i] != ks[j]
    &&& forall|k: archetype::IdentifierRef<R>| m.dom().contains(k) == ks.contains(k)
}
/// sum of the lengths of the tables under `ks`
pub open spec fn vx_sum_keys<R: Registry>(m: IMap<archetype::IdentifierRef<R>, archetype::Archetype<R>>, ks: Seq<archetype::IdentifierRef<R>>) -> nat
    decreases ks.len()
{
    if ks.len() == 0 { 0 } else { vx_sum_keys(m, ks.drop_last()) + m[ks.last()].length as nat }
}
/// C13: the number of stored entities (rows of all tables; independent of the enumeration, see
/// lemma_total_rows)
pub open spec fn vx_total_rows<R: Registry>(m: IMap<archetype::IdentifierRef<R>, archetype::Archetype<R>>) -> nat {
    vx_sum_keys(m, choose|ks: Seq<archetype::IdentifierRef<R>>| vx_enum(m, ks))
}
pub proof fn lemma_sum_remove<R: Registry>(m: IMap<archetype::IdentifierRef<R>, archetype::Archetype<R>>, b: Seq<archetype::IdentifierRef<R>>, j: int)
    requires 0 <= j < b.len(),
    ensures vx_sum_keys(m, b) == vx_sum_keys(m, b.remove(j)) + m[b[j]].length as nat
    decreases b.len()
{
    if j == b.len() - 1 {
        assert(b.remove(j) =~= b.drop_last());
    } else {
        assert(b.remove(j).drop_last() =~= b.drop_last().remove(j));
        assert(b.remove(j).last() == b.last());
        lemma_sum_remove(m, b.drop_last(), j);
    }
}
pub open spec fn vx_nodup<K>(a: Seq<K>) -> bool { forall|i: int, j: int| 0 <= i < j < a.len() ==> a[i] != a[j] }
/// two duplicate-free listings of the same key set have the same sum
pub proof fn lemma_sum_perm<R: Registry>(m: IMap<archetype::IdentifierRef<R>, archetype::Archetype<R>>, a: Seq<archetype::IdentifierRef<R>>, b: Seq<archetype::IdentifierRef<R>>)
    requires vx_nodup(a), vx_nodup(b), forall|k: archetype::IdentifierRef<R>| a.contains(k) == b.contains(k),
    ensures vx_sum_keys(m, a) == vx_sum_keys(m, b)
    decreases a.len()
{
    if a.len() == 0 {
        if b.len() > 0 { assert(b.contains(b[0])); assert(a.contains(b[0])); }
    } else {
        let x = a.last();
        assert(a.contains(x));
        assert(b.contains(x));
        let j = choose|j: int| 0 <= j < b.len() && b[j] == x;
        let a1 = a.drop_last();
        let b1 = b.remove(j);
        assert(vx_nodup(a1));
        assert(vx_nodup(b1)) by {
            assert forall|p: int, q: int| 0 <= p < q < b1.len() implies b1[p] != b1[q] by {
                let pp = if p < j { p } else { p + 1 };
                let qq = if q < j { q } else { q + 1 };
                assert(b1[p] == b[pp] && b1[q] == b[qq]);
            }
        }
        assert forall|k: archetype::IdentifierRef<R>| a1.contains(k) == b1.contains(k) by {
            if a1.contains(k) {
                let p = choose|p: int| 0 <= p < a1.len() && a1[p] == k;
                assert(a[p] == k); assert(k != x);
                assert(a.contains(k)); assert(b.contains(k));
                let q = choose|q: int| 0 <= q < b.len() && b[q] == k;
                assert(q != j);
                let qq = if q < j { q } else { q - 1 };
                assert(b1[qq] == k);
            }
            if b1.contains(k) {
                let q = choose|q: int| 0 <= q < b1.len() && b1[q] == k;
                let qq = if q < j { q } else { q + 1 };
                assert(b[qq] == k); assert(qq != j); assert(k != x);
                assert(b.contains(k)); assert(a.contains(k));
                let p = choose|p: int| 0 <= p < a.len() && a[p] == k;
                assert(p != a.len() - 1);
                assert(a1[p] == k);
            }
        }
        lemma_sum_perm(m, a1, b1);
        lemma_sum_remove(m, b, j);
    }
}
pub proof fn lemma_total_rows<R: Registry>(m: IMap<archetype::IdentifierRef<R>, archetype::Archetype<R>>, ks: Seq<archetype::IdentifierRef<R>>)
    requires vx_enum(m, ks),
    ensures vx_total_rows(m) == vx_sum_keys(m, ks)
{
    let c = choose|c: Seq<archetype::IdentifierRef<R>>| vx_enum(m, c);
    assert(vx_enum(m, c));
    assert forall|k: archetype::IdentifierRef<R>| c.contains(k) == ks.contains(k) by { assert(m.dom().contains(k) == c.contains(k)); }
    lemma_sum_perm(m, c, ks);
}
pub proof fn lemma_sum_take_step<R: Registry>(m: IMap<archetype::IdentifierRef<R>, archetype::Archetype<R>>, ks: Seq<archetype::IdentifierRef<R>>, n: int)
    requires 0 <= n < ks.len(),
    ensures vx_sum_keys(m, ks.take(n + 1)) == vx_sum_keys(m, ks.take(n)) + m[ks[n]].length as nat
{
    assert(ks.take(n + 1).drop_last() =~= ks.take(n));
    assert(ks.take(n + 1).last() == ks[n]);
}

pub mod entities {
    use super::*;
pub struct Batch<Entities> {
    pub entities: Entities,
    pub len: usize,
}


    impl<Entities> Batch<Entities> {
        /// type invariant established by both constructors
        pub open spec fn wf(&self) -> bool { self.len == archetype::vx_batch_rows(self.entities).len() }
    }

impl<Entities> Batch<Entities> {
    pub fn new(entities: Entities) -> (r: Self)
        ensures
            r.wf() && r.entities == entities,
    {

        vx_assert(vx_check_len(&entities));

        unsafe { Self::new_unchecked(entities) }
    
    }

    pub unsafe fn new_unchecked(entities: Entities) -> (r: Self)
        ensures
            r.wf() && r.entities == entities,
    {

        Self {
            len: archetype::vx_component_len(&entities),
            entities,
        }
    
    }

    pub fn len(&self) -> (n: usize)
        ensures
            n == self.len,
    {

        self.len
    
    }

}

}

// ---- unit qiter: externals of the sequential query iterator
/// identity of one query result: (table token, row)
pub struct VxItemId<R: Registry> { pub table: archetype::IdentifierRef<R>, pub row: int }
/// A6/K-view: does the filter `And<Views, Filter>` accept a table with these component bits
pub uninterp spec fn vx_matches<R: Registry, F, V>(t: archetype::Archetype<R>) -> bool;
/// the results of one table: one item per stored row
pub open spec fn vx_items_of<R: Registry>(t: archetype::Archetype<R>) -> Seq<VxItemId<R>> {
    Seq::new(t.length as nat, |r: int| VxItemId { table: t.key(), row: r })
}
/// C03: the results of a sequence of tables under the filter
pub open spec fn vx_flat<R: Registry, F, V>(ts: Seq<archetype::Archetype<R>>) -> Seq<VxItemId<R>>
    decreases ts.len()
{
    if ts.len() == 0 { Seq::empty() }
    else { (if vx_matches::<R, F, V>(ts[0]) { vx_items_of(ts[0]) } else { Seq::empty() }) + vx_flat::<R, F, V>(ts.skip(1)) }
}
/// index of the first table the filter accepts (or the length)
pub open spec fn vx_first_match<R: Registry, F, V>(ts: Seq<archetype::Archetype<R>>) -> int
    decreases ts.len()
{
    if ts.len() == 0 { 0 } else if vx_matches::<R, F, V>(ts[0]) { 0 } else { 1 + vx_first_match::<R, F, V>(ts.skip(1)) }
}
pub proof fn lemma_first_match<R: Registry, F, V>(ts: Seq<archetype::Archetype<R>>)
    ensures ({ let n = vx_first_match::<R, F, V>(ts);
        &&& 0 <= n <= ts.len()
        &&& n == ts.len() ==> vx_flat::<R, F, V>(ts) =~= Seq::empty()
        &&& n < ts.len() ==> vx_matches::<R, F, V>(ts[n]) && vx_flat::<R, F, V>(ts) =~= vx_items_of(ts[n]) + vx_flat::<R, F, V>(ts.skip(n + 1)) })
    decreases ts.len()
{
    if ts.len() > 0 && !vx_matches::<R, F, V>(ts[0]) {
        lemma_first_match::<R, F, V>(ts.skip(1));
        let n = vx_first_match::<R, F, V>(ts);
        if n < ts.len() { assert(ts.skip(1).skip(n - 1 + 1) =~= ts.skip(n + 1)); }
    }
}
/// every item of `vx_flat` is a stored row of an accepted table of `ts`, and every such row occurs
pub proof fn lemma_flat_sound<R: Registry, F, V>(ts: Seq<archetype::Archetype<R>>, i: int)
    requires 0 <= i < vx_flat::<R, F, V>(ts).len(),
    ensures exists|j: int| 0 <= j < ts.len() && vx_matches::<R, F, V>(#[trigger] ts[j]) && vx_flat::<R, F, V>(ts)[i].table == ts[j].key() && 0 <= vx_flat::<R, F, V>(ts)[i].row < ts[j].length
    decreases ts.len()
{
    let head = if vx_matches::<R, F, V>(ts[0]) { vx_items_of(ts[0]) } else { Seq::empty() };
    if i < head.len() {
        assert(vx_flat::<R, F, V>(ts)[i] == head[i]);
        assert(vx_matches::<R, F, V>(ts[0]));
    } else {
        assert(vx_flat::<R, F, V>(ts)[i] == vx_flat::<R, F, V>(ts.skip(1))[i - head.len()]);
        lemma_flat_sound::<R, F, V>(ts.skip(1), i - head.len());
        let j = choose|j: int| 0 <= j < ts.skip(1).len() && vx_matches::<R, F, V>(#[trigger] ts.skip(1)[j]) && vx_flat::<R, F, V>(ts.skip(1))[i - head.len()].table == ts.skip(1)[j].key() && 0 <= vx_flat::<R, F, V>(ts.skip(1))[i - head.len()].row < ts.skip(1)[j].length;
        assert(ts.skip(1)[j] == ts[j + 1]);
    }
}
pub proof fn lemma_flat_complete<R: Registry, F, V>(ts: Seq<archetype::Archetype<R>>, j: int, r: int)
    requires 0 <= j < ts.len(), vx_matches::<R, F, V>(ts[j]), 0 <= r < ts[j].length,
    ensures vx_flat::<R, F, V>(ts).contains(VxItemId { table: ts[j].key(), row: r })
    decreases ts.len()
{
    let head = if vx_matches::<R, F, V>(ts[0]) { vx_items_of(ts[0]) } else { Seq::empty() };
    if j == 0 {
        assert(vx_flat::<R, F, V>(ts)[r] == head[r]);
    } else {
        assert(ts.skip(1)[j - 1] == ts[j]);
        lemma_flat_complete::<R, F, V>(ts.skip(1), j - 1, r);
        let x = VxItemId { table: ts[j].key(), row: r };
        let i = choose|i: int| 0 <= i < vx_flat::<R, F, V>(ts.skip(1)).len() && vx_flat::<R, F, V>(ts.skip(1))[i] == x;
        assert(vx_flat::<R, F, V>(ts)[head.len() + i] == x);
    }
}

// ---- A3: archetypes::IterMut (hashbrown RawIter): the tables still to come
#[verifier::external_body]
#[verifier::accept_recursive_types(R)]
pub struct VxTableIter<'a, R: Registry> { p: PhantomData<&'a R> }
impl<'a, R: Registry> VxTableIter<'a, R> {
    pub uninterp spec fn rest(&self) -> Seq<archetype::Archetype<R>>;
    /// A1: `Iterator::find(|t| filter(t))` -- std's definition: advance to the first accepted element
    #[verifier::external_body]
    pub fn vx_find<F, V>(&mut self) -> (r: Option<&'a mut archetype::Archetype<R>>)
        ensures
            ({ let n = vx_first_match::<R, F, V>(old(self).rest());
               &&& n == old(self).rest().len() ==> r is None && final(self).rest().len() == 0
               &&& n < old(self).rest().len() ==> r is Some && *r->0 == old(self).rest()[n] && final(self).rest() == old(self).rest().skip(n + 1) }),
    { unimplemented!() }
    #[verifier::external_body]
    pub fn next(&mut self) -> (r: Option<&'a mut archetype::Archetype<R>>)
        ensures old(self).rest().len() == 0 ==> r is None && final(self).rest() == old(self).rest(),
                old(self).rest().len() > 0 ==> r is Some && *r->0 == old(self).rest()[0] && final(self).rest() == old(self).rest().skip(1)
    { unimplemented!() }
    /// hashbrown's RawIter knows the exact number of remaining elements
    #[verifier::external_body]
    pub fn size_hint(&self) -> (r: (usize, Option<usize>))
        ensures r.0 == self.rest().len(), r.1 == Some(r.0)
    { unimplemented!() }
}
// ---- R6: the row iterator of one table (zip of the viewed columns; K-view)
#[verifier::external_body]
#[verifier::accept_recursive_types(R)]
#[verifier::accept_recursive_types(V)]
pub struct VxRowIter<R: Registry, V> { p: PhantomData<(R, V)> }
#[verifier::external_body]
#[verifier::accept_recursive_types(R)]
#[verifier::accept_recursive_types(V)]
pub struct VxItem<R: Registry, V> { p: PhantomData<(R, V)> }
impl<R: Registry, V> VxItem<R, V> { pub uninterp spec fn id(&self) -> VxItemId<R>; }
/// the user's fold closure: records the items it was applied to
#[verifier::external_body]
#[verifier::accept_recursive_types(R)]
#[verifier::accept_recursive_types(A)]
pub struct VxFold<R: Registry, A> { p: PhantomData<(R, A)> }
impl<R: Registry, A> VxFold<R, A> { pub uninterp spec fn seen(&self) -> Seq<VxItemId<R>>; }
impl<R: Registry, V> VxRowIter<R, V> {
    pub uninterp spec fn items(&self) -> Seq<VxItemId<R>>;
    #[verifier::external_body]
    pub fn next(&mut self) -> (r: Option<VxItem<R, V>>)
        ensures
            old(self).items().len() == 0 ==> r is None && final(self).items() == old(self).items(),
            old(self).items().len() > 0 ==> r is Some && r->0.id() == old(self).items()[0] && final(self).items() == old(self).items().skip(1),
    { unimplemented!() }
    #[verifier::external_body]
    pub fn size_hint(&self) -> (r: (usize, Option<usize>))
        ensures r.0 == self.items().len(), r.1 == Some(r.0)
    { unimplemented!() }
    #[verifier::external_body]
    pub fn fold<A>(self, init: A, f: &mut VxFold<R, A>) -> (r: A)
        ensures final(f).seen() == old(f).seen() + self.items()
    { unimplemented!() }
}
#[verifier::external_body]
pub fn vx_view_rows<R: Registry, V>(t: &mut archetype::Archetype<R>) -> (r: VxRowIter<R, V>)
    ensures r.items() == vx_items_of(*old(t)), *final(t) == *old(t)
{ unimplemented!() }
#[verifier::external_body]
pub fn vx_filter<R: Registry, F, V>(t: &archetype::Archetype<R>) -> (b: bool) ensures b == vx_matches::<R, F, V>(*t) { unimplemented!() }

pub struct Iter<'a, Registry, Filter, Views, Indices>
where
    Registry: crate::Registry,
     {
    pub archetypes_iter: VxTableIter<'a, Registry>,

    pub current_results_iter: Option<VxRowIter<Registry, Views>>,

    pub filter: PhantomData<Filter>,
    pub indices: PhantomData<Indices>,
}


impl<'a, Registry: crate::Registry, Filter, Views, Indices> Iter<'a, Registry, Filter, Views, Indices> {
    /// C03: the results this iterator has yet to produce, in order
    pub open spec fn pending(&self) -> Seq<VxItemId<Registry>> {
        (match self.current_results_iter { Some(it) => it.items(), None => Seq::empty() }) + vx_flat::<Registry, Filter, Views>(self.archetypes_iter.rest())
    }
}

impl<'a, Registry: crate::Registry, Filter, Views, Indices> Iter<'a, Registry, Filter, Views, Indices> {
    pub fn new(archetypes_iter: VxTableIter<'a, Registry>) -> (r: Self)
        ensures
            r.pending() =~= vx_flat::<Registry, Filter, Views>(archetypes_iter.rest()),
    {

        Self {
            archetypes_iter,

            current_results_iter: None,

            filter: PhantomData,
            indices: PhantomData,
        }
    
    }

    pub fn next(&mut self) -> (r: Option<VxItem<Registry, Views>>)
        ensures
            old(self).pending().len() == 0 ==> r is None && final(self).pending().len() == 0,
            old(self).pending().len() > 0 ==> r is Some && r->0.id() == old(self).pending()[0] && final(self).pending() =~= old(self).pending().skip(1),
    {

        loop 
            invariant
                self.pending() =~= old(self).pending(),
            decreases self.archetypes_iter.rest().len()
{
            if let Some(ref mut results) = self.current_results_iter {
                let result = results.next(); if result.is_some() { return result; }
            }
proof { lemma_first_match::<Registry, Filter, Views>(self.archetypes_iter.rest()); }
            let archetype = match self.archetypes_iter.vx_find::<Filter, Views>() { Some(vx_t) => vx_t, None => { return None; } };
            self.current_results_iter = Some(

                vx_view_rows::<Registry, Views>(archetype),
            );
        }
    
    }

    pub fn size_hint(&self) -> (r: (usize, Option<usize>))
        ensures
            r.0 <= self.pending().len(),
            r.1 is Some ==> self.pending().len() <= r.1->0,
    {

proof { lemma_first_match::<Registry, Filter, Views>(self.archetypes_iter.rest()); }

        let (low, high) = match &self.current_results_iter { Some(vx_x) => vx_x.size_hint(), None => (0, Some(0)) };
        match (self.archetypes_iter.size_hint(), high) {
            ((0, Some(0)), Some(_)) => (low, high),
            _ => (low, None),
        }
    
    }

    pub fn fold<A>(self, mut init: A, mut fold: VxFold<Registry, A>) -> (r: (A, VxFold<Registry, A>))
        ensures
            r.1.seen() =~= fold.seen() + self.pending(),
    {

let ghost vx_s0 = fold.seen();

        if let Some(results) = self.current_results_iter {
            init = results.fold(init, &mut fold);
        }

        let mut vx_it = self.archetypes_iter; let mut acc = init;
let ghost vx_ts = vx_it.rest(); let ghost vx_cur = fold.seen();

        loop 
            invariant
                fold.seen() + vx_flat::<Registry, Filter, Views>(vx_it.rest()) =~= vx_cur + vx_flat::<Registry, Filter, Views>(vx_ts),
            ensures
                vx_it.rest().len() == 0,
            decreases vx_it.rest().len()
{
            match vx_it.next() {
                Some(archetype) => { acc = {

            if vx_filter::<Registry, Filter, Views>(archetype) {

                vx_view_rows::<Registry, Views>(archetype)
                .fold(acc, &mut fold)
            } else {
                acc
            }
        }; }
                None => { break; }
            }
        }
proof { assert(fold.seen() =~= vx_s0 + self.pending()); }
        (acc, fold)
    }

}


// ---- unit qiter, parallel leg: externals of query/result/par_iter.rs (rayon plumbing, A11)
/// rayon's `Consumer::Result` of the user's consumer, as the multiset of items that went into it
#[verifier::external_body]
#[verifier::accept_recursive_types(R)]
pub struct VxParResult<R: Registry> { p: PhantomData<R> }
impl<R: Registry> VxParResult<R> { pub uninterp spec fn items(&self) -> vstd::multiset::Multiset<VxItemId<R>>; }
#[verifier::external_body]
#[verifier::accept_recursive_types(R)]
pub struct VxReducer<R: Registry> { p: PhantomData<R> }
impl<R: Registry> VxReducer<R> {
    /// rayon `Reducer::reduce`: the union of what both sides consumed
    #[verifier::external_body]
    pub fn reduce(self, a: VxParResult<R>, b: VxParResult<R>) -> (r: VxParResult<R>)
        ensures r.items() == a.items().add(b.items()) { unimplemented!() }
}
#[verifier::external_body]
#[verifier::accept_recursive_types(R)]
pub struct VxParFolder<R: Registry> { p: PhantomData<R> }
impl<R: Registry> VxParFolder<R> {
    /// a folder that was fed nothing completes to the empty result
    #[verifier::external_body]
    pub fn complete(self) -> (r: VxParResult<R>) ensures r.items() == vstd::multiset::Multiset::<VxItemId<R>>::empty() { unimplemented!() }
}
/// the user's rayon consumer
#[verifier::external_body]
#[verifier::accept_recursive_types(R)]
pub struct VxConsumer<R: Registry> { p: PhantomData<R> }
impl<R: Registry> VxConsumer<R> {
    #[verifier::external_body]
    pub fn split_off_left(&self) -> (r: VxConsumer<R>) { unimplemented!() }
    #[verifier::external_body]
    pub fn to_reducer(&self) -> (r: VxReducer<R>) { unimplemented!() }
    #[verifier::external_body]
    pub fn into_folder(self) -> (r: VxParFolder<R>) { unimplemented!() }
    #[verifier::external_body]
    pub fn full(&self) -> (r: bool) { unimplemented!() }
}
/// R6: the parallel row iterator of one table (`Archetype::par_view(..).reshape().into_parallel_iterator()`;
/// K-parview decides the columns per instance)
#[verifier::external_body]
#[verifier::accept_recursive_types(R)]
#[verifier::accept_recursive_types(V)]
pub struct VxParRows<R: Registry, V> { p: PhantomData<(R, V)> }
impl<R: Registry, V> VxParRows<R, V> {
    pub uninterp spec fn items(&self) -> Seq<VxItemId<R>>;
    /// rayon drives every item of an indexed parallel iterator into the consumer exactly once
    #[verifier::external_body]
    pub fn drive_unindexed(self, consumer: VxConsumer<R>) -> (r: VxParResult<R>)
        ensures r.items() == self.items().to_multiset() { unimplemented!() }
}
#[verifier::external_body]
pub fn vx_par_view_rows<R: Registry, V>(t: &mut archetype::Archetype<R>) -> (r: VxParRows<R, V>)
    ensures r.items() == vx_items_of(*old(t)), *final(t) == *old(t)
{ unimplemented!() }

pub struct ResultsFolder<Consumer, Previous, Filter, Views, Indices> {
    pub base: Consumer,
    pub previous: Option<Previous>,

    pub filter: PhantomData<Filter>,
    pub views: PhantomData<Views>,
    pub indices: PhantomData<Indices>,
}


impl<Registry: crate::Registry, Filter, Views, Indices> ResultsFolder<VxConsumer<Registry>, VxParResult<Registry>, Filter, Views, Indices> {
    /// C09: what this folder has driven into the user's consumer so far
    pub open spec fn acc(&self) -> vstd::multiset::Multiset<VxItemId<Registry>> {
        match self.previous { Some(p) => p.items(), None => vstd::multiset::Multiset::empty() }
    }
}

impl<Registry: crate::Registry, Filter, Views, Indices> ResultsFolder<VxConsumer<Registry>, VxParResult<Registry>, Filter, Views, Indices> {
    pub fn consume(self, archetype: &mut archetype::Archetype<Registry>) -> (r: Self)
        ensures
            r.acc() == self.acc().add(if vx_matches::<Registry, Filter, Views>(*old(archetype)) { vx_items_of(*old(archetype)).to_multiset() } else { vstd::multiset::Multiset::empty() }),
            *final(archetype) == *old(archetype),
    {


        if vx_filter::<Registry, Filter, Views>(archetype) {
            let consumer = self.base.split_off_left();
            let result =

                vx_par_view_rows::<Registry, Views>(archetype).drive_unindexed(consumer);

            let previous = match self.previous {
                None => Some(result),
                Some(previous) => {
                    let reducer = self.base.to_reducer();
                    Some(reducer.reduce(previous, result))
                }
            };

            ResultsFolder {
                base: self.base,
                previous,

                filter: self.filter,
                views: self.views,
                indices: self.indices,
            }
        } else {
            self
        }
    
    }

    pub fn complete(self) -> (r: VxParResult<Registry>)
        ensures
            r.items() == self.acc(),
    {

        match self.previous {
            Some(previous) => previous,
            None => self.base.into_folder().complete(),
        }
    
    }

    pub fn full(&self) -> (r: bool)
    {

        self.base.full()
    
    }

}


// ---- unit qiter, claims leg: externals of query/result/archetype_claims.rs
/// does filter `F` accept a table with this identifier (`ContainsFilterSealed<F, _>::filter`; K-view)
pub uninterp spec fn vx_matches_id<R: Registry, F>(k: archetype::IdentifierRef<R>) -> bool;
#[verifier::external_body]
pub fn vx_filter_id<R: Registry, F>(k: archetype::IdentifierRef<R>) -> (b: bool) ensures b == vx_matches_id::<R, F>(k) { unimplemented!() }
/// R6: `R::Claims` of the query views joined with those of the entry views (K-claim)
#[verifier::external_body]
#[verifier::accept_recursive_types(R)]
pub struct VxTaskClaims<R: Registry> { p: PhantomData<R> }
pub uninterp spec fn vx_claims_of<R: Registry, V, EV>() -> VxTaskClaims<R>;
#[verifier::external_body]
pub fn vx_view_claims<R: Registry, V, EV>() -> (c: VxTaskClaims<R>) ensures c == vx_claims_of::<R, V, EV>() { unimplemented!() }
/// index of the first table filter `F` accepts (or the length)
pub open spec fn vx_first_match_id<R: Registry, F>(ts: Seq<archetype::Archetype<R>>) -> int
    decreases ts.len()
{
    if ts.len() == 0 { 0 } else if vx_matches_id::<R, F>(ts[0].key()) { 0 } else { 1 + vx_first_match_id::<R, F>(ts.skip(1)) }
}
pub proof fn lemma_first_match_id<R: Registry, F>(ts: Seq<archetype::Archetype<R>>, n: int)
    requires 0 <= n <= ts.len(), forall|j: int| 0 <= j < n ==> !vx_matches_id::<R, F>((#[trigger] ts[j]).key()),
             n < ts.len() ==> vx_matches_id::<R, F>(ts[n].key()),
    ensures vx_first_match_id::<R, F>(ts) == n
    decreases ts.len()
{
    if ts.len() > 0 && n > 0 {
        assert(!vx_matches_id::<R, F>(ts[0].key()));
        assert forall|j: int| 0 <= j < n - 1 implies !vx_matches_id::<R, F>((#[trigger] ts.skip(1)[j]).key()) by { assert(ts.skip(1)[j] == ts[j + 1]); }
        if n < ts.len() { assert(ts.skip(1)[n - 1] == ts[n]); }
        lemma_first_match_id::<R, F>(ts.skip(1), n - 1);
    }
}

pub struct ArchetypeClaims<
    'a,
    Registry,
    Views,
    QueryFilter,
    Filter,
    EntryViews,
    QueryIndices,
    FilterIndices,
    EntryViewsIndices,
> where
    Registry: crate::Registry, {
    pub archetypes_iter: VxTableIter<'a, Registry>,

    pub views: PhantomData<Views>,
    pub query_filter: PhantomData<QueryFilter>,
    pub filter: PhantomData<Filter>,
    pub entry_views: PhantomData<EntryViews>,
    pub query_indices: PhantomData<QueryIndices>,
    pub filter_indices: PhantomData<FilterIndices>,
    pub entry_views_indices: PhantomData<EntryViewsIndices>,
}

impl<'a, Registry: crate::Registry, Views, QueryFilter, Filter, EntryViews, QueryIndices, FilterIndices, EntryViewsIndices> ArchetypeClaims<'a, Registry, Views, QueryFilter, Filter, EntryViews, QueryIndices, FilterIndices, EntryViewsIndices> {
    pub fn next(&mut self) -> (r: Option<(archetype::IdentifierRef<Registry>, VxTaskClaims<Registry>)>)
        ensures
            ({ let n = vx_first_match_id::<Registry, Filter>(old(self).archetypes_iter.rest()); &&& n == old(self).archetypes_iter.rest().len() ==> r is None && final(self).archetypes_iter.rest().len() == 0 &&& n < old(self).archetypes_iter.rest().len() ==> r == Some((old(self).archetypes_iter.rest()[n].key(), vx_claims_of::<Registry, Views, EntryViews>())) && final(self).archetypes_iter.rest() == old(self).archetypes_iter.rest().skip(n + 1) }),
    {

let ghost vx_ts = self.archetypes_iter.rest();

        let mut vx_found: Option<&mut archetype::Archetype<Registry>> = None;
        loop 
            invariant_except_break
                self.archetypes_iter.rest().len() <= vx_ts.len() && self.archetypes_iter.rest() == vx_ts.skip(vx_ts.len() - self.archetypes_iter.rest().len()) && forall|j: int| 0 <= j < vx_ts.len() - self.archetypes_iter.rest().len() ==> !vx_matches_id::<Registry, Filter>((#[trigger] vx_ts[j]).key()),
                vx_found is None,
            ensures
                self.archetypes_iter.rest().len() <= vx_ts.len() && (vx_found is None ==> self.archetypes_iter.rest().len() == 0 && forall|j: int| 0 <= j < vx_ts.len() ==> !vx_matches_id::<Registry, Filter>((#[trigger] vx_ts[j]).key())) && (vx_found is Some ==> ({ let k = vx_ts.len() - self.archetypes_iter.rest().len() - 1; 0 <= k < vx_ts.len() && *vx_found->0 == vx_ts[k] && vx_matches_id::<Registry, Filter>(vx_ts[k].key()) && self.archetypes_iter.rest() == vx_ts.skip(k + 1) && forall|j: int| 0 <= j < k ==> !vx_matches_id::<Registry, Filter>((#[trigger] vx_ts[j]).key()) })),
            decreases self.archetypes_iter.rest().len()
{
proof { let k = vx_ts.len() - self.archetypes_iter.rest().len(); if k < vx_ts.len() { assert(vx_ts.skip(k)[0] == vx_ts[k]); assert(vx_ts.skip(k).skip(1) =~= vx_ts.skip(k + 1)); } }
            match self.archetypes_iter.next() {
                Some(archetype) => { if { 

                unsafe {
                    vx_filter_id::<Registry, Filter>(archetype.identifier(),
                    )
                }
             } { vx_found = Some(archetype); break; } }
                None => { break; }
            }
        }
proof { if vx_found is Some { lemma_first_match_id::<Registry, Filter>(vx_ts, vx_ts.len() - self.archetypes_iter.rest().len() - 1); } else { lemma_first_match_id::<Registry, Filter>(vx_ts, vx_ts.len() as int); } }
        match vx_found { Some(archetype) => Some({ 
                (

                    unsafe { archetype.identifier() },

                    unsafe {
                        vx_view_claims::<Registry, Views, EntryViews>()
                    },
                )
             }), None => None }

    }

}

} // verus!
fn main() {}
