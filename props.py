"""Which engines / units / harness families decide which property, and at which level.

`v`: Verus units (vx/specs/<name>.py).  `k`: Kani harness families, see KFAMILIES.
`k_thorough`: families added in the thorough tier.
"""

# Kani families: filters are substrings of fully qualified harness names.
KFAMILIES = {
    "K-claim": {"filters": ["query::view::claim::verif_kani::"], "bounded": None,
                "note": "finite domain (3 claims per position, lists of length <= 3): complete"},
    "K-col": {"filters": ["archetype::verif_kani::col_"], "extra": ["--cbmc-args", "--memory-leak-check"], "bounded": "rows <= 3, registry K3 = (Z zero-sized+Drop, S u8, T 16-aligned Drop/Clone-tracked), archetype shapes fixed per harness; payloads and row indices symbolic",
              "note": "contract harnesses of the real column store through Archetype operations, with CBMC's memory model and a ghost drop ledger"},
    "K-alloc": {"filters": ["entity::allocator::verif_kani::pair_"], "bounded": "<= 3 slots, 6 allocator shapes, batches of 0..=3; generations and rows symbolic",
                "note": "bounded twins of the V-alloc contracts; referee only, never counted as proof"},
}

PROPS = {
    "C02": {
        "level": "proof",
        "v": ["arch"],
        "k": [],
        "k_thorough": ["K-alloc"],
        "referee": ["K-alloc", "K-col"],
        "assumptions": ["A1", "A2", "A5"],
        "technique": "contract-based deductive verification: Verus pre/postconditions, loop invariants and history lemmas on the real allocator functions extracted from /repo each run",
        "level_text": "Unbounded proof (Verus/Z3) that every allocator operation extracted from the working tree meets a contract stated over the abstract map identifier->location: allocate/allocate_batch return identifiers that did not resolve before, bump the slot generation on reuse, leave every other slot unchanged; free makes exactly that identifier dead; lookups equal the abstract map. History lemmas over the postcondition predicates give: issued identifiers are pairwise distinct over the whole lifetime, a dead identifier stays dead across any later reuse, live ones keep resolving.",
        "level_note": "Assumes vstd's specs of Vec/VecDeque/Range/Option, the extraction rules (unsafe get_unchecked -> index with the bound as proof obligation; extend(map) -> push loop), and that a slot generation never wraps (A5). World-level composition (archetype fix-ups, clone, serde) is decided by the units listed in coverage when built; until then those legs are in coverage.not_covered.",
        "not_covered": ["location fix-up after swap-remove in archetype/mod.rs (unit V-arch)", "clone / serde legs (units V-clone, V-deser)", "shrink_to_fit of Archetypes (hashbrown)"],
    },
    "C13": {
        "level": "proof",
        "v": ["arch"],
        "k": [],
        "k_thorough": ["K-alloc"],
        "referee": ["K-alloc", "K-col"],
        "assumptions": ["A1", "A2", "A5"],
        "technique": "contract-based deductive verification: Verus representation invariant (free list == inactive slots, no duplicates, in bounds) as postcondition and loop invariant of every real allocator operation",
        "level_text": "Unbounded proof (Verus/Z3) that every allocator operation preserves the representation invariant wf: every free index is in bounds and names an inactive slot, no index is listed twice, and every inactive slot is listed (none lost) -- for all free-list lengths, batch sizes and histories, because the invariant is proved inductive per operation from a symbolic state.",
        "level_note": "Assumes vstd's specs of Vec/VecDeque/Range/Option and the extraction rules. The archetype side of the correspondence (rows <-> slots, one table per component set) is decided by units V-arch / V-world / V-archs when built; until then listed in coverage.not_covered.",
        "not_covered": ["row <-> slot bijection across archetypes (V-arch, V-world)", "single table per component set (Archetypes lookup tables, hashbrown)"],
    },
    "C04": {
        "level": "other",
        "v": [],
        "k": ["K-col"],
        "k_thorough": [],
        "assumptions": ["A2", "A6", "A7", "A8"],
        "technique": "contract checking with Kani on the real column store: contract harnesses (documented safety precondition assumed, postcondition asserted) with a ghost drop ledger, bounded rows/registry",
        "level_text": "Bounded contract checking (Kani/CBMC, exhaustive over payloads, row indices and the listed table shapes; rows <= 3, registry K3). Each harness calls the real Archetype/column functions under their documented preconditions and asserts, through a ghost ledger written by the components' own Drop/Clone, that every value is dropped exactly once and at the moment the property names: remove drops the removed row only, set_component drops the old value only, a shape change drops nothing except the component detached by Entry::remove, clear drops all, clone/clone_from produce independently owned values and drop what they replace, dropping the table drops the rest. Includes zero-sized and over-aligned components.",
        "level_note": "Not a proof: uniformity in row count and registry shape is not shown (A7). Resources and whole-world drop order are plain ownership of safe fields (A8). The serde paths are covered under C11 when built.",
        "explanation": "K-col harnesses: see coverage.kani for per-harness CBMC check counts; bounds in coverage.kani_families",
        "bounded": ["rows <= 3", "registry K3 = (Z, S, T)", "table shapes fixed per harness"],
        "not_covered": ["deserialization error paths (C11)", "World-level drop order (safe Rust ownership)"],
    },
    "C05": {
        "level": "other",
        "v": ["arch"],
        "k": ["K-col"],
        "k_thorough": [],
        "assumptions": ["A1", "A2", "A5", "A6", "A7"],
        "technique": "assume/guarantee contracts: Verus proves every call into unsafe code meets the callee's documented safety precondition (index bounds, from_raw_parts length, live identifier); Kani checks the unsafe callees are memory-safe under that precondition (CBMC memory model), bounded",
        "level_text": "Two-sided contract argument. (1) Verus, unbounded: in the extracted allocator and archetype functions every get_unchecked / unwrap_unchecked / from_raw_parts length argument is a discharged proof obligation, and every call of an unsafe callee is checked against that callee's `# Safety` text stated as `requires`. (2) Kani, bounded (rows <= 3, registry K3 with zero-sized, 1-byte and 16-aligned drop-tracked columns): the real column functions run under CBMC's memory model -- out-of-bounds or dangling dereference, double free, dealloc with a size different from the allocation, reinterpretation of a cell as another component type (the ledger's id check) all fail a check.",
        "level_note": "Bounded on the raw-memory side (A7); Kani does not model allocation alignment or realloc old-size (A6). hashbrown-backed lookups (Archetypes) are outside both engines. View construction (registry/sealed/view.rs) is covered under C03 when built.",
        "explanation": "V unit arch (index/unwrap/raw-parts obligations) + K-col harnesses under CBMC memory model",
        "bounded": ["rows <= 3", "registry K3 = (Z, S, T)"],
        "not_covered": ["src/archetypes/mod.rs lookup tables (hashbrown)", "par_view.rs (rayon)", "view.rs (see C03)"],
    },
    "C08": {
        "level": "proof",
        "v": [],
        "k": ["K-claim"],
        "k_thorough": [],
        "assumptions": ["A2"],
        "technique": "contract-based verification with Kani: function contract on the real Claim::try_merge (proof_for_contract) plus loop-free full-domain contract harnesses of the Claims list merge",
        "level_text": "Complete (finite full-domain, loop-free) Kani proof that the run-time conflict decision kernel -- Claim::try_merge and its lifting to claim lists -- is exactly the read/write conflict relation: None iff one side is Mutable and the other is not None, else the join. Only this kernel is decided; the fork/join structure of stage.rs (hashbrown map, rayon::join) and the compile-time view-kind table are not within reach of a contract verifier here.",
        "level_note": "Kernel only. Not decided: that stage.rs consults the kernel for every pair of overlapping tasks, that archetype claims cover every archetype a task can reach, rayon. See coverage.not_covered.",
        "not_covered": ["system/schedule/stage.rs fork/join and has_run flags", "query/result/archetype_claims.rs iteration over the hashbrown table", "system/schedule/claim/verifier.rs (type-level)"],
    },
}

# Assumption texts (DESIGN.md section 7); evidence lists the ones a property's engines rely on.
ASSUMPTIONS = {
    "A1": "A1 std Vec/VecDeque/Option/Range behave as vstd (and the assume_specification items in the emitted file) say; Vec::extend(iter.map(f)) pushes f(x) in iteration order",
    "A2": "A2 Verus/Z3 and Kani/CBMC/CaDiCaL are sound; the extractor's rewrite rules (vx/vxlib.py RULES, listed with counts in coverage.extraction) preserve meaning",
    "A3": "A3 hashbrown RawTable/HashMap/HashSet behave as maps/sets for a consistent hasher",
    "A5": "A5 no slot is reused 2^64 times (generation.wrapping_add(1) never wraps); slots.len() + batch length fits usize",
    "A6": "A6 Kani does not model allocation alignment or realloc old-size; TypeId equality is type equality",
    "A7": "A7 Kani results hold for the harness registries and row bounds stated per harness; uniformity in row count / registry shape is not proved",
    "A8": "A8 rustc's type system (lifetimes, Send/Sync, parametricity of safe generic code) and ownership-based drop of safe fields",
}
