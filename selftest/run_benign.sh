#!/bin/bash
# Applies each harmless refactor of selftest/benign/*.diff to a scratch worktree of /repo HEAD and runs
# the checks that read the touched functions; every one must stay exit 0 (a false alarm would be exit 1).
set -u
WT=/tmp/benignsweep/repo; OUT=/tmp/benignsweep/out
rm -rf /tmp/benignsweep; mkdir -p $OUT
git -C /repo worktree prune
git -C /repo worktree add -q --detach $WT HEAD || exit 3
RES=/verif/selftest/BENIGN_RESULTS.md
{ echo "# Harmless refactors vs. checks (selftest/run_benign.sh, /repo $(git -C /repo log --format=%h -1))"; echo; echo "| refactor | check | exit |"; echo "|---|---|---|"; } > $RES
for d in /verif/selftest/benign/*.diff; do
  n=$(basename $d .diff)
  ( cd $WT && git checkout -q -- . && git apply $d ) || { echo "| $n | - | PATCH-DOES-NOT-APPLY |" >> $RES; continue; }
  for prop in $(grep "^$n " /verif/selftest/benign/MAP | cut -d' ' -f2-); do
    out=$(cd /verif && VERIF_REPO=$WT VERIF_OUT=$OUT ./check $prop quick 2>&1); rc=$?
    echo "| $n | $prop | $rc $( [ $rc = 0 ] && echo ok || echo "$out" | head -2 | tr '\n|' ' /' | cut -c1-160 ) |" >> $RES
  done
done
( cd $WT && git checkout -q -- . ); git -C /repo worktree remove --force $WT; rm -rf /tmp/benignsweep
cat $RES
