"""Unit V-alloc: the generational slot allocator (src/entity/allocator/*, entity::Identifier).

Contracts are written from the property statements (C02: fresh / stable / dead identifiers,
C13: free list == inactive slots, nothing lost or duplicated, C01: the allocator is the map
identifier -> location).  Shapes and preconditions come from the code and its call sites.
"""
from ..vxlib import Unit, Fn, Loop, Hint
from .common import PRELUDE_STD, REGISTRY_TRAIT, ARCHETYPE_MOD_OPEN, PRELUDE_HASHMAP

A = "src/entity/allocator/mod.rs"
S = "src/entity/allocator/slot.rs"
L = "src/entity/allocator/location.rs"
LS = "src/entity/allocator/locations.rs"
EI = "src/entity/identifier/mod.rs"

SPEC_FNS = r'''
impl<R: Registry> Locations<R> {
    pub open spec fn wf(&self) -> bool { self.indices.start <= self.indices.end }
    pub open spec fn spec_len(&self) -> nat { (self.indices.end - self.indices.start) as nat }
    /// the k-th location this iterator will still yield
    pub open spec fn nth(&self, k: int) -> Location<R> {
        Location { identifier: self.identifier, index: (self.indices.start + k) as usize }
    }
}

impl<R: Registry> Allocator<R> {
    // ---- representation invariant (C13) ----
    pub open spec fn wf_free_in_bounds(&self) -> bool {
        forall|i: int| 0 <= i < self.free@.len() ==> (#[trigger] self.free@[i]) < self.slots@.len()
    }
    pub open spec fn wf_free_inactive(&self) -> bool {
        forall|i: int| 0 <= i < self.free@.len() ==> self.slots@[(#[trigger] self.free@[i]) as int].location is None
    }
    pub open spec fn wf_free_distinct(&self) -> bool {
        forall|i: int, j: int| 0 <= i < j < self.free@.len() ==> self.free@[i] != self.free@[j]
    }
    /// every released slot is available for reuse: none is lost
    pub open spec fn wf_free_complete(&self) -> bool {
        forall|s: int| 0 <= s < self.slots@.len() && (#[trigger] self.slots@[s]).location is None
            ==> self.free@.contains(s as usize)
    }
    pub open spec fn wf(&self) -> bool {
        self.wf_free_in_bounds() && self.wf_free_inactive() && self.wf_free_distinct() && self.wf_free_complete()
    }

    // ---- abstract view: the map identifier -> location (C01 / C02) ----
    pub open spec fn resolves(&self, id: entity::Identifier) -> bool {
        id.index < self.slots@.len()
            && self.slots@[id.index as int].generation == id.generation
            && self.slots@[id.index as int].location is Some
    }
    pub open spec fn view(&self) -> IMap<entity::Identifier, Location<R>> {
        IMap::new(|id: entity::Identifier| self.resolves(id), |id: entity::Identifier| self.slots@[id.index as int].location->0)
    }
    pub proof fn lemma_slots_len_fits(&self) ensures self.slots@.len() <= usize::MAX {
        assert(self.slots.len() == self.slots@.len());
    }
    pub open spec fn active_count(&self) -> nat { vx_active_count(self.slots@) }
    /// slot `s` is the same in `self` and `o`
    pub open spec fn same_slot(&self, o: &Self, s: int) -> bool {
        s < self.slots@.len() && s < o.slots@.len() && self.slots@[s] == o.slots@[s]
    }
}

pub open spec fn vx_min(a: int, b: int) -> int { if a <= b { a } else { b } }

/// number of active slots == number of live identifiers (C13: World::len())
pub open spec fn vx_active_count<R: Registry>(s: Seq<Slot<R>>) -> nat
    decreases s.len()
{
    if s.len() == 0 { 0 } else { vx_active_count(s.drop_last()) + (if s.last().location is Some { 1nat } else { 0nat }) }
}
pub proof fn lemma_count_push<R: Registry>(s: Seq<Slot<R>>, x: Slot<R>)
    ensures vx_active_count(s.push(x)) == vx_active_count(s) + (if x.location is Some { 1nat } else { 0nat })
{
    assert(s.push(x).drop_last() =~= s);
}
pub proof fn lemma_count_update<R: Registry>(s: Seq<Slot<R>>, i: int, x: Slot<R>)
    requires 0 <= i < s.len(),
    ensures vx_active_count(s.update(i, x)) + (if s[i].location is Some { 1nat } else { 0nat })
        == vx_active_count(s) + (if x.location is Some { 1nat } else { 0nat })
    decreases s.len()
{
    if i == s.len() - 1 {
        assert(s.update(i, x).drop_last() =~= s.drop_last());
    } else {
        assert(s.update(i, x).drop_last() =~= s.drop_last().update(i, x));
        lemma_count_update(s.drop_last(), i, x);
    }
}
pub proof fn lemma_count_same_activity<R: Registry>(s: Seq<Slot<R>>, t: Seq<Slot<R>>)
    requires s.len() == t.len(), forall|i: int| 0 <= i < s.len() ==> ((#[trigger] s[i]).location is Some) == (t[i].location is Some),
    ensures vx_active_count(s) == vx_active_count(t)
    decreases s.len()
{
    if s.len() > 0 {
        assert(s.last().location is Some == t.last().location is Some);
        lemma_count_same_activity(s.drop_last(), t.drop_last());
    }
}
/// an active slot makes the count positive
pub proof fn lemma_count_positive<R: Registry>(s: Seq<Slot<R>>, i: int)
    requires 0 <= i < s.len(), s[i].location is Some,
    ensures vx_active_count(s) >= 1
    decreases s.len()
{
    if i == s.len() - 1 { } else { lemma_count_positive(s.drop_last(), i); }
}
pub proof fn lemma_count_bound<R: Registry>(s: Seq<Slot<R>>)
    ensures vx_active_count(s) <= s.len()
    decreases s.len()
{
    if s.len() > 0 { lemma_count_bound(s.drop_last()); }
}
/// no slot active  <=>  count 0
pub proof fn lemma_count_zero<R: Registry>(s: Seq<Slot<R>>)
    requires forall|i: int| 0 <= i < s.len() ==> (#[trigger] s[i]).location is None,
    ensures vx_active_count(s) == 0
    decreases s.len()
{
    if s.len() > 0 { assert(s.last().location is None); lemma_count_zero(s.drop_last()); }
}

/// a location re-keyed through the old-archetype -> new-archetype identifier map (C10)
pub open spec fn vx_remap<R: Registry>(l: Option<Location<R>>, m: IMap<archetype::IdentifierRef<R>, archetype::IdentifierRef<R>>) -> Option<Location<R>> {
    match l { Some(l) => Some(Location { identifier: m[l.identifier], index: l.index }), None => None }
}

impl<R: Registry> Allocator<R> {
    /// safety precondition of clone / clone_from: the map covers every archetype some slot refers to
    pub open spec fn map_covers(&self, m: IMap<archetype::IdentifierRef<R>, archetype::IdentifierRef<R>>) -> bool {
        forall|s: int| 0 <= s < self.slots@.len() && (#[trigger] self.slots@[s]).location is Some ==> m.dom().contains(self.slots@[s].location->0.identifier)
    }
    /// `self` is `src` with every location re-keyed through `m`: same slots, same generations,
    /// same free list -- so the same identifiers resolve, to the corresponding rows (C10, C02)
    pub open spec fn is_remapped_copy_of(&self, src: &Self, m: IMap<archetype::IdentifierRef<R>, archetype::IdentifierRef<R>>) -> bool {
        &&& self.slots@.len() == src.slots@.len()
        &&& forall|s: int| 0 <= s < src.slots@.len() ==> (#[trigger] self.slots@[s]).generation == src.slots@[s].generation
        &&& forall|s: int| 0 <= s < src.slots@.len() ==> (#[trigger] self.slots@[s]).location == vx_remap(src.slots@[s].location, m)
        &&& self.free@ == src.free@
    }
    pub proof fn lemma_remapped_copy_wf(&self, src: &Self, m: IMap<archetype::IdentifierRef<R>, archetype::IdentifierRef<R>>)
        requires self.is_remapped_copy_of(src, m), src.wf(),
        ensures self.wf(), forall|id: entity::Identifier| self.resolves(id) == src.resolves(id),
    {
        assert forall|s: int| 0 <= s < self.slots@.len() && (#[trigger] self.slots@[s]).location is None implies self.free@.contains(s as usize) by {
            assert(src.slots@[s].location is None);
        }
        assert forall|i: int| 0 <= i < self.free@.len() implies self.slots@[(#[trigger] self.free@[i]) as int].location is None by {
            assert(src.slots@[src.free@[i] as int].location is None);
        }
    }
}
'''

# ---- V-hist: history lemmas over the *postcondition predicates* of the allocator operations.
HIST = r'''
/// Ghost history of one allocator: every identifier ever issued.
pub struct Hist {
    pub issued: ISet<entity::Identifier>,
}

impl<R: Registry> Allocator<R> {
    /// History invariant: every issued identifier belongs to an existing slot whose generation
    /// has reached it; every identifier that currently resolves was issued; and the generation a
    /// slot currently shows was issued (so the *next* one is new).
    pub open spec fn hist_inv(&self, h: Hist) -> bool {
        &&& forall|id: entity::Identifier| #[trigger] h.issued.contains(id) ==>
                id.index < self.slots@.len() && id.generation <= self.slots@[id.index as int].generation
        &&& forall|s: int| 0 <= s < self.slots@.len() ==>
                #[trigger] h.issued.contains(entity::Identifier { index: s as usize, generation: self.slots@[s].generation })
    }

    /// what `allocate` promises (conjunction of its labelled postconditions that C02 uses)
    pub open spec fn allocate_post(old: &Self, new: &Self, location: Location<R>, id: entity::Identifier) -> bool {
        &&& new.view() == old.view().insert(id, location)
        &&& !old.resolves(id)
        &&& id.index < old.slots@.len() ==> id.generation == old.slots@[id.index as int].generation.wrapping_add(1)
        &&& id.index >= old.slots@.len() ==> id.index == old.slots@.len() && id.generation == 0
        &&& new.slots@.len() == (if id.index < old.slots@.len() { old.slots@.len() } else { old.slots@.len() + 1 })
        &&& forall|s: int| 0 <= s < old.slots@.len() && s != id.index ==> new.slots@[s] == old.slots@[s]
        &&& new.resolves(id)
    }

    /// what `free_unchecked` promises
    pub open spec fn free_post(old: &Self, new: &Self, id: entity::Identifier) -> bool {
        &&& new.view() == old.view().remove(id)
        &&& new.slots@.len() == old.slots@.len()
        &&& forall|s: int| 0 <= s < old.slots@.len() ==> (#[trigger] new.slots@[s]).generation == old.slots@[s].generation
    }

    /// C02 "every identifier returned differs from every identifier returned before it":
    /// one allocation step from a state satisfying the history invariant issues an identifier
    /// never issued before, and re-establishes the invariant.  A5: the slot's generation has
    /// not wrapped.
    pub proof fn lemma_allocate_fresh(old: &Self, new: &Self, h: Hist, location: Location<R>, id: entity::Identifier)
        requires
            old.hist_inv(h),
            Self::allocate_post(old, new, location, id),
            id.index < old.slots@.len() ==> old.slots@[id.index as int].generation < u64::MAX,
        ensures
            !h.issued.contains(id),
            new.hist_inv(Hist { issued: h.issued.insert(id) }),
    {
        let h2 = Hist { issued: h.issued.insert(id) };
        assert(new.resolves(id));
        assert forall|i: entity::Identifier| #[trigger] h2.issued.contains(i) implies
            i.index < new.slots@.len() && i.generation <= new.slots@[i.index as int].generation by {
            if i == id {
            } else {
                assert(h.issued.contains(i));
                if i.index != id.index { assert(new.slots@[i.index as int] == old.slots@[i.index as int]); }
            }
        }
        assert forall|s: int| 0 <= s < new.slots@.len() implies
            #[trigger] h2.issued.contains(entity::Identifier { index: s as usize, generation: new.slots@[s].generation }) by {
            if s == id.index {
                assert(entity::Identifier { index: s as usize, generation: new.slots@[s].generation } == id);
            } else {
                assert(new.slots@[s] == old.slots@[s]);
                assert(h.issued.contains(entity::Identifier { index: s as usize, generation: old.slots@[s].generation }));
            }
        }
    }

    /// freeing keeps the history invariant (generations never go down)
    pub proof fn lemma_free_keeps_hist(old: &Self, new: &Self, h: Hist, id: entity::Identifier)
        requires old.hist_inv(h), Self::free_post(old, new, id),
        ensures new.hist_inv(h),
    {
        assert forall|s: int| 0 <= s < new.slots@.len() implies
            #[trigger] h.issued.contains(entity::Identifier { index: s as usize, generation: new.slots@[s].generation }) by {
            assert(new.slots@[s].generation == old.slots@[s].generation);
        }
    }

    /// C02 "once removed ... never resolves again even after its slot is reused": an identifier
    /// that was issued and does not resolve now does not resolve after any further allocation
    /// (the only operation that can make a slot active again), because the identifier then
    /// issued is fresh.
    pub proof fn lemma_dead_stays_dead(old: &Self, new: &Self, h: Hist, location: Location<R>, id: entity::Identifier, stale: entity::Identifier)
        requires
            old.hist_inv(h),
            Self::allocate_post(old, new, location, id),
            id.index < old.slots@.len() ==> old.slots@[id.index as int].generation < u64::MAX,
            h.issued.contains(stale),
            !old.resolves(stale),
        ensures
            !new.resolves(stale),
            stale != id,
    {
        Self::lemma_allocate_fresh(old, new, h, location, id);
        assert(new.view().dom().contains(stale) == old.view().insert(id, location).dom().contains(stale));
    }

    /// C02 "a live identifier keeps resolving to the same entity" across allocations and frees
    /// of *other* identifiers: whole-map equality gives it directly.
    pub proof fn lemma_live_stays_live(old: &Self, new: &Self, location: Location<R>, id: entity::Identifier, live: entity::Identifier)
        requires Self::allocate_post(old, new, location, id), old.resolves(live),
        ensures new.resolves(live), new.view()[live] == old.view()[live],
    {
        assert(old.view().dom().contains(live));
        assert(new.view().dom().contains(live));
    }

    pub proof fn lemma_free_other_stays_live(old: &Self, new: &Self, id: entity::Identifier, live: entity::Identifier)
        requires Self::free_post(old, new, id), old.resolves(live), live != id,
        ensures new.resolves(live), new.view()[live] == old.view()[live], !new.resolves(id),
    {
        assert(old.view().dom().contains(live));
        assert(new.view().dom().contains(live));
        assert(!new.view().dom().contains(id));
    }
}

/// reachability witnesses for the preconditions used above (vacuity guard)
pub proof fn witness_hist_inv_reachable<R: Registry>(a: &Allocator<R>)
    requires a.slots@.len() == 0,
    ensures a.hist_inv(Hist { issued: ISet::empty() }),
{
}
'''


def build(name="alloc", archetype_items=None):
    u = Unit(name)
    u.text(PRELUDE_STD)
    u.text(REGISTRY_TRAIT)
    u.text(ARCHETYPE_MOD_OPEN)
    if archetype_items:
        archetype_items(u)
    u.text("}")
    u.text(PRELUDE_HASHMAP)
    # ---- entity::Identifier
    u.text("pub mod entity {\n    use super::*;")
    u.struct(EI, "Identifier", attrs=["#[derive(Clone, Copy)]"])
    u.impl("impl Identifier", [
        Fn(EI, r"^impl Identifier\b", "new", ret="r",
           ensures=[("id.new.index", "r.index == index"), ("id.new.generation", "r.generation == generation")],
           props=["C02"]),
    ])
    u.text("}")
    # ---- Location / Locations / Slot / Allocator
    u.struct(L, "Location")
    u.impl("impl<R> Clone for Location<R> where R: Registry", [
        Fn(L, r"^impl<R> Clone for Location<R>", "clone", ret="r", ensures=[("location.clone", "r == *self")]),
    ])
    u.text("impl<R> Copy for Location<R> where R: Registry {}\n")
    u.impl("impl<R> Location<R> where R: Registry", [
        Fn(L, r"^impl<R> Location<R>", "new", ret="r",
           ensures=[("location.new", "r == (Location { identifier, index })")]),
        Fn(L, r"^impl<R> Location<R>", "clone_with_new_identifier", ret="r",
           requires=[("pre.safety_map_has_identifier", "identifier_map@.dom().contains(self.identifier)")],
           ensures=[("C10.location_remapped", "r == (Location { identifier: identifier_map@[self.identifier], index: self.index })")],
           props=["C10", "C16"]),
    ])
    u.struct(LS, "Locations")
    u.struct(S, "Slot")
    u.struct(A, "Allocator")
    u.text(SPEC_FNS)
    u.impl("impl<R> Locations<R> where R: Registry", [
        Fn(LS, r"^impl<R> Locations<R>", "new", ret="r",
           ensures=[("locations.new", "r.indices == indices && r.identifier == identifier")]),
        Fn(LS, r"^impl<R> Locations<R>", "len", ret="n",
           requires=[("pre.locations_wf", "self.wf()")],
           ensures=[("locations.len", "n == self.spec_len()")]),
        Fn(LS, r"^impl<R> Locations<R>", "is_empty", ret="b",
           ensures=[("locations.is_empty", "b == !(self.indices.start < self.indices.end)")],
           hints=[Hint("start", "proof { vx_axiom_range_is_empty_usize(self.indices); }")]),
        # Iterator::next, emitted as an inherent method (trait impl headers cannot carry requires)
        Fn(LS, r"^impl<R> Iterator for Locations<R>", "next", ret="r", vis="pub",
           ret_type="Option<Location<R>>",
           rewrites=[(r"self\.indices\.next\(\)\.map\(\|index\| (Location \{.*?\})\)",
                      r"match self.indices.next() { Some(index) => Some(\1), None => None }",
                      "R5c: Option::map(closure) written as the match it is defined to be")],
           requires=[("pre.locations_wf", "old(self).wf()")],
           ensures=[
               ("locations.next.some", "old(self).indices.start < old(self).indices.end ==> r == Some(old(self).nth(0)) && final(self).indices.start == old(self).indices.start + 1"),
               ("locations.next.none", "old(self).indices.start >= old(self).indices.end ==> r is None && final(self).indices.start == old(self).indices.start"),
               ("locations.next.frame", "final(self).indices.end == old(self).indices.end && final(self).identifier == old(self).identifier"),
               ("locations.next.wf", "final(self).wf()"),
           ]),
    ])
    u.impl("impl<R> Slot<R> where R: Registry", [
        Fn(S, r"^impl<R> Slot<R>", "new", ret="r",
           ensures=[("slot.new", "r.generation == 0 && r.location == Some(location)")], props=["C02"]),
        Fn(S, r"^impl<R> Slot<R>", "activate_unchecked",
           requires=[("pre.slot_inactive", "old(self).location is None")],
           ensures=[("slot.activate.generation_bumped", "final(self).generation == old(self).generation.wrapping_add(1)"),
                    ("slot.activate.location", "final(self).location == Some(location)")], props=["C02"]),
        Fn(S, r"^impl<R> Slot<R>", "deactivate",
           ensures=[("slot.deactivate.generation_kept", "final(self).generation == old(self).generation"),
                    ("slot.deactivate.location", "final(self).location is None")], props=["C02"]),
        Fn(S, r"^impl<R> Slot<R>", "is_active", ret="b",
           ensures=[("slot.is_active", "b == (self.location is Some)")]),
        Fn(S, r"^impl<R> Slot<R>", "clone_with_new_identifier", ret="r",
           rewrites=[(r"self\.location\.map\(\|location\|\s*(unsafe \{.*?\})\)",
                      r"match self.location { Some(location) => Some(\1), None => None }",
                      "R5c: Option::map(closure) written as the match it is defined to be", True)],
           requires=[("pre.safety_map_has_identifier", "self.location is Some ==> identifier_map@.dom().contains(self.location->0.identifier)")],
           ensures=[("C10.slot_generation_kept", "r.generation == self.generation"),
                    ("C10.slot_location_remapped", "r.location == vx_remap(self.location, identifier_map@)")],
           props=["C10", "C02", "C16"]),
    ])

    WF_ENS = [
        ("wf.free_in_bounds", "final(self).wf_free_in_bounds()"),
        ("wf.free_inactive", "final(self).wf_free_inactive()"),
        ("wf.free_distinct", "final(self).wf_free_distinct()"),
        ("wf.free_complete", "final(self).wf_free_complete()"),
    ]
    WF_INV = [
        ("wf.free_in_bounds", "self.wf_free_in_bounds()"),
        ("wf.free_inactive", "self.wf_free_inactive()"),
        ("wf.free_distinct", "self.wf_free_distinct()"),
        ("wf.free_complete", "self.wf_free_complete()"),
    ]

    allocate = Fn(
        A, r"^impl<R> Allocator<R>", "allocate", ret="id",
        requires=[("pre.wf", "old(self).wf()")],
        ensures=WF_ENS + [
            ("C02.fresh", "!old(self).resolves(id)"),
            ("C02.resolves", "final(self).resolves(id)"),
            ("C01.view", "final(self).view() == old(self).view().insert(id, location)"),
            ("C01.view_pointwise", "forall|i: entity::Identifier| #![trigger final(self).resolves(i)] #![trigger old(self).resolves(i)] (final(self).resolves(i) == (old(self).resolves(i) || i == id)) && (old(self).resolves(i) ==> final(self).view()[i] == old(self).view()[i])"),
            ("C01.view_new", "final(self).view()[id] == location"),
            ("C02.generation_bumped", "id.index < old(self).slots@.len() ==> id.generation == old(self).slots@[id.index as int].generation.wrapping_add(1)"),
            ("C02.new_slot", "id.index >= old(self).slots@.len() ==> id.index == old(self).slots@.len() && id.generation == 0"),
            ("frame.slots_len", "final(self).slots@.len() == (if id.index < old(self).slots@.len() { old(self).slots@.len() } else { old(self).slots@.len() + 1 })"),
            ("frame.other_slots", "forall|s: int| 0 <= s < old(self).slots@.len() && s != id.index ==> final(self).slots@[s] == old(self).slots@[s]"),
            ("C13.free_fifo", "old(self).free@.len() > 0 ==> id.index == old(self).free@[0] && final(self).free@ == old(self).free@.subrange(1, old(self).free@.len() as int)"),
            ("C13.free_untouched_when_empty", "old(self).free@.len() == 0 ==> final(self).free@ == old(self).free@ && id.index == old(self).slots@.len()"),
            ("hist.allocate_post", "Self::allocate_post(old(self), final(self), location, id)"),
            ("C13.count", "final(self).active_count() == old(self).active_count() + 1"),
        ],
        hints=[
            Hint("start", "let ghost vx_old = *self;"),
            Hint("end", r'''proof {
            let id = entity::Identifier { index, generation };
            self.lemma_slots_len_fits(); vx_old.lemma_slots_len_fits();
            if vx_old.free@.len() > 0 {
                assert(self.slots@ =~= vx_old.slots@.update(index as int, self.slots@[index as int]));
                lemma_count_update(vx_old.slots@, index as int, self.slots@[index as int]);
            } else {
                assert(self.slots@ =~= vx_old.slots@.push(self.slots@[index as int]));
                lemma_count_push(vx_old.slots@, self.slots@[index as int]);
            }
            if vx_old.free@.len() > 0 {
                assert(index == vx_old.free@[0]);
                assert(self.free@ =~= vx_old.free@.subrange(1, vx_old.free@.len() as int));
                assert forall|i: int| 0 <= i < self.free@.len() implies self.free@[i] == vx_old.free@[i + 1] by {}
                assert forall|i: int| 0 <= i < self.free@.len() implies #[trigger] self.free@[i] != index by {
                    assert(vx_old.free@[0] != vx_old.free@[i + 1]);
                }
                assert forall|s: int| 0 <= s < self.slots@.len() && (#[trigger] self.slots@[s]).location is None
                    implies self.free@.contains(s as usize) by {
                    assert(s != index);
                    assert(vx_old.slots@[s].location is None);
                    assert(vx_old.free@.contains(s as usize));
                    let k = choose|k: int| 0 <= k < vx_old.free@.len() && vx_old.free@[k] == s as usize;
                    assert(k != 0);
                    assert(self.free@[k - 1] == s as usize);
                }
            } else {
                assert(self.free@ =~= vx_old.free@);
                assert forall|s: int| 0 <= s < self.slots@.len() && (#[trigger] self.slots@[s]).location is None
                    implies self.free@.contains(s as usize) by {
                    assert(s != index);
                    assert(vx_old.slots@[s].location is None);
                }
            }
            assert(self.view() =~= vx_old.view().insert(id, location)) by {
                assert forall|i: entity::Identifier| self.resolves(i) == (i == id || vx_old.resolves(i)) by {
                    if i.index != index && i.index < vx_old.slots@.len() { assert(self.slots@[i.index as int] == vx_old.slots@[i.index as int]); }
                }
                assert forall|i: entity::Identifier| self.resolves(i) implies
                    #[trigger] self.view()[i] == vx_old.view().insert(id, location)[i] by {
                    if i.index != index && i.index < vx_old.slots@.len() { assert(self.slots@[i.index as int] == vx_old.slots@[i.index as int]); }
                }
            }
        }'''),
        ],
        props=["C01", "C02", "C13"])

    allocate_batch = Fn(
        A, r"^impl<R> Allocator<R>", "allocate_batch", ret="ids",
        requires=[
            ("pre.wf", "old(self).wf()"),
            ("pre.locations_wf", "locations.wf()"),
            ("pre.A5_no_usize_overflow", "old(self).slots@.len() + locations.spec_len() <= usize::MAX"),
        ],
        ensures=WF_ENS + [
            ("C01.batch_len", "ids@.len() == locations.spec_len()"),
            ("C01.batch_order", "forall|k: int| 0 <= k < ids@.len() ==> final(self).resolves(#[trigger] ids@[k]) && final(self).view()[ids@[k]] == locations.nth(k)"),
            ("C02.fresh", "forall|k: int| 0 <= k < ids@.len() ==> !old(self).resolves(#[trigger] ids@[k])"),
            ("C02.distinct", "forall|j: int, k: int| 0 <= j < k < ids@.len() ==> ids@[j].index != ids@[k].index"),
            ("C02.reused_then_new", "forall|k: int| 0 <= k < ids@.len() ==> (#[trigger] ids@[k]).index == (if k < old(self).free@.len() { old(self).free@[k] as int } else { old(self).slots@.len() + k - vx_min(old(self).free@.len() as int, ids@.len() as int) })"),
            ("C02.generation_bumped", "forall|k: int| 0 <= k < ids@.len() && k < old(self).free@.len() ==> (#[trigger] ids@[k]).generation == old(self).slots@[old(self).free@[k] as int].generation.wrapping_add(1)"),
            ("C02.new_slot", "forall|k: int| 0 <= k < ids@.len() && k >= old(self).free@.len() ==> (#[trigger] ids@[k]).generation == 0"),
            ("C13.free_consumed_exactly", "final(self).free@ == old(self).free@.subrange(vx_min(old(self).free@.len() as int, ids@.len() as int), old(self).free@.len() as int)"),
            ("frame.slots_len", "final(self).slots@.len() == old(self).slots@.len() + ids@.len() - vx_min(old(self).free@.len() as int, ids@.len() as int)"),
            ("C13.count", "final(self).active_count() == old(self).active_count() + ids@.len()"),
            ("frame.other_slots", "forall|s: int| 0 <= s < old(self).slots@.len() && !(exists|k: int| 0 <= k < ids@.len() && (#[trigger] ids@[k]).index == s) ==> final(self).slots@[s] == old(self).slots@[s]"),
            ("C01.view_dom", "forall|i: entity::Identifier| final(self).resolves(i) == (old(self).resolves(i) || ids@.contains(i))"),
            ("C01.view_others", "forall|i: entity::Identifier| old(self).resolves(i) ==> final(self).view()[i] == old(self).view()[i]"),
        ],
        rewrites=[(r"let mut identifiers = Vec::with_capacity", "let mut identifiers: Vec<entity::Identifier> = Vec::with_capacity",
                   "type ascription only (Verus needs the element type before the first use in an invariant)")],
        props=["C01", "C02", "C13"])
    # loops / hints are attached below (kept separate for readability)
    attach_allocate_batch_proof(allocate_batch, WF_INV)

    u.impl("impl<R> Allocator<R> where R: Registry", [
        Fn(A, r"^impl<R> Allocator<R>", "new", ret="r",
           ensures=[("wf", "r.wf()"), ("new.empty", "r.slots@.len() == 0 && r.free@.len() == 0"),
                    ("C01.view_empty", "r.view() == IMap::<entity::Identifier, Location<R>>::empty()")],
           hints=[Hint("end", "proof { assert(IMap::<entity::Identifier, Location<R>>::empty() =~= (Allocator::<R> { slots: Vec::new(), free: VecDeque::new() }).view()) by { }  }")] if False else [],
           props=["C01", "C13"]),
        allocate,
        allocate_batch,
        Fn(A, r"^impl<R> Allocator<R>", "get", ret="r",
           ensures=[("C02.get_is_view", "r == (if self.resolves(identifier) { Some(self.view()[identifier]) } else { None::<Location<R>> })")],
           props=["C02"]),
        Fn(A, r"^impl<R> Allocator<R>", "is_active", ret="b",
           ensures=[("C02.is_active_is_dom", "b == self.resolves(identifier)")], props=["C02"]),
        Fn(A, r"^impl<R> Allocator<R>", "free_unchecked",
           requires=[("pre.wf", "old(self).wf()"), ("pre.safety_identifier_live", "old(self).resolves(identifier)")],
           ensures=WF_ENS + [
               ("C02.dead", "!final(self).resolves(identifier)"),
               ("C01.view", "final(self).view() == old(self).view().remove(identifier)"),
               ("C01.view_pointwise", "forall|i: entity::Identifier| #![trigger final(self).resolves(i)] #![trigger old(self).resolves(i)] (final(self).resolves(i) == (old(self).resolves(i) && i != identifier)) && (final(self).resolves(i) ==> final(self).view()[i] == old(self).view()[i])"),
               ("C13.free_appended", "final(self).free@ == old(self).free@.push(identifier.index)"),
               ("frame.slots_len", "final(self).slots@.len() == old(self).slots@.len()"),
               ("frame.generations", "forall|s: int| 0 <= s < old(self).slots@.len() ==> (#[trigger] final(self).slots@[s]).generation == old(self).slots@[s].generation"),
               ("frame.other_slots", "forall|s: int| 0 <= s < old(self).slots@.len() && s != identifier.index ==> final(self).slots@[s] == old(self).slots@[s]"),
               ("hist.free_post", "Self::free_post(old(self), final(self), identifier)"),
               ("C13.count", "final(self).active_count() + 1 == old(self).active_count()"),
           ],
           hints=[
               Hint("start", "let ghost vx_old = *self;"),
               Hint("after", r'''proof {
            self.lemma_slots_len_fits(); vx_old.lemma_slots_len_fits();
            assert(self.slots@ =~= vx_old.slots@.update(identifier.index as int, self.slots@[identifier.index as int]));
            lemma_count_update(vx_old.slots@, identifier.index as int, self.slots@[identifier.index as int]);
            assert(self.free@ =~= vx_old.free@.push(identifier.index));
            assert forall|i: int| 0 <= i < vx_old.free@.len() implies vx_old.free@[i] != identifier.index by {
                assert(vx_old.slots@[vx_old.free@[i] as int].location is None);
            }
            assert forall|s: int| 0 <= s < self.slots@.len() && (#[trigger] self.slots@[s]).location is None
                implies self.free@.contains(s as usize) by {
                if s == identifier.index {
                    assert(self.free@[vx_old.free@.len() as int] == s as usize);
                } else {
                    assert(vx_old.slots@[s].location is None);
                    let k = choose|k: int| 0 <= k < vx_old.free@.len() && vx_old.free@[k] == s as usize;
                    assert(self.free@[k] == s as usize);
                }
            }
            assert(self.view() =~= vx_old.view().remove(identifier)) by {
                assert forall|i: entity::Identifier| self.resolves(i) == (i != identifier && vx_old.resolves(i)) by {
                    if i.index != identifier.index && i.index < vx_old.slots@.len() { assert(self.slots@[i.index as int] == vx_old.slots@[i.index as int]); }
                }
                assert forall|i: entity::Identifier| self.resolves(i) implies
                    #[trigger] self.view()[i] == vx_old.view().remove(identifier)[i] by {
                    if i.index != identifier.index && i.index < vx_old.slots@.len() { assert(self.slots@[i.index as int] == vx_old.slots@[i.index as int]); }
                }
            }
        }''', anchor=r"self\.free\.push_back"),
           ],
           props=["C01", "C02", "C13"]),
        Fn(A, r"^impl<R> Allocator<R>", "modify_location_unchecked",
           requires=[("pre.wf", "old(self).wf()"), ("pre.safety_identifier_live", "old(self).resolves(identifier)")],
           ensures=WF_ENS + [
               ("C02.same_ids", "final(self).view() == old(self).view().insert(identifier, location)"),
               ("C02.same_ids_pointwise", "forall|i: entity::Identifier| #![trigger final(self).resolves(i)] #![trigger old(self).resolves(i)] (final(self).resolves(i) == old(self).resolves(i)) && (old(self).resolves(i) && i != identifier ==> final(self).view()[i] == old(self).view()[i])"),
               ("C02.moved", "final(self).view()[identifier] == location"),
               ("C13.count", "final(self).active_count() == old(self).active_count()"),
               ("frame.free", "final(self).free@ == old(self).free@"),
               ("frame.slots_len", "final(self).slots@.len() == old(self).slots@.len()"),
               ("frame.generations", "forall|s: int| 0 <= s < old(self).slots@.len() ==> (#[trigger] final(self).slots@[s]).generation == old(self).slots@[s].generation"),
               ("frame.other_slots", "forall|s: int| 0 <= s < old(self).slots@.len() && s != identifier.index ==> final(self).slots@[s] == old(self).slots@[s]"),
           ],
           hints=[
               Hint("start", "let ghost vx_old = *self;"),
               Hint("end", r'''proof {
            self.lemma_slots_len_fits(); vx_old.lemma_slots_len_fits();
            assert(self.slots@ =~= vx_old.slots@.update(identifier.index as int, self.slots@[identifier.index as int]));
            lemma_count_update(vx_old.slots@, identifier.index as int, self.slots@[identifier.index as int]);
            assert(self.view() =~= vx_old.view().insert(identifier, location)) by {
                assert forall|i: entity::Identifier| self.resolves(i) == (i == identifier || vx_old.resolves(i)) by {
                    if i.index != identifier.index && i.index < vx_old.slots@.len() { assert(self.slots@[i.index as int] == vx_old.slots@[i.index as int]); }
                }
                assert forall|i: entity::Identifier| self.resolves(i) implies
                    #[trigger] self.view()[i] == vx_old.view().insert(identifier, location)[i] by {
                    if i.index != identifier.index && i.index < vx_old.slots@.len() { assert(self.slots@[i.index as int] == vx_old.slots@[i.index as int]); }
                }
            }
            assert forall|s: int| 0 <= s < self.slots@.len() && (#[trigger] self.slots@[s]).location is None
                implies self.free@.contains(s as usize) by {
                assert(s != identifier.index);
                assert(vx_old.slots@[s].location is None);
            }
        }'''),
           ],
           props=["C02", "C13"]),
        Fn(A, r"^impl<R> Allocator<R>", "modify_location_index_unchecked",
           requires=[("pre.wf", "old(self).wf()"), ("pre.safety_identifier_live", "old(self).resolves(identifier)")],
           ensures=WF_ENS + [
               ("C02.same_ids", "final(self).view() == old(self).view().insert(identifier, Location { identifier: old(self).view()[identifier].identifier, index })"),
               ("C02.same_ids_pointwise", "forall|i: entity::Identifier| #![trigger final(self).resolves(i)] #![trigger old(self).resolves(i)] (final(self).resolves(i) == old(self).resolves(i)) && (old(self).resolves(i) && i != identifier ==> final(self).view()[i] == old(self).view()[i])"),
               ("C02.moved", "final(self).view()[identifier] == (Location { identifier: old(self).view()[identifier].identifier, index })"),
               ("C13.count", "final(self).active_count() == old(self).active_count()"),
               ("frame.free", "final(self).free@ == old(self).free@"),
               ("frame.slots_len", "final(self).slots@.len() == old(self).slots@.len()"),
               ("frame.generations", "forall|s: int| 0 <= s < old(self).slots@.len() ==> (#[trigger] final(self).slots@[s]).generation == old(self).slots@[s].generation"),
               ("frame.other_slots", "forall|s: int| 0 <= s < old(self).slots@.len() && s != identifier.index ==> final(self).slots@[s] == old(self).slots@[s]"),
           ],
           hints=[
               Hint("start", "let ghost vx_old = *self;"),
               Hint("end", r'''proof {
            self.lemma_slots_len_fits(); vx_old.lemma_slots_len_fits();
            assert(self.slots@ =~= vx_old.slots@.update(identifier.index as int, self.slots@[identifier.index as int]));
            lemma_count_update(vx_old.slots@, identifier.index as int, self.slots@[identifier.index as int]);
            let nl = Location { identifier: vx_old.view()[identifier].identifier, index };
            assert(self.view() =~= vx_old.view().insert(identifier, nl)) by {
                assert forall|i: entity::Identifier| self.resolves(i) == (i == identifier || vx_old.resolves(i)) by {
                    if i.index != identifier.index && i.index < vx_old.slots@.len() { assert(self.slots@[i.index as int] == vx_old.slots@[i.index as int]); }
                }
                assert forall|i: entity::Identifier| self.resolves(i) implies
                    #[trigger] self.view()[i] == vx_old.view().insert(identifier, nl)[i] by {
                    if i.index != identifier.index && i.index < vx_old.slots@.len() { assert(self.slots@[i.index as int] == vx_old.slots@[i.index as int]); }
                }
            }
            assert forall|s: int| 0 <= s < self.slots@.len() && (#[trigger] self.slots@[s]).location is None
                implies self.free@.contains(s as usize) by {
                assert(s != identifier.index);
                assert(vx_old.slots@[s].location is None);
            }
        }'''),
           ],
           props=["C02", "C13"]),
    ])
    u.impl("impl<R> Allocator<R> where R: Registry", [
        Fn(A, r"^impl<R> Allocator<R>", "shrink_to_fit",
           ensures=[("C02.shrink_keeps_slots", "final(self).slots@ == old(self).slots@"),
                    ("C13.shrink_keeps_free", "final(self).free@ == old(self).free@"),
                    ("C13.count", "final(self).active_count() == old(self).active_count()")],
           props=["C02", "C13", "C01"]),
        Fn(A, r"^impl<R> Allocator<R>", "clone", ret="r",
           rewrites=[(r"let mut vx_v = Vec::new\(\)", "let mut vx_v: Vec<Slot<R>> = Vec::new()", "type ascription only")],
           requires=[("pre.safety_map_covers", "self.map_covers(identifier_map@)")],
           ensures=[("C10.remapped_copy", "r.is_remapped_copy_of(self, identifier_map@)")],
           loops=[Loop(invariant=[
               ("clone.i", "vx_i <= self.slots@.len() && vx_v@.len() == vx_i"),
               ("clone.generation", "forall|s: int| 0 <= s < vx_i ==> (#[trigger] vx_v@[s]).generation == self.slots@[s].generation"),
               ("clone.location", "forall|s: int| 0 <= s < vx_i ==> (#[trigger] vx_v@[s]).location == vx_remap(self.slots@[s].location, identifier_map@)"),
               ("clone.pre", "self.map_covers(identifier_map@)"),
           ], decreases="self.slots@.len() - vx_i")],
           props=["C10", "C02", "C13", "C16"]),
        Fn(A, r"^impl<R> Allocator<R>", "clone_from",
           rewrites=[(r"self\.free\.clone_from\(&source\.free\);", "self.free = source.free.clone();",
                      "R12: `a.clone_from(&b)` on a std collection written as `a = b.clone()` (Verus has no clone_from; std documents them as equivalent in value)")],
           requires=[("pre.safety_map_covers", "source.map_covers(identifier_map@)")],
           ensures=[("C10.remapped_copy", "final(self).is_remapped_copy_of(source, identifier_map@)")],
           loops=[Loop(invariant=[
               ("clone.i", "vx_i <= source.slots@.len() && self.slots@.len() == vx_i"),
               ("clone.generation", "forall|s: int| 0 <= s < vx_i ==> (#[trigger] self.slots@[s]).generation == source.slots@[s].generation"),
               ("clone.location", "forall|s: int| 0 <= s < vx_i ==> (#[trigger] self.slots@[s]).location == vx_remap(source.slots@[s].location, identifier_map@)"),
               ("clone.pre", "source.map_covers(identifier_map@)"),
           ], decreases="source.slots@.len() - vx_i")],
           props=["C10", "C02", "C13", "C16"]),
    ])
    u.text(HIST)
    u.witnesses = ["witness_hist_inv_reachable"]
    u.label_props = {
        # the free list is exactly the set of inactive slots (C13); a lost slot also breaks the
        # serde round trip (C06: "missing entity index"); a duplicate / active entry makes
        # allocate overwrite a live entity (C02, C01)
        "wf.free_complete": ["C13", "C06"],
        "wf.free_inactive": ["C13", "C02", "C01"],
        "wf.free_distinct": ["C13", "C02", "C01"],
        "wf.free_in_bounds": ["C13", "C05"],
        "reuse.free_is_suffix": ["C13", "C06"],
        "frame": ["C01", "C02", "C13"],
        "hist": ["C02"],
        "C01.view": ["C01", "C02", "C13"],
        "C01.batch": ["C01"],
        "C02": ["C02", "C01"],
        "C13.free_fifo": [], "C13.free_untouched_when_empty": [], "C13.free_appended": [],
        "C13.free_consumed_exactly": ["C13", "C06"],
        "pre": [],
        "clone": ["C10", "C02", "C13", "C16"],
        "C10": ["C10", "C02", "C13", "C16"],
        "C02.shrink_keeps_slots": ["C02", "C01", "C13"],
        "C13.shrink_keeps_free": ["C13"],
    }
    return u


END_PROOF = r'''proof {
            let k1 = vx_reused;
            self.lemma_slots_len_fits(); vx_old.lemma_slots_len_fits(); vx_mid.lemma_slots_len_fits();
            let n = vx_l0.spec_len() as int;
            let ids = identifiers@;
            assert(k1 == vx_min(vx_old.free@.len() as int, n));
            assert(ids.len() == n);
            assert(self.free@ == vx_mid.free@);
            // --- shape of every returned identifier and of the slot it names
            assert forall|k: int| 0 <= k < n implies
                (#[trigger] ids[k]).index < self.slots@.len()
                && self.slots@[ids[k].index as int] == (Slot { generation: ids[k].generation, location: Some(vx_l0.nth(k)) })
                && (k < k1 ==> ids[k].index == vx_old.free@[k] && ids[k].generation == vx_old.slots@[vx_old.free@[k] as int].generation.wrapping_add(1))
                && (k >= k1 ==> ids[k].index == slots_len + k - k1 && ids[k].generation == 0) by {
                if k < k1 {
                    assert(ids[k] == vx_ids1[k]);
                    assert(self.slots@[vx_old.free@[k] as int] == vx_mid.slots@[vx_old.free@[k] as int]);
                } else {
                    assert(ids[k] == (entity::Identifier { index: (slots_len + k - k1) as usize, generation: 0 }));
                    let s = slots_len + k - k1;
                    assert(self.slots@[s] == (Slot { generation: 0, location: Some(vx_l0.nth(vx_mid_start - vx_l0.indices.start + s - slots_len)) }));
                }
            }
            // --- slots that no returned identifier names are unchanged
            assert forall|s: int| 0 <= s < vx_old.slots@.len() && !(exists|k: int| 0 <= k < n && (#[trigger] ids[k]).index == s)
                implies self.slots@[s] == vx_old.slots@[s] by {
                assert(self.slots@[s] == vx_mid.slots@[s]);
                assert(!(exists|k: int| 0 <= k < k1 && #[trigger] vx_old.free@[k] == s)) by {
                    if exists|k: int| 0 <= k < k1 && #[trigger] vx_old.free@[k] == s {
                        let k = choose|k: int| 0 <= k < k1 && #[trigger] vx_old.free@[k] == s;
                        assert(ids[k].index == s);
                    }
                }
            }
            // --- wf of the final state
            assert forall|i: int| 0 <= i < self.free@.len() implies
                self.slots@[(#[trigger] self.free@[i]) as int].location is None by {
                let s = self.free@[i] as int;
                assert(self.free@[i] == vx_old.free@[k1 + i]);
                assert(self.slots@[s] == vx_mid.slots@[s]);
            }
            assert forall|s: int| 0 <= s < self.slots@.len() && (#[trigger] self.slots@[s]).location is None
                implies self.free@.contains(s as usize) by {
                assert(s < slots_len);
                assert(vx_mid.slots@[s].location is None);
                assert(vx_mid.free@.contains(s as usize));
            }
            // --- freshness, distinctness
            assert forall|k: int| 0 <= k < n implies !vx_old.resolves(#[trigger] ids[k]) by {
                if k < k1 { assert(vx_old.slots@[vx_old.free@[k] as int].location is None); }
            }
            assert forall|j: int, k: int| 0 <= j < k < n implies ids[j].index != ids[k].index by {
                if k < k1 { assert(vx_old.free@[j] != vx_old.free@[k]); }
            }
            // --- the map view
            assert forall|i: entity::Identifier| self.resolves(i) == (vx_old.resolves(i) || ids.contains(i)) by {
                if ids.contains(i) {
                    let k = choose|k: int| 0 <= k < ids.len() && ids[k] == i;
                    assert(self.resolves(ids[k]));
                } else if i.index < self.slots@.len() {
                    let s = i.index as int;
                    if exists|k: int| 0 <= k < n && (#[trigger] ids[k]).index == s {
                        let k = choose|k: int| 0 <= k < n && (#[trigger] ids[k]).index == s;
                        assert(self.slots@[s].generation == ids[k].generation);
                        if self.resolves(i) { assert(i == ids[k]); }
                        if k < k1 { assert(vx_old.slots@[vx_old.free@[k] as int].location is None); }
                        assert(!vx_old.resolves(i));
                    } else if s < vx_old.slots@.len() {
                        assert(self.slots@[s] == vx_old.slots@[s]);
                    } else {
                        let k = s - slots_len + k1;
                        assert(ids[k].index == s);
                    }
                }
            }
            assert forall|i: entity::Identifier| vx_old.resolves(i) implies self.view()[i] == vx_old.view()[i] by {
                let s = i.index as int;
                if exists|k: int| 0 <= k < n && (#[trigger] ids[k]).index == s {
                    let k = choose|k: int| 0 <= k < n && (#[trigger] ids[k]).index == s;
                    if k < k1 { assert(vx_old.slots@[vx_old.free@[k] as int].location is None); }
                } else {
                    assert(self.slots@[s] == vx_old.slots@[s]);
                }
            }
            assert(self.free@ =~= vx_old.free@.subrange(vx_min(vx_old.free@.len() as int, ids.len() as int), vx_old.free@.len() as int));
        }'''


def attach_allocate_batch_proof(f, WF_INV):
    common = [
        ("loc.wf", "locations.wf()"),
        ("loc.end", "locations.indices.end == vx_l0.indices.end"),
        ("loc.identifier", "locations.identifier == vx_l0.identifier"),
    ]
    f.hints = [
        Hint("start", "let ghost vx_old = *self; let ghost vx_l0 = locations;"),
        # loop 1 body: the popped index is vx_old.free[k]; it is distinct from the earlier ones
        Hint("before", r'''proof {
                let k = identifiers@.len() as int;
                assert(index == vx_old.free@[k]);
                assert(self.free@ =~= vx_old.free@.subrange(k + 1, vx_old.free@.len() as int));
                assert forall|j: int| 0 <= j < k implies vx_old.free@[j] != index by { }
                assert(self.slots@[index as int] == vx_old.slots@[index as int]) by {
                    if exists|j: int| 0 <= j < k && #[trigger] vx_old.free@[j] == index as int {
                        let j = choose|j: int| 0 <= j < k && #[trigger] vx_old.free@[j] == index as int;
                        assert(vx_old.free@[j] != vx_old.free@[k]);
                    }
                }
            }
            let ghost vx_pre = *self; let ghost vx_k = identifiers@.len() as int;''',
             anchor=r"let slot =\s*&mut self\.slots\[index\]"),
        Hint("after", r'''proof {
                let k = vx_k;
                self.lemma_slots_len_fits(); vx_old.lemma_slots_len_fits();
                assert(self.slots@ =~= vx_pre.slots@.update(index as int, self.slots@[index as int]));
                lemma_count_update(vx_pre.slots@, index as int, self.slots@[index as int]);
                assert(vx_pre.slots@[index as int].location is None);
                assert(self.free@ == vx_pre.free@);
                assert forall|i: int| 0 <= i < self.free@.len() implies (#[trigger] self.free@[i]) != index by {
                    assert(self.free@[i] == vx_old.free@[k + 1 + i]);
                    assert(vx_old.free@[k] != vx_old.free@[k + 1 + i]);
                }
                assert forall|j: int| 0 <= j < identifiers@.len() implies
                    (#[trigger] self.slots@[vx_old.free@[j] as int]) == (Slot { generation: vx_old.slots@[vx_old.free@[j] as int].generation.wrapping_add(1), location: Some(vx_l0.nth(j)) }) by {
                    if j < k { assert(vx_old.free@[j] != vx_old.free@[k]); assert(self.slots@[vx_old.free@[j] as int] == vx_pre.slots@[vx_old.free@[j] as int]); }
                }
                assert forall|s: int| 0 <= s < vx_old.slots@.len() && !(exists|j: int| 0 <= j < identifiers@.len() && #[trigger] vx_old.free@[j] == s)
                    implies self.slots@[s] == vx_old.slots@[s] by {
                    assert(vx_old.free@[k] != s);
                    assert(!(exists|j: int| 0 <= j < k && #[trigger] vx_old.free@[j] == s)) by {
                        if exists|j: int| 0 <= j < k && #[trigger] vx_old.free@[j] == s {
                            let j = choose|j: int| 0 <= j < k && #[trigger] vx_old.free@[j] == s;
                            assert(0 <= j < identifiers@.len() && vx_old.free@[j] == s);
                        }
                    }
                }
                assert forall|s: int| 0 <= s < self.slots@.len() && (#[trigger] self.slots@[s]).location is None
                    implies self.free@.contains(s as usize) by {
                    if exists|j: int| 0 <= j < k + 1 && #[trigger] vx_old.free@[j] == s {
                        let j = choose|j: int| 0 <= j < k + 1 && #[trigger] vx_old.free@[j] == s;
                        assert(self.slots@[vx_old.free@[j] as int].location is Some);
                    } else {
                        assert(self.slots@[s] == vx_old.slots@[s]);
                        assert(vx_old.free@.contains(s as usize));
                        let m = choose|m: int| 0 <= m < vx_old.free@.len() && vx_old.free@[m] == s as usize;
                        assert(m >= k + 1);
                        assert(self.free@[m - k - 1] == s as usize);
                    }
                }
            }''', anchor=r"identifiers\.push\(entity::Identifier::new\(index, slot\.generation\)\)"),
        Hint("after", "let ghost vx_mid = *self; let ghost vx_mid_start = locations.indices.start as int; let ghost vx_reused = identifiers@.len() as int; let ghost vx_ids1 = identifiers@;",
             anchor=r"let slots_len = self\.slots\.len\(\)"),
        Hint("before", "let ghost vx_s = self.slots@;", anchor=r"self\.slots\.push\(Slot::new\(location\)\)"),
        Hint("after", "proof { assert(self.slots@ =~= vx_s.push(self.slots@.last())); lemma_count_push(vx_s, self.slots@.last()); }",
             anchor=r"self\.slots\.push\(Slot::new\(location\)\)"),
        Hint("end", END_PROOF),
    ]
    reused_inv = [
        ("reuse.count", "identifiers@.len() == locations.indices.start - vx_l0.indices.start"),
        ("reuse.count_le_free", "identifiers@.len() <= vx_old.free@.len()"),
        ("reuse.free_is_suffix", "self.free@ == vx_old.free@.subrange(identifiers@.len() as int, vx_old.free@.len() as int)"),
        ("reuse.slots_len", "self.slots@.len() == vx_old.slots@.len()"),
        ("reuse.active_count", "vx_active_count(self.slots@) == vx_active_count(vx_old.slots@) + identifiers@.len()"),
        ("reuse.ids", "forall|k: int| 0 <= k < identifiers@.len() ==> (#[trigger] identifiers@[k]).index == vx_old.free@[k] && identifiers@[k].generation == vx_old.slots@[vx_old.free@[k] as int].generation.wrapping_add(1)"),
        ("reuse.slots", "forall|k: int| 0 <= k < identifiers@.len() ==> (#[trigger] self.slots@[vx_old.free@[k] as int]) == (Slot { generation: vx_old.slots@[vx_old.free@[k] as int].generation.wrapping_add(1), location: Some(vx_l0.nth(k)) })"),
        ("reuse.untouched", "forall|s: int| 0 <= s < vx_old.slots@.len() && !(exists|k: int| 0 <= k < identifiers@.len() && #[trigger] vx_old.free@[k] == s) ==> self.slots@[s] == vx_old.slots@[s]"),
        ("old.wf", "vx_old.wf()"),
        ("A5", "vx_old.slots@.len() + vx_l0.spec_len() <= usize::MAX"),
        ("l0.wf", "vx_l0.wf()"),
    ]
    f.loops = [
        Loop(invariant=WF_INV + common + reused_inv,
             ensures=[("reuse.exit", "self.free@.len() == 0 || !(locations.indices.start < locations.indices.end)")],
             decreases="self.free@.len()"),
        Loop(invariant=common + [
            ("new.count", "self.slots@.len() - slots_len == locations.indices.start - vx_mid_start"),
            ("new.free", "self.free@ == vx_mid.free@"),
            ("new.prefix", "forall|s: int| 0 <= s < slots_len ==> self.slots@[s] == vx_mid.slots@[s]"),
            ("new.slots", "forall|s: int| slots_len <= s < self.slots@.len() ==> (#[trigger] self.slots@[s]) == (Slot { generation: 0, location: Some(vx_l0.nth(vx_mid_start - vx_l0.indices.start + s - slots_len)) })"),
            ("new.bound", "vx_mid_start <= locations.indices.start <= locations.indices.end"),
            ("new.slots_len", "slots_len == vx_mid.slots@.len()"),
            ("new.count", "vx_active_count(self.slots@) == vx_active_count(vx_mid.slots@) + self.slots@.len() - slots_len"),
        ], ensures=[("new.exit", "locations.indices.start == locations.indices.end")],
           decreases="locations.indices.end - locations.indices.start"),
        Loop(invariant=[
            ("idgen.len", "identifiers@.len() == vx_reused + index"),
            ("idgen.prefix", "forall|k: int| 0 <= k < vx_reused ==> identifiers@[k] == vx_ids1[k]"),
            ("idgen.new", "forall|k: int| vx_reused <= k < identifiers@.len() ==> (#[trigger] identifiers@[k]) == (entity::Identifier { index: (slots_len + k - vx_reused) as usize, generation: 0 })"),
            ("idgen.A5", "slots_len + remaining_locations <= usize::MAX"),
        ]),
    ]
