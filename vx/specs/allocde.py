"""Unit allocde: the real Allocator::from_serialized_parts (src/entity/allocator/impl_serde.rs)
against "Ok => the allocator is well formed, agrees with every stored table, accepts no identifier
that is not stored, and reproduces the serialized free list in order".

Same extraction, prelude and contracts as unit archs; only from_serialized_parts' body is verified
here (every other function appears with its contract and `external_body`)."""
import re
from ..vxlib import Fn, Hint, Loop, match_close
from . import archs

AD = "src/entity/allocator/impl_serde.rs"


def rw_claim_slot(body):
    """R16: the idiom
           let slot = slots.get_mut(IDX).ok_or_else(|| ERR)?;
           match slot { Some(_) => Err(ERR2), None => { *slot = Some(VALUE); Ok(()) } }?;
       -> if IDX >= slots.len() { return Err(..); } if slots[IDX].is_some() { return Err(..); }
          slots.set(IDX, Some(VALUE));
    (`Vec::get_mut` + `Option::ok_or_else(closure)` + `?`, then a `match` on the `&mut Option`
    whose `Some` arm is an error and whose `None` arm stores the value).  Bracket-aware."""
    n = 0
    while True:
        m = re.search(r"let slot = slots\.get_mut\(", body)
        if not m:
            return body, n
        p0 = m.end() - 1
        p1 = match_close(body, p0)
        idx = body[p0 + 1:p1].strip()
        m2 = re.compile(r"\s*\.ok_or_else\(").match(body, p1 + 1)
        if not m2:
            return body, 0
        q1 = match_close(body, m2.end() - 1)
        m3 = re.compile(r"\s*\?\s*;\s*match slot\s*\{").match(body, q1 + 1)
        if not m3:
            return body, 0
        b0 = m3.end() - 1
        b1 = match_close(body, b0)
        arms = body[b0 + 1:b1]
        m4 = re.search(r"Some\(_\)\s*=>\s*Err\(", arms)
        m5 = re.search(r"None\s*=>\s*\{\s*\*slot = Some\(", arms)
        m6 = re.compile(r"\s*\?\s*;").match(body, b1 + 1)
        if not (m4 and m5 and m6):
            return body, 0
        v0 = m5.end() - 1
        v1 = match_close(arms, v0)
        value = arms[v0 + 1:v1]
        rest = arms[v1 + 1:]
        if not re.match(r"\s*;\s*Ok\(\(\)\)\s*\}\s*,?\s*$", rest):
            return body, 0
        rep = (f"if {idx} >= slots.len() {{ return Err(vx_custom_error()); }}\n"
               f"            if slots[{idx}].is_some() {{ return Err(vx_custom_error()); }}\n"
               f"            slots.set({idx}, Some({value}));")
        body = body[:m.start()] + rep + body[m6.end():]
        n += 1


SPEC = r'''
// ---- A1: `vec![None; n]`
#[verifier::external_body]
pub fn vx_vec_none<T>(n: usize) -> (v: Vec<Option<T>>)
    ensures v@.len() == n, forall|i: int| 0 <= i < n ==> (#[trigger] v@[i]) is None { unimplemented!() }

/// W2 (same text as in unit world): every identifier the allocator accepts is attached to the
/// stored row it points at
pub open spec fn vx_de_ids_stored<R: Registry>(m: IMap<archetype::IdentifierRef<R>, archetype::Archetype<R>>, a: &Allocator<R>) -> bool {
    forall|i: entity::Identifier| a.resolves(i) ==> {
        let l = #[trigger] a.view()[i];
        m.dom().contains(l.identifier) && l.index < m[l.identifier].length && m[l.identifier].ids()[l.index as int] == i
    }
}
/// the slot a released identifier of the serialized free list claims
pub open spec fn vx_free_slot<R: Registry>(e: entity::Identifier) -> Option<Slot<R>> {
    Some(Slot { generation: e.generation, location: None })
}
/// the slot row `r` of the table under key `k` claims
pub open spec fn vx_row_slot<R: Registry>(t: archetype::Archetype<R>, k: archetype::IdentifierRef<R>, r: int) -> Option<Slot<R>> {
    Some(Slot { generation: t.ids()[r].generation, location: Some(Location { identifier: k, index: r as usize }) })
}
/// the first `n` entries of the serialized free list have claimed their slots
pub open spec fn vx_free_claimed<R: Registry>(slots: Seq<Option<Slot<R>>>, free: Seq<entity::Identifier>, n: int) -> bool {
    &&& forall|j: int| 0 <= j < n ==> (#[trigger] free[j]).index < slots.len() && slots[free[j].index as int] == vx_free_slot::<R>(free[j])
    &&& forall|a: int, b: int| 0 <= a < b < n ==> (#[trigger] free[a]).index != (#[trigger] free[b]).index
}
/// rows 0..rn of table `t` (under key `k`) have claimed their slots
pub open spec fn vx_rows_claimed<R: Registry>(slots: Seq<Option<Slot<R>>>, t: archetype::Archetype<R>, k: archetype::IdentifierRef<R>, rn: int) -> bool {
    forall|r: int| 0 <= r < rn ==> (#[trigger] t.ids()[r]).index < slots.len() && slots[t.ids()[r].index as int] == vx_row_slot(t, k, r)
}
/// slot `s` was claimed by one of the first `fn_` free entries, by a row of one of the first `tn`
/// tables, or by one of the first `rn` rows of table `tn`
pub open spec fn vx_claimed_by<R: Registry>(s: int, free: Seq<entity::Identifier>, fn_: int,
    m: IMap<archetype::IdentifierRef<R>, archetype::Archetype<R>>, keys: Seq<archetype::IdentifierRef<R>>, tn: int, rn: int) -> bool {
    ||| exists|j: int| 0 <= j < fn_ && (#[trigger] free[j]).index == s
    ||| exists|j: int, r: int| 0 <= j < tn && 0 <= r < m[keys[j]].length && (#[trigger] m[keys[j]].ids()[r]).index == s
    ||| exists|r: int| 0 <= r < rn && tn < keys.len() && (#[trigger] m[keys[tn]].ids()[r]).index == s
}

/// number of claimed slots that carry a location (C13: the entity count of the rebuilt allocator)
pub open spec fn vx_opt_active<R: Registry>(s: Seq<Option<Slot<R>>>) -> nat
    decreases s.len()
{
    if s.len() == 0 { 0 } else { vx_opt_active(s.drop_last()) + (if s.last() is Some && s.last()->0.location is Some { 1nat } else { 0nat }) }
}
pub proof fn lemma_opt_none<R: Registry>(s: Seq<Option<Slot<R>>>)
    requires forall|i: int| 0 <= i < s.len() ==> (#[trigger] s[i]) is None,
    ensures vx_opt_active(s) == 0
    decreases s.len()
{
    if s.len() > 0 { assert(s.last() is None); lemma_opt_none(s.drop_last()); }
}
/// claiming an unclaimed slot adds one exactly when the claim carries a location
pub proof fn lemma_opt_claim<R: Registry>(s: Seq<Option<Slot<R>>>, i: int, x: Option<Slot<R>>)
    requires 0 <= i < s.len(), s[i] is None,
    ensures vx_opt_active(s.update(i, x)) == vx_opt_active(s) + (if x is Some && x->0.location is Some { 1nat } else { 0nat })
    decreases s.len()
{
    if i == s.len() - 1 {
        assert(s.update(i, x).drop_last() =~= s.drop_last());
    } else {
        assert(s.update(i, x).drop_last() =~= s.drop_last().update(i, x));
        lemma_opt_claim(s.drop_last(), i, x);
    }
}
pub proof fn lemma_opt_unwrap<R: Registry>(s: Seq<Option<Slot<R>>>, t: Seq<Slot<R>>)
    requires s.len() == t.len(), forall|i: int| 0 <= i < s.len() ==> (#[trigger] s[i]) is Some && t[i] == s[i]->0,
    ensures vx_active_count(t) == vx_opt_active(s)
    decreases s.len()
{
    if s.len() > 0 {
        assert(s.last() is Some && t.last() == s.last()->0);
        lemma_opt_unwrap(s.drop_last(), t.drop_last());
    }
}

/// the exit state of the claiming loops makes a well-formed allocator that agrees with the tables
pub proof fn lemma_de_end<R: Registry>(vx_sl: Seq<Option<Slot<R>>>, vx_fr: Seq<entity::Identifier>,
    vx_m: IMap<archetype::IdentifierRef<R>, archetype::Archetype<R>>, keys: Seq<archetype::IdentifierRef<R>>, a: Allocator<R>)
    requires
        vx_enum(vx_m, keys),
        forall|k: archetype::IdentifierRef<R>| vx_m.dom().contains(k) ==> (#[trigger] vx_m[k]).wf() && vx_m[k].key() == k,
        vx_free_claimed(vx_sl, vx_fr, vx_fr.len() as int),
        forall|j: int| 0 <= j < keys.len() ==> vx_rows_claimed(vx_sl, #[trigger] vx_m[keys[j]], keys[j], vx_m[keys[j]].length as int),
        forall|s: int| 0 <= s < vx_sl.len() && (#[trigger] vx_sl[s]) is Some ==> vx_claimed_by(s, vx_fr, vx_fr.len() as int, vx_m, keys, keys.len() as int, 0),
        forall|s: int| 0 <= s < vx_sl.len() ==> (#[trigger] vx_sl[s]) is Some,
        vx_opt_active(vx_sl) == vx_sum_keys(vx_m, keys),
        a.slots@.len() == vx_sl.len(), forall|s: int| 0 <= s < vx_sl.len() ==> (#[trigger] a.slots@[s]) == vx_sl[s]->0,
        a.free@.len() == vx_fr.len(), forall|j: int| 0 <= j < vx_fr.len() ==> (#[trigger] a.free@[j]) == vx_fr[j].index,
    ensures
        a.wf(),
        forall|k: archetype::IdentifierRef<R>| vx_m.dom().contains(k) ==> (#[trigger] vx_m[k]).agrees(&a),
        vx_de_ids_stored(vx_m, &a),
        a.active_count() == vx_total_rows(vx_m),
        forall|j: int| 0 <= j < vx_fr.len() ==> (#[trigger] vx_fr[j]).index < vx_sl.len() && a.slots@[vx_fr[j].index as int].generation == vx_fr[j].generation,
{
            let n = keys.len() as int;
            assert(a.slots@.len() == vx_sl.len());
            assert forall|s: int| 0 <= s < vx_sl.len() implies (#[trigger] a.slots@[s]) == vx_sl[s]->0 && vx_sl[s] is Some by { }
            // free list: in bounds, inactive, distinct
            assert forall|j: int| 0 <= j < a.free@.len() implies (#[trigger] a.free@[j]) < a.slots@.len() && a.slots@[a.free@[j] as int].location is None by {
                assert(a.free@[j] == vx_fr[j].index);
                assert(vx_sl[vx_fr[j].index as int] == vx_free_slot::<R>(vx_fr[j]));
            }
            assert forall|i: int, j: int| 0 <= i < j < a.free@.len() implies a.free@[i] != a.free@[j] by {
                assert(vx_fr[i].index != vx_fr[j].index);
            }
            // complete: an inactive slot was claimed by a free entry (rows claim active slots)
            assert forall|s: int| 0 <= s < a.slots@.len() && (#[trigger] a.slots@[s]).location is None implies a.free@.contains(s as usize) by {
                assert(vx_sl[s] is Some);
                assert(vx_claimed_by(s, vx_fr, vx_fr.len() as int, vx_m, keys, n, 0));
                if exists|j: int, q: int| 0 <= j < n && 0 <= q < vx_m[keys[j]].length && (#[trigger] vx_m[keys[j]].ids()[q]).index == s {
                    let (j, q) = choose|j: int, q: int| 0 <= j < n && 0 <= q < vx_m[keys[j]].length && (#[trigger] vx_m[keys[j]].ids()[q]).index == s;
                    assert(vx_rows_claimed(vx_sl, vx_m[keys[j]], keys[j], vx_m[keys[j]].length as int));
                    assert(vx_sl[s] == vx_row_slot(vx_m[keys[j]], keys[j], q));
                    assert(false);
                }
                let j = choose|j: int| 0 <= j < vx_fr.len() && (#[trigger] vx_fr[j]).index == s;
                assert(a.free@[j] == s as usize);
            }
            assert(a.wf());
            // entity count: active slots == claimed slots with a location == rows of all tables
            lemma_opt_unwrap(vx_sl, a.slots@);
            lemma_total_rows(vx_m, keys);
            assert(a.active_count() == vx_total_rows(vx_m));
            // every table agrees with the allocator
            assert forall|k: archetype::IdentifierRef<R>| vx_m.dom().contains(k) implies (#[trigger] vx_m[k]).agrees(&a) by {
                assert(keys.contains(k));
                let j = choose|j: int| 0 <= j < n && keys[j] == k;
                let tb = vx_m[k];
                assert(tb.key() == k);
                assert(vx_rows_claimed(vx_sl, vx_m[keys[j]], keys[j], vx_m[keys[j]].length as int));
                assert forall|q: int| 0 <= q < tb.length implies a.resolves(#[trigger] tb.ids()[q])
                    && a.view()[tb.ids()[q]] == (Location { identifier: tb.key(), index: q as usize }) by {
                    assert(vx_sl[tb.ids()[q].index as int] == vx_row_slot(tb, k, q));
                }
            }
            // every accepted identifier is stored
            assert forall|id: entity::Identifier| a.resolves(id) implies ({
                let l = #[trigger] a.view()[id];
                vx_m.dom().contains(l.identifier) && l.index < vx_m[l.identifier].length && vx_m[l.identifier].ids()[l.index as int] == id
            }) by {
                let s = id.index as int;
                assert(vx_sl[s] is Some);
                assert(vx_claimed_by(s, vx_fr, vx_fr.len() as int, vx_m, keys, n, 0));
                if exists|j: int| 0 <= j < vx_fr.len() && (#[trigger] vx_fr[j]).index == s {
                    let j = choose|j: int| 0 <= j < vx_fr.len() && (#[trigger] vx_fr[j]).index == s;
                    assert(vx_sl[s] == vx_free_slot::<R>(vx_fr[j]));
                    assert(false);
                }
                let (j, q) = choose|j: int, q: int| 0 <= j < n && 0 <= q < vx_m[keys[j]].length && (#[trigger] vx_m[keys[j]].ids()[q]).index == s;
                let tb = vx_m[keys[j]];
                assert(keys.contains(keys[j]));
                assert(vx_m.dom().contains(keys[j]));
                assert(vx_rows_claimed(vx_sl, tb, keys[j], tb.length as int));
                assert(vx_sl[s] == vx_row_slot(tb, keys[j], q));
                assert(tb.ids()[q].generation == id.generation && tb.ids()[q].index == id.index);
                assert(tb.ids()[q] == id);
            }

    assert forall|j: int| 0 <= j < vx_fr.len() implies (#[trigger] vx_fr[j]).index < vx_sl.len() && a.slots@[vx_fr[j].index as int].generation == vx_fr[j].generation by {
        assert(vx_sl[vx_fr[j].index as int] == vx_free_slot::<R>(vx_fr[j]));
    }
}

/// one step of the row-claiming loop: row `r` of table `t` claims its (so far unclaimed) slot
pub proof fn lemma_de_row<R: Registry>(vx_pre: Seq<Option<Slot<R>>>, vx_new: Seq<Option<Slot<R>>>, vx_fr: Seq<entity::Identifier>,
    vx_m: IMap<archetype::IdentifierRef<R>, archetype::Archetype<R>>, keys: Seq<archetype::IdentifierRef<R>>, t: int, r: int)
    requires
        0 <= t < keys.len(), vx_m[keys[t]].key() == keys[t], 0 <= r < vx_m[keys[t]].length,
        vx_m[keys[t]].ids()[r].index < vx_pre.len(), vx_pre[vx_m[keys[t]].ids()[r].index as int] is None,
        vx_new == vx_pre.update(vx_m[keys[t]].ids()[r].index as int, vx_row_slot(vx_m[keys[t]], keys[t], r)),
        vx_free_claimed(vx_pre, vx_fr, vx_fr.len() as int),
        forall|j: int| 0 <= j < t ==> vx_rows_claimed(vx_pre, #[trigger] vx_m[keys[j]], keys[j], vx_m[keys[j]].length as int),
        vx_rows_claimed(vx_pre, vx_m[keys[t]], keys[t], r),
        forall|s: int| 0 <= s < vx_pre.len() && (#[trigger] vx_pre[s]) is Some ==> vx_claimed_by(s, vx_fr, vx_fr.len() as int, vx_m, keys, t, r),
    ensures
        vx_free_claimed(vx_new, vx_fr, vx_fr.len() as int),
        forall|j: int| 0 <= j < t ==> vx_rows_claimed(vx_new, #[trigger] vx_m[keys[j]], keys[j], vx_m[keys[j]].length as int),
        vx_rows_claimed(vx_new, vx_m[keys[t]], keys[t], r + 1),
        forall|s: int| 0 <= s < vx_new.len() && (#[trigger] vx_new[s]) is Some ==> vx_claimed_by(s, vx_fr, vx_fr.len() as int, vx_m, keys, t, r + 1),
        vx_opt_active(vx_new) == vx_opt_active(vx_pre) + 1,
{
                let tb = vx_m[keys[t]];
                let e = tb.ids()[r];
                assert(tb.key() == keys[t]);
                assert(vx_new == vx_pre.update(e.index as int, vx_row_slot(tb, keys[t], r)));
                lemma_opt_claim(vx_pre, e.index as int, vx_row_slot(tb, keys[t], r));
                // nothing claimed before sits at the index just claimed (it was None)
                assert forall|j: int| 0 <= j < vx_fr.len() implies (#[trigger] vx_fr[j]).index != e.index by {
                    assert(vx_pre[vx_fr[j].index as int] is Some);
                }
                assert(vx_free_claimed(vx_new, vx_fr, vx_fr.len() as int));
                assert forall|j: int| 0 <= j < t implies vx_rows_claimed(vx_new, #[trigger] vx_m[keys[j]], keys[j], vx_m[keys[j]].length as int) by {
                    let tj = vx_m[keys[j]];
                    assert(vx_rows_claimed(vx_pre, tj, keys[j], tj.length as int));
                    assert forall|q: int| 0 <= q < tj.length implies (#[trigger] tj.ids()[q]).index < vx_new.len() && vx_new[tj.ids()[q].index as int] == vx_row_slot(tj, keys[j], q) by {
                        assert(vx_pre[tj.ids()[q].index as int] is Some);
                    }
                }
                assert(vx_rows_claimed(vx_new, tb, keys[t], r + 1)) by {
                    assert forall|q: int| 0 <= q < r + 1 implies (#[trigger] tb.ids()[q]).index < vx_new.len() && vx_new[tb.ids()[q].index as int] == vx_row_slot(tb, keys[t], q) by {
                        if q < r { assert(vx_pre[tb.ids()[q].index as int] is Some); }
                    }
                }
                assert forall|s: int| 0 <= s < vx_new.len() && (#[trigger] vx_new[s]) is Some implies vx_claimed_by(s, vx_fr, vx_fr.len() as int, vx_m, keys, t, r + 1) by {
                    if s == e.index as int {
                        assert(0 <= r < r + 1 && t < keys.len() && vx_m[keys[t]].ids()[r].index == s);
                    } else {
                        assert(vx_pre[s] is Some);
                        assert(vx_claimed_by(s, vx_fr, vx_fr.len() as int, vx_m, keys, t, r));
                        if exists|q: int| 0 <= q < r && t < keys.len() && (#[trigger] vx_m[keys[t]].ids()[q]).index == s {
                            let q = choose|q: int| 0 <= q < r && t < keys.len() && (#[trigger] vx_m[keys[t]].ids()[q]).index == s;
                            assert(0 <= q < r + 1 && t < keys.len() && vx_m[keys[t]].ids()[q].index == s);
                        }
                    }
                }

}

// ---- C06/C11: exact characterisation of the inputs from_serialized_parts accepts
pub open spec fn vx_row_in<R: Registry>(m: IMap<archetype::IdentifierRef<R>, archetype::Archetype<R>>, k: archetype::IdentifierRef<R>, r: int) -> bool {
    m.dom().contains(k) && 0 <= r < m[k].length
}
/// slot `s` is named by a free entry or by a stored row
pub open spec fn vx_covered<R: Registry>(s: int, fr: Seq<entity::Identifier>, m: IMap<archetype::IdentifierRef<R>, archetype::Archetype<R>>) -> bool {
    ||| exists|j: int| 0 <= j < fr.len() && (#[trigger] fr[j]).index == s
    ||| exists|k: archetype::IdentifierRef<R>, r: int| vx_row_in(m, k, r) && (#[trigger] m[k].ids()[r]).index == s
}
pub open spec fn vx_valid_a(length: int, fr: Seq<entity::Identifier>) -> bool { forall|j: int| 0 <= j < fr.len() ==> (#[trigger] fr[j]).index < length }
pub open spec fn vx_valid_b(fr: Seq<entity::Identifier>) -> bool { forall|a: int, b: int| 0 <= a < b < fr.len() ==> (#[trigger] fr[a]).index != (#[trigger] fr[b]).index }
pub open spec fn vx_valid_c<R: Registry>(length: int, m: IMap<archetype::IdentifierRef<R>, archetype::Archetype<R>>) -> bool {
    forall|k: archetype::IdentifierRef<R>, r: int| vx_row_in(m, k, r) ==> (#[trigger] m[k].ids()[r]).index < length
}
pub open spec fn vx_valid_d<R: Registry>(m: IMap<archetype::IdentifierRef<R>, archetype::Archetype<R>>) -> bool {
    forall|k1: archetype::IdentifierRef<R>, r1: int, k2: archetype::IdentifierRef<R>, r2: int|
        vx_row_in(m, k1, r1) && vx_row_in(m, k2, r2) && (k1 != k2 || r1 != r2) ==> (#[trigger] m[k1].ids()[r1]).index != (#[trigger] m[k2].ids()[r2]).index
}
pub open spec fn vx_valid_e<R: Registry>(fr: Seq<entity::Identifier>, m: IMap<archetype::IdentifierRef<R>, archetype::Archetype<R>>) -> bool {
    forall|j: int, k: archetype::IdentifierRef<R>, r: int| 0 <= j < fr.len() && vx_row_in(m, k, r) ==> (#[trigger] fr[j]).index != (#[trigger] m[k].ids()[r]).index
}
pub open spec fn vx_valid_f<R: Registry>(length: int, fr: Seq<entity::Identifier>, m: IMap<archetype::IdentifierRef<R>, archetype::Archetype<R>>) -> bool {
    forall|s: int| 0 <= s < length ==> #[trigger] vx_covered(s, fr, m)
}
/// the serialized (length, free list) and the table set describe one allocator: every index
/// 0..length is named exactly once, by a free entry or by a stored row
#[verifier::opaque]
pub open spec fn vx_valid_parts<R: Registry>(length: int, fr: Seq<entity::Identifier>, m: IMap<archetype::IdentifierRef<R>, archetype::Archetype<R>>) -> bool {
    vx_valid_a(length, fr) && vx_valid_b(fr) && vx_valid_c(length, m) && vx_valid_d(m) && vx_valid_e(fr, m) && vx_valid_f(length, fr, m)
}
/// the free list as `Serialize for Allocator` writes it: (index, generation of that slot), in order
pub open spec fn vx_ser_free<R: Registry>(a: Allocator<R>) -> Seq<entity::Identifier> {
    Seq::new(a.free@.len(), |j: int| entity::Identifier { index: a.free@[j], generation: a.slots@[a.free@[j] as int].generation })
}
/// C06: what a well-formed world serializes is accepted (allocator leg): the parts of any
/// allocator that satisfies the world invariant with a table set are valid -- also for any other
/// table set with the same identifier columns (validity only reads `ids()`)
pub proof fn lemma_wf_world_parts_valid<R: Registry>(a: Allocator<R>, m: IMap<archetype::IdentifierRef<R>, archetype::Archetype<R>>)
    requires a.wf(), forall|k: archetype::IdentifierRef<R>| m.dom().contains(k) ==> (#[trigger] m[k]).agrees(&a) && m[k].key() == k, vx_de_ids_stored(m, &a),
    ensures vx_valid_parts(a.slots@.len() as int, vx_ser_free(a), m)
{ reveal(vx_valid_parts);
    let fr = vx_ser_free(a);
    let length = a.slots@.len() as int;
    a.lemma_slots_len_fits();
    assert(vx_valid_a(length, fr));
    assert(vx_valid_b(fr));
    assert(vx_valid_c(length, m)) by {
        assert forall|k: archetype::IdentifierRef<R>, r: int| vx_row_in(m, k, r) implies (#[trigger] m[k].ids()[r]).index < length by { assert(m[k].agrees(&a)); }
    }
    assert(vx_valid_d(m)) by {
        assert forall|k1: archetype::IdentifierRef<R>, r1: int, k2: archetype::IdentifierRef<R>, r2: int|
            vx_row_in(m, k1, r1) && vx_row_in(m, k2, r2) && (k1 != k2 || r1 != r2) implies (#[trigger] m[k1].ids()[r1]).index != (#[trigger] m[k2].ids()[r2]).index by {
            assert(m[k1].agrees(&a)); assert(m[k2].agrees(&a));
            let i1 = m[k1].ids()[r1]; let i2 = m[k2].ids()[r2];
            if i1.index == i2.index {
                assert(i1.generation == i2.generation);
                assert(i1 == i2);
                assert(a.view()[i1] == (Location { identifier: k1, index: r1 as usize }));
                assert(a.view()[i2] == (Location { identifier: k2, index: r2 as usize }));
            }
        }
    }
    assert(vx_valid_e(fr, m)) by {
        assert forall|j: int, k: archetype::IdentifierRef<R>, r: int| 0 <= j < fr.len() && vx_row_in(m, k, r) implies (#[trigger] fr[j]).index != (#[trigger] m[k].ids()[r]).index by {
            assert(m[k].agrees(&a));
            assert(a.slots@[a.free@[j] as int].location is None);
        }
    }
    assert(vx_valid_f(length, fr, m)) by {
        assert forall|s: int| 0 <= s < length implies #[trigger] vx_covered(s, fr, m) by {
            if a.slots@[s].location is None {
                assert(a.free@.contains(s as usize));
                let j = choose|j: int| 0 <= j < a.free@.len() && a.free@[j] == s as usize;
                assert(fr[j].index == s);
            } else {
                let id = entity::Identifier { index: s as usize, generation: a.slots@[s].generation };
                assert(a.resolves(id));
                let l = a.view()[id];
                assert(vx_row_in(m, l.identifier, l.index as int) && m[l.identifier].ids()[l.index as int].index == s);
            }
        }
    }
}

/// validity only reads the identifier columns: it carries over to any other table set that holds
/// the same columns under other (pairwise distinct) keys -- e.g. the tables a deserializer rebuilt
pub proof fn lemma_valid_rekey<R: Registry>(length: int, fr: Seq<entity::Identifier>,
    m: IMap<archetype::IdentifierRef<R>, archetype::Archetype<R>>, m2: IMap<archetype::IdentifierRef<R>, archetype::Archetype<R>>,
    f: IMap<archetype::IdentifierRef<R>, archetype::IdentifierRef<R>>)
    requires
        vx_valid_parts(length, fr, m),
        forall|k: archetype::IdentifierRef<R>| m.dom().contains(k) ==> m2.dom().contains(#[trigger] f[k]) && m2[f[k]].ids() == m[k].ids() && m2[f[k]].length == m[k].length,
        forall|k2: archetype::IdentifierRef<R>| m2.dom().contains(k2) ==> exists|k: archetype::IdentifierRef<R>| m.dom().contains(k) && #[trigger] f[k] == k2,
        forall|k1: archetype::IdentifierRef<R>, k2: archetype::IdentifierRef<R>| m.dom().contains(k1) && m.dom().contains(k2) && #[trigger] f[k1] == #[trigger] f[k2] ==> k1 == k2,
    ensures vx_valid_parts(length, fr, m2)
{
    reveal(vx_valid_parts);
    let pre = |k2: archetype::IdentifierRef<R>| choose|k: archetype::IdentifierRef<R>| m.dom().contains(k) && #[trigger] f[k] == k2;
    assert forall|k2: archetype::IdentifierRef<R>, r: int| vx_row_in(m2, k2, r) implies vx_row_in(m, pre(k2), r) && m[pre(k2)].ids()[r] == (#[trigger] m2[k2].ids()[r]) by {
        let k = pre(k2);
        assert(m.dom().contains(k) && f[k] == k2);
    }
    assert(vx_valid_c(length, m2)) by {
        assert forall|k2: archetype::IdentifierRef<R>, r: int| vx_row_in(m2, k2, r) implies (#[trigger] m2[k2].ids()[r]).index < length by {
            assert(vx_row_in(m, pre(k2), r));
            assert(m[pre(k2)].ids()[r].index < length);
        }
    }
    assert(vx_valid_d(m2)) by {
        assert forall|k1: archetype::IdentifierRef<R>, r1: int, k2: archetype::IdentifierRef<R>, r2: int|
            vx_row_in(m2, k1, r1) && vx_row_in(m2, k2, r2) && (k1 != k2 || r1 != r2) implies (#[trigger] m2[k1].ids()[r1]).index != (#[trigger] m2[k2].ids()[r2]).index by {
            let p1 = pre(k1); let p2 = pre(k2);
            assert(vx_row_in(m, p1, r1) && vx_row_in(m, p2, r2));
            assert(f[p1] == k1 && f[p2] == k2);
            assert(p1 != p2 || r1 != r2);
            assert(m[p1].ids()[r1].index != m[p2].ids()[r2].index);
        }
    }
    assert(vx_valid_e(fr, m2)) by {
        assert forall|j: int, k2: archetype::IdentifierRef<R>, r: int| 0 <= j < fr.len() && vx_row_in(m2, k2, r) implies (#[trigger] fr[j]).index != (#[trigger] m2[k2].ids()[r]).index by {
            assert(vx_row_in(m, pre(k2), r));
            assert(fr[j].index != m[pre(k2)].ids()[r].index);
        }
    }
    assert(vx_valid_f(length, fr, m2)) by {
        assert forall|s: int| 0 <= s < length implies #[trigger] vx_covered(s, fr, m2) by {
            assert(vx_covered(s, fr, m));
            if !(exists|j: int| 0 <= j < fr.len() && (#[trigger] fr[j]).index == s) {
                let (k, r) = choose|k: archetype::IdentifierRef<R>, r: int| vx_row_in(m, k, r) && (#[trigger] m[k].ids()[r]).index == s;
                assert(vx_row_in(m2, f[k], r) && m2[f[k]].ids()[r].index == s);
            }
        }
    }
}
// ---- every error exit contradicts validity
pub proof fn lemma_site_free_oob<R: Registry>(length: int, fr: Seq<entity::Identifier>, m: IMap<archetype::IdentifierRef<R>, archetype::Archetype<R>>, j: int)
    requires 0 <= j < fr.len(), fr[j].index >= length,
    ensures !vx_valid_parts(length, fr, m)
{ reveal(vx_valid_parts); if vx_valid_a(length, fr) { assert(fr[j].index < length); } }
pub proof fn lemma_site_free_dup<R: Registry>(length: int, fr: Seq<entity::Identifier>, m: IMap<archetype::IdentifierRef<R>, archetype::Archetype<R>>, j: int, sl: Seq<Option<Slot<R>>>)
    requires 0 <= j < fr.len(), fr[j].index < sl.len(), sl[fr[j].index as int] is Some,
             forall|s: int| 0 <= s < sl.len() && (#[trigger] sl[s]) is Some ==> (exists|j2: int| 0 <= j2 < j && (#[trigger] fr[j2]).index == s),
    ensures !vx_valid_parts(length, fr, m)
{ reveal(vx_valid_parts);
    let j2 = choose|j2: int| 0 <= j2 < j && (#[trigger] fr[j2]).index == fr[j].index as int;
    if vx_valid_b(fr) { assert(fr[j2].index != fr[j].index); }
}
pub proof fn lemma_site_row_oob<R: Registry>(length: int, fr: Seq<entity::Identifier>, m: IMap<archetype::IdentifierRef<R>, archetype::Archetype<R>>, k: archetype::IdentifierRef<R>, r: int)
    requires vx_row_in(m, k, r), m[k].ids()[r].index >= length,
    ensures !vx_valid_parts(length, fr, m)
{ reveal(vx_valid_parts); if vx_valid_c(length, m) { assert(m[k].ids()[r].index < length); } }
pub proof fn lemma_site_row_dup<R: Registry>(length: int, fr: Seq<entity::Identifier>, m: IMap<archetype::IdentifierRef<R>, archetype::Archetype<R>>,
    keys: Seq<archetype::IdentifierRef<R>>, t: int, r: int)
    requires vx_enum(m, keys), 0 <= t < keys.len(), 0 <= r < m[keys[t]].length,
             vx_claimed_by(m[keys[t]].ids()[r].index as int, fr, fr.len() as int, m, keys, t, r),
    ensures !vx_valid_parts(length, fr, m)
{ reveal(vx_valid_parts);
    let s = m[keys[t]].ids()[r].index as int;
    assert(keys.contains(keys[t]));
    assert(vx_row_in(m, keys[t], r));
    if exists|j: int| 0 <= j < fr.len() && (#[trigger] fr[j]).index == s {
        let j = choose|j: int| 0 <= j < fr.len() && (#[trigger] fr[j]).index == s;
        if vx_valid_e(fr, m) { assert(fr[j].index != m[keys[t]].ids()[r].index); }
    } else if exists|j: int, q: int| 0 <= j < t && 0 <= q < m[keys[j]].length && (#[trigger] m[keys[j]].ids()[q]).index == s {
        let (j, q) = choose|j: int, q: int| 0 <= j < t && 0 <= q < m[keys[j]].length && (#[trigger] m[keys[j]].ids()[q]).index == s;
        assert(keys.contains(keys[j]));
        assert(vx_row_in(m, keys[j], q));
        assert(keys[j] != keys[t]);
        if vx_valid_d(m) { assert(m[keys[j]].ids()[q].index != m[keys[t]].ids()[r].index); }
    } else {
        let q = choose|q: int| 0 <= q < r && t < keys.len() && (#[trigger] m[keys[t]].ids()[q]).index == s;
        assert(vx_row_in(m, keys[t], q));
        if vx_valid_d(m) { assert(m[keys[t]].ids()[q].index != m[keys[t]].ids()[r].index); }
    }
}
pub proof fn lemma_site_missing<R: Registry>(length: int, fr: Seq<entity::Identifier>, m: IMap<archetype::IdentifierRef<R>, archetype::Archetype<R>>,
    keys: Seq<archetype::IdentifierRef<R>>, sl: Seq<Option<Slot<R>>>, s: int)
    requires vx_enum(m, keys), sl.len() == length, 0 <= s < length, sl[s] is None,
             vx_free_claimed(sl, fr, fr.len() as int),
             forall|j: int| 0 <= j < keys.len() ==> vx_rows_claimed(sl, #[trigger] m[keys[j]], keys[j], m[keys[j]].length as int),
    ensures !vx_valid_parts(length, fr, m)
{ reveal(vx_valid_parts);
    if vx_valid_f(length, fr, m) {
        assert(vx_covered(s, fr, m));
        if exists|j: int| 0 <= j < fr.len() && (#[trigger] fr[j]).index == s {
            let j = choose|j: int| 0 <= j < fr.len() && (#[trigger] fr[j]).index == s;
            assert(sl[fr[j].index as int] == vx_free_slot::<R>(fr[j]));
        } else {
            let (k, r) = choose|k: archetype::IdentifierRef<R>, r: int| vx_row_in(m, k, r) && (#[trigger] m[k].ids()[r]).index == s;
            assert(keys.contains(k));
            let j = choose|j: int| 0 <= j < keys.len() && keys[j] == k;
            assert(vx_rows_claimed(sl, m[keys[j]], keys[j], m[keys[j]].length as int));
            assert(sl[m[k].ids()[r].index as int] == vx_row_slot(m[k], k, r));
        }
    }
}
/// and an accepted input is valid
pub proof fn lemma_ok_parts_valid<R: Registry>(sl: Seq<Option<Slot<R>>>, fr: Seq<entity::Identifier>,
    m: IMap<archetype::IdentifierRef<R>, archetype::Archetype<R>>, keys: Seq<archetype::IdentifierRef<R>>)
    requires
        vx_enum(m, keys),
        vx_free_claimed(sl, fr, fr.len() as int),
        forall|j: int| 0 <= j < keys.len() ==> vx_rows_claimed(sl, #[trigger] m[keys[j]], keys[j], m[keys[j]].length as int),
        forall|s: int| 0 <= s < sl.len() && (#[trigger] sl[s]) is Some ==> vx_claimed_by(s, fr, fr.len() as int, m, keys, keys.len() as int, 0),
        forall|s: int| 0 <= s < sl.len() ==> (#[trigger] sl[s]) is Some,
    ensures vx_valid_parts(sl.len() as int, fr, m)
{ reveal(vx_valid_parts);
    let length = sl.len() as int;
    assert forall|k: archetype::IdentifierRef<R>, r: int| vx_row_in(m, k, r) implies (#[trigger] m[k].ids()[r]).index < length && sl[m[k].ids()[r].index as int] == vx_row_slot(m[k], k, r) by {
        assert(keys.contains(k));
        let j = choose|j: int| 0 <= j < keys.len() && keys[j] == k;
        assert(vx_rows_claimed(sl, m[keys[j]], keys[j], m[keys[j]].length as int));
    }
    assert(vx_valid_a(length, fr));
    assert(vx_valid_b(fr));
    assert(vx_valid_c(length, m));
    assert(vx_valid_d(m)) by {
        assert forall|k1: archetype::IdentifierRef<R>, r1: int, k2: archetype::IdentifierRef<R>, r2: int|
            vx_row_in(m, k1, r1) && vx_row_in(m, k2, r2) && (k1 != k2 || r1 != r2) implies (#[trigger] m[k1].ids()[r1]).index != (#[trigger] m[k2].ids()[r2]).index by {
            if m[k1].ids()[r1].index == m[k2].ids()[r2].index {
                assert(vx_row_slot(m[k1], k1, r1) == vx_row_slot(m[k2], k2, r2));
                assert(vx_row_slot(m[k1], k1, r1)->0.location->0.identifier == k1);
                assert(vx_row_slot(m[k1], k1, r1)->0.location->0.index == r1 as usize);
            }
        }
    }
    assert(vx_valid_e(fr, m)) by {
        assert forall|j: int, k: archetype::IdentifierRef<R>, r: int| 0 <= j < fr.len() && vx_row_in(m, k, r) implies (#[trigger] fr[j]).index != (#[trigger] m[k].ids()[r]).index by {
            assert(sl[fr[j].index as int] == vx_free_slot::<R>(fr[j]));
        }
    }
    assert(vx_valid_f(length, fr, m)) by {
        assert forall|s: int| 0 <= s < length implies #[trigger] vx_covered(s, fr, m) by {
            assert(sl[s] is Some);
            assert(vx_claimed_by(s, fr, fr.len() as int, m, keys, keys.len() as int, 0));
            if exists|j: int, q: int| 0 <= j < keys.len() && 0 <= q < m[keys[j]].length && (#[trigger] m[keys[j]].ids()[q]).index == s {
                let (j, q) = choose|j: int, q: int| 0 <= j < keys.len() && 0 <= q < m[keys[j]].length && (#[trigger] m[keys[j]].ids()[q]).index == s;
                assert(keys.contains(keys[j]));
                assert(vx_row_in(m, keys[j], q));
            }
        }
    }
}
'''


L1_STEP = r"""proof {
                let k = vx_c;
                let e = vx_fr[k];
                assert(e == *entity_identifier);
                assert(slots@ == vx_pre.update(e.index as int, vx_free_slot::<R>(e)));
                assert forall|j: int| 0 <= j < k implies (#[trigger] vx_fr[j]).index != e.index by {
                    assert(vx_pre[vx_fr[j].index as int] is Some);
                }
                lemma_opt_claim(vx_pre, e.index as int, vx_free_slot::<R>(e));
                assert(vx_free_claimed(slots@, vx_fr, k + 1));
                assert forall|s: int| 0 <= s < slots@.len() && (#[trigger] slots@[s]) is Some implies (exists|j: int| 0 <= j < k + 1 && (#[trigger] vx_fr[j]).index == s) by {
                    if s == e.index as int { assert(vx_fr[k].index == s); }
                    else {
                        assert(vx_pre[s] is Some);
                        let j = choose|j: int| 0 <= j < k && (#[trigger] vx_fr[j]).index == s;
                        assert(0 <= j < k + 1 && vx_fr[j].index == s);
                    }
                }
                vx_c = vx_c + 1;
            }"""

L3_STEP = r"""proof {
                assert(vx_m[vx_keys1@[vx_i1 as int]].ids()[i as int] == *entity_identifier);
                assert(vx_m[vx_keys1@[vx_i1 as int]].key() == vx_keys1@[vx_i1 as int]);
                lemma_de_row(vx_pre, slots@, vx_fr, vx_m, vx_keys1@, vx_i1 as int, i as int);
            }"""

L2_STEP = r"""proof {
            // table t is done: its rows move from the "current table" disjunct to the "earlier tables" one
            let t = vx_i1 as int;
            let tb = vx_m[vx_keys1@[t]];
            assert(i == tb.length);
            lemma_sum_take_step(vx_m, vx_keys1@, t);
            assert forall|s: int| 0 <= s < slots@.len() && (#[trigger] slots@[s]) is Some implies vx_claimed_by(s, vx_fr, vx_fr.len() as int, vx_m, vx_keys1@, t + 1, 0) by {
                assert(vx_claimed_by(s, vx_fr, vx_fr.len() as int, vx_m, vx_keys1@, t, tb.length as int));
                if exists|q: int| 0 <= q < tb.length && t < vx_keys1@.len() && (#[trigger] vx_m[vx_keys1@[t]].ids()[q]).index == s {
                    let q = choose|q: int| 0 <= q < tb.length && t < vx_keys1@.len() && (#[trigger] vx_m[vx_keys1@[t]].ids()[q]).index == s;
                    assert(0 <= t < t + 1 && 0 <= q < vx_m[vx_keys1@[t]].length && vx_m[vx_keys1@[t]].ids()[q].index == s);
                }
                if exists|j: int, q: int| 0 <= j < t && 0 <= q < vx_m[vx_keys1@[j]].length && (#[trigger] vx_m[vx_keys1@[j]].ids()[q]).index == s {
                    let (j, q) = choose|j: int, q: int| 0 <= j < t && 0 <= q < vx_m[vx_keys1@[j]].length && (#[trigger] vx_m[vx_keys1@[j]].ids()[q]).index == s;
                    assert(0 <= j < t + 1 && 0 <= q < vx_m[vx_keys1@[j]].length && vx_m[vx_keys1@[j]].ids()[q].index == s);
                }
            }
        }"""

END_PROOF = r"""proof {
            assert(vx_keys1@.take(vx_keys1@.len() as int) =~= vx_keys1@);
            lemma_de_end(vx_sl, vx_fr, vx_m, vx_keys1@, Allocator::<R> { slots: vx_slots, free: vx_free });
            lemma_ok_parts_valid(vx_sl, vx_fr, vx_m, vx_keys1@);
        }"""


def build():
    u = archs.build(only={"from_serialized_parts"}, name="allocde")
    u.text(SPEC)
    u.for_rewrites += [
        (r"for archetype in archetypes\.iter\(\)",
         "let vx_keys# = archetypes.raw_archetypes.vx_keys(); let vx_n# = archetypes.raw_archetypes.vx_len(vx_keys#); let mut vx_i#: usize = 0;",
         "vx_i# < vx_n#", "let archetype = archetypes.raw_archetypes.vx_nth(vx_i#, vx_keys#);", "vx_i# += 1;",
         "R14: `for t in archetypes.iter()` over the hashbrown table -> index loop over a ghost enumeration of its keys"),
        (r"for \(i, entity_identifier\) in archetype\.entity_identifiers\(\)\.enumerate\(\)",
         "let mut i: usize = 0;", "i < archetype.length", "let entity_identifier = &archetype.entity_identifiers[i];", "i += 1;",
         "R5j: `for (i, x) in t.entity_identifiers().enumerate()` (a slice of the first `length` identifiers) -> index loop"),
        (r"for \(i, slot\) in slots\.iter\(\)\.enumerate\(\)",
         "let mut i: usize = 0;", "i < slots.len()", "let slot = &slots[i];", "i += 1;",
         "R5j: `for (i, x) in v.iter().enumerate()` -> index loop"),
    ]
    u.impl("impl<R> Allocator<R> where R: Registry", [
        Fn(AD, r"^impl<R> Allocator<R>\s*where\s*R: Registry,\s*\{(?=\s*fn from_serialized_parts)", "from_serialized_parts", ret="r",
           vis="pub", generics="", where="",
           params="length: usize, free: Vec<entity::Identifier>, archetypes: &Archetypes<R>", ret_type="Result<Allocator<R>, VxErr>",
           rewrites=[(r"vec!\[None; length\]", "vx_vec_none::<Slot<R>>(length)", "A1: vec![None; n] is n times None"),
                     (r"for entity_identifier in &free \{", "for entity_identifier in vx_it1: free.iter() {", "iterator name for the loop invariant"),
                     (rw_claim_slot, "R16 get_mut(i).ok_or_else(..)? + match slot { Some(_) => Err(..), None => { *slot = Some(v); Ok(()) } }?", "see rw_claim_slot"),
                     (r"return Err\(de::Error::custom\(format!\(\"missing entity index \{i\}\"\)\)\);", "return Err(vx_custom_error());", "R10c: error-message construction dropped"),
                     (r"Ok\(Self \{\s*slots: slots\s*\.into_iter\(\)\s*\.map\(\|slot\| \{\s*unsafe \{ slot\.unwrap\(\) \}\s*\}\)\s*\.collect\(\),\s*free: free\s*\.into_iter\(\)\s*\.map\(\|entity_identifier\| entity_identifier\.index\)\s*\.collect\(\),\s*\}\)",
                      "let ghost vx_sl = slots@; let ghost vx_fr = free@;\n"
                      "        let mut vx_slots: Vec<Slot<R>> = Vec::new();\n"
                      "        for slot in vx_it4: slots { vx_slots.push(slot.unwrap()); }\n"
                      "        let mut vx_free: VecDeque<usize> = VecDeque::new();\n"
                      "        for entity_identifier in vx_it5: free { vx_free.push_back(entity_identifier.index); }\n"
                      "        Ok(Self { slots: vx_slots, free: vx_free })",
                      "R5i: `v.into_iter().map(f).collect()` into Vec / VecDeque -> push loops in order (A1)"),
                     ],
           requires=[("pre.tables_keyed", "archetypes.inv_keyed()"), ("pre.tables_wf", "vx_tables_wf(archetypes@)")],
           ensures=[("C13.deserialize.alloc_wf", "r is Ok ==> r->Ok_0.wf()"),
                    ("C13.deserialize.tables_agree", "r is Ok ==> forall|k: archetype::IdentifierRef<R>| archetypes@.dom().contains(k) ==> (#[trigger] archetypes@[k]).agrees(&r->Ok_0)"),
                    ("C13.deserialize.ids_stored", "r is Ok ==> vx_de_ids_stored(archetypes@, &r->Ok_0)"),
                    ("C13.deserialize.count", "r is Ok ==> r->Ok_0.active_count() == vx_total_rows(archetypes@)"),
                    ("C06.deserialize.accepts_valid", "vx_valid_parts(length as int, free@, archetypes@) ==> r is Ok"),
                    ("C11.deserialize.rejects_invalid", "r is Ok ==> vx_valid_parts(length as int, free@, archetypes@)"),
                    ("C06.deserialize.slots_len", "r is Ok ==> r->Ok_0.slots@.len() == length"),
                    ("C06.deserialize.free_order", "r is Ok ==> r->Ok_0.free@.len() == free@.len() && forall|j: int| 0 <= j < free@.len() ==> r->Ok_0.free@[j] == (#[trigger] free@[j]).index"),
                    ("C06.deserialize.free_generations", "r is Ok ==> forall|j: int| 0 <= j < free@.len() ==> (#[trigger] free@[j]).index < length && r->Ok_0.slots@[free@[j].index as int].generation == free@[j].generation"),
                    ],
           loops=[
               Loop(invariant=[
                   ("de1.count", "vx_c == vx_it1.index@"),
                   ("de1.len", "slots@.len() == length"),
                   ("de1.claimed", "vx_free_claimed(slots@, vx_fr, vx_c)"),
                   ("de1.count0", "vx_opt_active(slots@) == 0"),
                   ("de1.only", "forall|s: int| 0 <= s < slots@.len() && (#[trigger] slots@[s]) is Some ==> (exists|j: int| 0 <= j < vx_c && (#[trigger] vx_fr[j]).index == s)"),
               ]),
               Loop(invariant=[
                   ("de2.enum", "vx_i1 <= vx_n1 && vx_n1 == vx_keys1@.len()"),
                   ("de2.len", "slots@.len() == length"),
                   ("de2.free", "vx_free_claimed(slots@, vx_fr, vx_fr.len() as int)"),
                   ("de2.tables", "forall|j: int| 0 <= j < vx_i1 ==> vx_rows_claimed(slots@, #[trigger] vx_m[vx_keys1@[j]], vx_keys1@[j], vx_m[vx_keys1@[j]].length as int)"),
                   ("de2.count", "vx_opt_active(slots@) == vx_sum_keys(vx_m, vx_keys1@.take(vx_i1 as int))"),
                   ("de2.only", "forall|s: int| 0 <= s < slots@.len() && (#[trigger] slots@[s]) is Some ==> vx_claimed_by(s, vx_fr, vx_fr.len() as int, vx_m, vx_keys1@, vx_i1 as int, 0)"),
               ], decreases="vx_n1 - vx_i1"),
               Loop(invariant=[
                   ("de3.index", "i <= archetype.length && vx_i1 < vx_n1 && *archetype == vx_m[vx_keys1@[vx_i1 as int]]"),
                   ("de3.len", "slots@.len() == length"),
                   ("de3.free", "vx_free_claimed(slots@, vx_fr, vx_fr.len() as int)"),
                   ("de3.tables", "forall|j: int| 0 <= j < vx_i1 ==> vx_rows_claimed(slots@, #[trigger] vx_m[vx_keys1@[j]], vx_keys1@[j], vx_m[vx_keys1@[j]].length as int)"),
                   ("de3.rows", "vx_rows_claimed(slots@, vx_m[vx_keys1@[vx_i1 as int]], vx_keys1@[vx_i1 as int], i as int)"),
                   ("de3.count", "vx_opt_active(slots@) == vx_sum_keys(vx_m, vx_keys1@.take(vx_i1 as int)) + i"),
                   ("de3.only", "forall|s: int| 0 <= s < slots@.len() && (#[trigger] slots@[s]) is Some ==> vx_claimed_by(s, vx_fr, vx_fr.len() as int, vx_m, vx_keys1@, vx_i1 as int, i as int)"),
               ], decreases="archetype.length - i"),
               Loop(invariant=[
                   ("de4.index", "i <= slots@.len()"),
                   ("de4.some", "forall|s: int| 0 <= s < i ==> (#[trigger] slots@[s]) is Some"),
               ], decreases="slots@.len() - i"),
               Loop(invariant=[
                   ("de5.count", "vx_c == vx_it4.index@ && vx_it4.seq() == vx_sl"),
                   ("de5.copied", "vx_slots@.len() == vx_c && forall|s: int| 0 <= s < vx_c ==> (#[trigger] vx_slots@[s]) == vx_sl[s]->0"),
               ]),
               Loop(invariant=[
                   ("de6.count", "vx_c == vx_it5.index@ && vx_it5.seq() == vx_fr"),
                   ("de6.copied", "vx_free@.len() == vx_c && forall|j: int| 0 <= j < vx_c ==> (#[trigger] vx_free@[j]) == vx_fr[j].index"),
               ]),
           ],
           hints=[
               Hint("start", "let ghost vx_m = archetypes@; let ghost vx_fr = free@; let ghost mut vx_c: int = 0; let ghost mut vx_pre = Seq::<Option<Slot<R>>>::empty();"),
               Hint("after", "proof { lemma_opt_none(slots@); }", anchor=r"let mut slots = vx_vec_none::<Slot<R>>\(length\)"),
               Hint("before", "proof { assert(vx_keys1@.take(0).len() == 0); }", anchor=r"while vx_i1 < vx_n1"),
               Hint("before", "proof { vx_pre = slots@; if entity_identifier.index >= slots@.len() { lemma_site_free_oob(length as int, vx_fr, vx_m, vx_c); } else if slots@[entity_identifier.index as int] is Some { lemma_site_free_dup(length as int, vx_fr, vx_m, vx_c, slots@); } }", anchor=r"if entity_identifier\.index >= slots\.len\(\)", nth=0),
               Hint("after", L1_STEP, anchor=r"slots\.set\(entity_identifier\.index", nth=0),
               Hint("after", "proof { assert(vx_keys1@.contains(vx_keys1@[vx_i1 as int])); assert(vx_m.dom().contains(vx_keys1@[vx_i1 as int])); assert(archetype.wf()); }", anchor=r"let archetype = archetypes\.raw_archetypes\.vx_nth\(vx_i1, vx_keys1\)"),
               Hint("before", "proof { vx_pre = slots@; assert(vx_keys1@.contains(vx_keys1@[vx_i1 as int])); assert(vx_m.dom().contains(vx_keys1@[vx_i1 as int])); assert(archetype.wf()); assert(archetype.ids()[i as int] == archetype.entity_identifiers@[i as int]); assert(vx_row_in(vx_m, vx_keys1@[vx_i1 as int], i as int)); if entity_identifier.index >= slots@.len() { lemma_site_row_oob(length as int, vx_fr, vx_m, vx_keys1@[vx_i1 as int], i as int); } else if slots@[entity_identifier.index as int] is Some { lemma_site_row_dup(length as int, vx_fr, vx_m, vx_keys1@, vx_i1 as int, i as int); } }", anchor=r"if entity_identifier\.index >= slots\.len\(\)", nth=1),
               Hint("before", L3_STEP, anchor=r"i \+= 1;", nth=0),
               Hint("before", L2_STEP, anchor=r"vx_i1 \+= 1;"),
               Hint("before", "proof { if slots@[i as int] is None { lemma_site_missing(length as int, vx_fr, vx_m, vx_keys1@, slots@, i as int); } }", anchor=r"if slot\.is_none\(\)"),
               Hint("after", "proof { vx_c = 0; }", anchor=r"let mut vx_slots: Vec<Slot<R>> = Vec::new\(\)"),
               Hint("after", "proof { vx_c = vx_c + 1; }", anchor=r"vx_slots\.push\(slot\.unwrap\(\)\)"),
               Hint("after", "proof { vx_c = 0; }", anchor=r"let mut vx_free: VecDeque<usize> = VecDeque::new\(\)"),
               Hint("after", "proof { vx_c = vx_c + 1; }", anchor=r"vx_free\.push_back\(entity_identifier\.index\)"),
               Hint("before", END_PROOF, anchor=r"Ok\(Self \{ slots: vx_slots, free: vx_free \}\)"),
           ],
           attrs=["#[verifier::loop_isolation(false)]"],
           props=["C06", "C11", "C13", "C02"]),
    ])
    return u
