"""Unit qiter: the real sequential query iterator (src/query/result/iter.rs: Iter::new, next,
size_hint, fold) against "the items still to be produced are exactly: the rest of the table being
walked, then every row of every remaining table the filter accepts, each once, nothing else".

Built on unit arch (the real Archetype struct: key(), length).  External, with assumed contracts:
  * the table iterator `archetypes::IterMut` (hashbrown RawIter behind it, A3): a finite sequence
    of distinct tables still to come, exact size_hint;
  * `Iterator::find` on it with the filter as predicate (A1: std's definition), and the filter
    itself (`ContainsFilterSealed::filter`, type-level recursion: K-view decides it per instance);
  * the per-table row iterator built by `Archetype::view(..).reshape().into_iterator()`: one item
    per row, in some order fixed by the table, exact size_hint (K-view decides the cells per
    instance, rows <= 2);
  * the user's fold closure, as an opaque recorder of the items it was called with.
"""
import re
from ..vxlib import Fn, Hint, Loop, match_close
from . import arch

IT = "src/query/result/iter.rs"

PRELUDE = r'''
// ---- unit qiter: externals of the sequential query iterator
/// identity of one query result: (table token, row)
pub struct VxItemId<R: Registry> { pub table: archetype::IdentifierRef<R>, pub row: int }
/// A6/K-view: does the filter `And<Views, Filter>` accept a table with these component bits
pub uninterp spec fn vx_matches<R: Registry, F, V>(t: archetype::Archetype<R>) -> bool;
/// the results of one table: one item per stored row
pub open spec fn vx_items_of<R: Registry>(t: archetype::Archetype<R>) -> Seq<VxItemId<R>> {
    Seq::new(t.length as nat, |r: int| VxItemId { table: t.key(), row: r })
}
/// C03: the results of a sequence of tables under the filter
pub open spec fn vx_flat<R: Registry, F, V>(ts: Seq<archetype::Archetype<R>>) -> Seq<VxItemId<R>>
    decreases ts.len()
{
    if ts.len() == 0 { Seq::empty() }
    else { (if vx_matches::<R, F, V>(ts[0]) { vx_items_of(ts[0]) } else { Seq::empty() }) + vx_flat::<R, F, V>(ts.skip(1)) }
}
/// index of the first table the filter accepts (or the length)
pub open spec fn vx_first_match<R: Registry, F, V>(ts: Seq<archetype::Archetype<R>>) -> int
    decreases ts.len()
{
    if ts.len() == 0 { 0 } else if vx_matches::<R, F, V>(ts[0]) { 0 } else { 1 + vx_first_match::<R, F, V>(ts.skip(1)) }
}
pub proof fn lemma_first_match<R: Registry, F, V>(ts: Seq<archetype::Archetype<R>>)
    ensures ({ let n = vx_first_match::<R, F, V>(ts);
        &&& 0 <= n <= ts.len()
        &&& n == ts.len() ==> vx_flat::<R, F, V>(ts) =~= Seq::empty()
        &&& n < ts.len() ==> vx_matches::<R, F, V>(ts[n]) && vx_flat::<R, F, V>(ts) =~= vx_items_of(ts[n]) + vx_flat::<R, F, V>(ts.skip(n + 1)) })
    decreases ts.len()
{
    if ts.len() > 0 && !vx_matches::<R, F, V>(ts[0]) {
        lemma_first_match::<R, F, V>(ts.skip(1));
        let n = vx_first_match::<R, F, V>(ts);
        if n < ts.len() { assert(ts.skip(1).skip(n - 1 + 1) =~= ts.skip(n + 1)); }
    }
}
/// every item of `vx_flat` is a stored row of an accepted table of `ts`, and every such row occurs
pub proof fn lemma_flat_sound<R: Registry, F, V>(ts: Seq<archetype::Archetype<R>>, i: int)
    requires 0 <= i < vx_flat::<R, F, V>(ts).len(),
    ensures exists|j: int| 0 <= j < ts.len() && vx_matches::<R, F, V>(#[trigger] ts[j]) && vx_flat::<R, F, V>(ts)[i].table == ts[j].key() && 0 <= vx_flat::<R, F, V>(ts)[i].row < ts[j].length
    decreases ts.len()
{
    let head = if vx_matches::<R, F, V>(ts[0]) { vx_items_of(ts[0]) } else { Seq::empty() };
    if i < head.len() {
        assert(vx_flat::<R, F, V>(ts)[i] == head[i]);
        assert(vx_matches::<R, F, V>(ts[0]));
    } else {
        assert(vx_flat::<R, F, V>(ts)[i] == vx_flat::<R, F, V>(ts.skip(1))[i - head.len()]);
        lemma_flat_sound::<R, F, V>(ts.skip(1), i - head.len());
        let j = choose|j: int| 0 <= j < ts.skip(1).len() && vx_matches::<R, F, V>(#[trigger] ts.skip(1)[j]) && vx_flat::<R, F, V>(ts.skip(1))[i - head.len()].table == ts.skip(1)[j].key() && 0 <= vx_flat::<R, F, V>(ts.skip(1))[i - head.len()].row < ts.skip(1)[j].length;
        assert(ts.skip(1)[j] == ts[j + 1]);
    }
}
pub proof fn lemma_flat_complete<R: Registry, F, V>(ts: Seq<archetype::Archetype<R>>, j: int, r: int)
    requires 0 <= j < ts.len(), vx_matches::<R, F, V>(ts[j]), 0 <= r < ts[j].length,
    ensures vx_flat::<R, F, V>(ts).contains(VxItemId { table: ts[j].key(), row: r })
    decreases ts.len()
{
    let head = if vx_matches::<R, F, V>(ts[0]) { vx_items_of(ts[0]) } else { Seq::empty() };
    if j == 0 {
        assert(vx_flat::<R, F, V>(ts)[r] == head[r]);
    } else {
        assert(ts.skip(1)[j - 1] == ts[j]);
        lemma_flat_complete::<R, F, V>(ts.skip(1), j - 1, r);
        let x = VxItemId { table: ts[j].key(), row: r };
        let i = choose|i: int| 0 <= i < vx_flat::<R, F, V>(ts.skip(1)).len() && vx_flat::<R, F, V>(ts.skip(1))[i] == x;
        assert(vx_flat::<R, F, V>(ts)[head.len() + i] == x);
    }
}

// ---- A3: archetypes::IterMut (hashbrown RawIter): the tables still to come
#[verifier::external_body]
#[verifier::accept_recursive_types(R)]
pub struct VxTableIter<'a, R: Registry> { p: PhantomData<&'a R> }
impl<'a, R: Registry> VxTableIter<'a, R> {
    pub uninterp spec fn rest(&self) -> Seq<archetype::Archetype<R>>;
    /// A1: `Iterator::find(|t| filter(t))` -- std's definition: advance to the first accepted element
    #[verifier::external_body]
    pub fn vx_find<F, V>(&mut self) -> (r: Option<&'a mut archetype::Archetype<R>>)
        ensures
            ({ let n = vx_first_match::<R, F, V>(old(self).rest());
               &&& n == old(self).rest().len() ==> r is None && final(self).rest().len() == 0
               &&& n < old(self).rest().len() ==> r is Some && *r->0 == old(self).rest()[n] && final(self).rest() == old(self).rest().skip(n + 1) }),
    { unimplemented!() }
    #[verifier::external_body]
    pub fn next(&mut self) -> (r: Option<&'a mut archetype::Archetype<R>>)
        ensures old(self).rest().len() == 0 ==> r is None && final(self).rest() == old(self).rest(),
                old(self).rest().len() > 0 ==> r is Some && *r->0 == old(self).rest()[0] && final(self).rest() == old(self).rest().skip(1)
    { unimplemented!() }
    /// hashbrown's RawIter knows the exact number of remaining elements
    #[verifier::external_body]
    pub fn size_hint(&self) -> (r: (usize, Option<usize>))
        ensures r.0 == self.rest().len(), r.1 == Some(r.0)
    { unimplemented!() }
}
// ---- R6: the row iterator of one table (zip of the viewed columns; K-view)
#[verifier::external_body]
#[verifier::accept_recursive_types(R)]
#[verifier::accept_recursive_types(V)]
pub struct VxRowIter<R: Registry, V> { p: PhantomData<(R, V)> }
#[verifier::external_body]
#[verifier::accept_recursive_types(R)]
#[verifier::accept_recursive_types(V)]
pub struct VxItem<R: Registry, V> { p: PhantomData<(R, V)> }
impl<R: Registry, V> VxItem<R, V> { pub uninterp spec fn id(&self) -> VxItemId<R>; }
/// the user's fold closure: records the items it was applied to
#[verifier::external_body]
#[verifier::accept_recursive_types(R)]
#[verifier::accept_recursive_types(A)]
pub struct VxFold<R: Registry, A> { p: PhantomData<(R, A)> }
impl<R: Registry, A> VxFold<R, A> { pub uninterp spec fn seen(&self) -> Seq<VxItemId<R>>; }
impl<R: Registry, V> VxRowIter<R, V> {
    pub uninterp spec fn items(&self) -> Seq<VxItemId<R>>;
    #[verifier::external_body]
    pub fn next(&mut self) -> (r: Option<VxItem<R, V>>)
        ensures
            old(self).items().len() == 0 ==> r is None && final(self).items() == old(self).items(),
            old(self).items().len() > 0 ==> r is Some && r->0.id() == old(self).items()[0] && final(self).items() == old(self).items().skip(1),
    { unimplemented!() }
    #[verifier::external_body]
    pub fn size_hint(&self) -> (r: (usize, Option<usize>))
        ensures r.0 == self.items().len(), r.1 == Some(r.0)
    { unimplemented!() }
    #[verifier::external_body]
    pub fn fold<A>(self, init: A, f: &mut VxFold<R, A>) -> (r: A)
        ensures final(f).seen() == old(f).seen() + self.items()
    { unimplemented!() }
}
#[verifier::external_body]
pub fn vx_view_rows<R: Registry, V>(t: &mut archetype::Archetype<R>) -> (r: VxRowIter<R, V>)
    ensures r.items() == vx_items_of(*old(t)), *final(t) == *old(t)
{ unimplemented!() }
#[verifier::external_body]
pub fn vx_filter<R: Registry, F, V>(t: &archetype::Archetype<R>) -> (b: bool) ensures b == vx_matches::<R, F, V>(*t) { unimplemented!() }
'''

SPEC = r'''
impl<'a, Registry: crate::Registry, Filter, Views, Indices> Iter<'a, Registry, Filter, Views, Indices> {
    /// C03: the results this iterator has yet to produce, in order
    pub open spec fn pending(&self) -> Seq<VxItemId<Registry>> {
        (match self.current_results_iter { Some(it) => it.items(), None => Seq::empty() }) + vx_flat::<Registry, Filter, Views>(self.archetypes_iter.rest())
    }
}
'''


PAR_PRELUDE = r'''
// ---- unit qiter, parallel leg: externals of query/result/par_iter.rs (rayon plumbing, A11)
/// rayon's `Consumer::Result` of the user's consumer, as the multiset of items that went into it
#[verifier::external_body]
#[verifier::accept_recursive_types(R)]
pub struct VxParResult<R: Registry> { p: PhantomData<R> }
impl<R: Registry> VxParResult<R> { pub uninterp spec fn items(&self) -> vstd::multiset::Multiset<VxItemId<R>>; }
#[verifier::external_body]
#[verifier::accept_recursive_types(R)]
pub struct VxReducer<R: Registry> { p: PhantomData<R> }
impl<R: Registry> VxReducer<R> {
    /// rayon `Reducer::reduce`: the union of what both sides consumed
    #[verifier::external_body]
    pub fn reduce(self, a: VxParResult<R>, b: VxParResult<R>) -> (r: VxParResult<R>)
        ensures r.items() == a.items().add(b.items()) { unimplemented!() }
}
#[verifier::external_body]
#[verifier::accept_recursive_types(R)]
pub struct VxParFolder<R: Registry> { p: PhantomData<R> }
impl<R: Registry> VxParFolder<R> {
    /// a folder that was fed nothing completes to the empty result
    #[verifier::external_body]
    pub fn complete(self) -> (r: VxParResult<R>) ensures r.items() == vstd::multiset::Multiset::<VxItemId<R>>::empty() { unimplemented!() }
}
/// the user's rayon consumer
#[verifier::external_body]
#[verifier::accept_recursive_types(R)]
pub struct VxConsumer<R: Registry> { p: PhantomData<R> }
impl<R: Registry> VxConsumer<R> {
    #[verifier::external_body]
    pub fn split_off_left(&self) -> (r: VxConsumer<R>) { unimplemented!() }
    #[verifier::external_body]
    pub fn to_reducer(&self) -> (r: VxReducer<R>) { unimplemented!() }
    #[verifier::external_body]
    pub fn into_folder(self) -> (r: VxParFolder<R>) { unimplemented!() }
    #[verifier::external_body]
    pub fn full(&self) -> (r: bool) { unimplemented!() }
}
/// R6: the parallel row iterator of one table (`Archetype::par_view(..).reshape().into_parallel_iterator()`;
/// K-parview decides the columns per instance)
#[verifier::external_body]
#[verifier::accept_recursive_types(R)]
#[verifier::accept_recursive_types(V)]
pub struct VxParRows<R: Registry, V> { p: PhantomData<(R, V)> }
impl<R: Registry, V> VxParRows<R, V> {
    pub uninterp spec fn items(&self) -> Seq<VxItemId<R>>;
    /// rayon drives every item of an indexed parallel iterator into the consumer exactly once
    #[verifier::external_body]
    pub fn drive_unindexed(self, consumer: VxConsumer<R>) -> (r: VxParResult<R>)
        ensures r.items() == self.items().to_multiset() { unimplemented!() }
}
#[verifier::external_body]
pub fn vx_par_view_rows<R: Registry, V>(t: &mut archetype::Archetype<R>) -> (r: VxParRows<R, V>)
    ensures r.items() == vx_items_of(*old(t)), *final(t) == *old(t)
{ unimplemented!() }
'''

PAR_SPEC = r'''
impl<Registry: crate::Registry, Filter, Views, Indices> ResultsFolder<VxConsumer<Registry>, VxParResult<Registry>, Filter, Views, Indices> {
    /// C09: what this folder has driven into the user's consumer so far
    pub open spec fn acc(&self) -> vstd::multiset::Multiset<VxItemId<Registry>> {
        match self.previous { Some(p) => p.items(), None => vstd::multiset::Multiset::empty() }
    }
}
'''

CLAIMS_PRELUDE = r'''
// ---- unit qiter, claims leg: externals of query/result/archetype_claims.rs
/// does filter `F` accept a table with this identifier (`ContainsFilterSealed<F, _>::filter`; K-view)
pub uninterp spec fn vx_matches_id<R: Registry, F>(k: archetype::IdentifierRef<R>) -> bool;
#[verifier::external_body]
pub fn vx_filter_id<R: Registry, F>(k: archetype::IdentifierRef<R>) -> (b: bool) ensures b == vx_matches_id::<R, F>(k) { unimplemented!() }
/// R6: `R::Claims` of the query views joined with those of the entry views (K-claim)
#[verifier::external_body]
#[verifier::accept_recursive_types(R)]
pub struct VxTaskClaims<R: Registry> { p: PhantomData<R> }
pub uninterp spec fn vx_claims_of<R: Registry, V, EV>() -> VxTaskClaims<R>;
#[verifier::external_body]
pub fn vx_view_claims<R: Registry, V, EV>() -> (c: VxTaskClaims<R>) ensures c == vx_claims_of::<R, V, EV>() { unimplemented!() }
/// index of the first table filter `F` accepts (or the length)
pub open spec fn vx_first_match_id<R: Registry, F>(ts: Seq<archetype::Archetype<R>>) -> int
    decreases ts.len()
{
    if ts.len() == 0 { 0 } else if vx_matches_id::<R, F>(ts[0].key()) { 0 } else { 1 + vx_first_match_id::<R, F>(ts.skip(1)) }
}
pub proof fn lemma_first_match_id<R: Registry, F>(ts: Seq<archetype::Archetype<R>>, n: int)
    requires 0 <= n <= ts.len(), forall|j: int| 0 <= j < n ==> !vx_matches_id::<R, F>((#[trigger] ts[j]).key()),
             n < ts.len() ==> vx_matches_id::<R, F>(ts[n].key()),
    ensures vx_first_match_id::<R, F>(ts) == n
    decreases ts.len()
{
    if ts.len() > 0 && n > 0 {
        assert(!vx_matches_id::<R, F>(ts[0].key()));
        assert forall|j: int| 0 <= j < n - 1 implies !vx_matches_id::<R, F>((#[trigger] ts.skip(1)[j]).key()) by { assert(ts.skip(1)[j] == ts[j + 1]); }
        if n < ts.len() { assert(ts.skip(1)[n - 1] == ts[n]); }
        lemma_first_match_id::<R, F>(ts.skip(1), n - 1);
    }
}
'''

FILTER_RE = (r"unsafe \{\s*<Registry as ContainsFilterSealed<\s*And<Views, Filter>,\s*And<Registry::ViewsFilterIndices, Registry::FilterIndices>,?\s*>>::filter\(archetype\.identifier\(\)\)\s*\}")
VIEW_RE = (r"unsafe \{\s*archetype\.view::<Views, \(\s*Registry::ViewsContainments,\s*Registry::ViewsIndices,\s*Registry::ViewsCanonicalContainments,?\s*\)>\(\)\s*\}\s*\.reshape\(\)\s*\.into_iterator\(\)")


def rw_find_map(body):
    """R20: `IT.find(|x| { COND }).map(|x| EXPR)` as the tail expression ->
           let mut vx_found = None; loop { match IT.next() { Some(x) => { if { COND } { vx_found = Some(x); break; } } None => { break; } } }
           match vx_found { Some(x) => Some(EXPR), None => None }
       (std's definitions of Iterator::find and Option::map, A1).  Bracket-aware."""
    m = re.search(r"(self\s*\.\s*archetypes_iter)\s*\.find\(\|(\w+)\|\s*\{", body)
    if not m:
        return body, 0
    it, x = re.sub(r"\s+", "", m.group(1)), m.group(2)
    c0 = m.end() - 1
    c1 = match_close(body, c0)
    cond = body[c0 + 1:c1]
    m2 = re.compile(r"\s*\)\s*\.map\(\|" + x + r"\|\s*\{").match(body, c1 + 1)
    if not m2:
        return body, 0
    e0 = m2.end() - 1
    e1 = match_close(body, e0)
    expr = body[e0 + 1:e1]
    m3 = re.compile(r"\s*\)\s*$").match(body, e1 + 1)
    if not m3:
        return body, 0
    rep = (f"let mut vx_found: Option<&mut archetype::Archetype<Registry>> = None;\n"
           f"        loop {{\n"
           f"            match {it}.next() {{\n"
           f"                Some({x}) => {{ if {{ {cond} }} {{ vx_found = Some({x}); break; }} }}\n"
           f"                None => {{ break; }}\n"
           f"            }}\n"
           f"        }}\n"
           f"        match vx_found {{ Some({x}) => Some({{ {expr} }}), None => None }}\n")
    return body[:m.start()] + rep, 1


def build():
    u = arch.build()
    u.name = "qiter"
    u.text(PRELUDE)
    u.struct(IT, "Iter", field_rewrites=[
        (r"archetypes_iter:\s*archetypes::IterMut<'a, Registry>", "archetypes_iter: VxTableIter<'a, Registry>", "R7: the table iterator over the hashbrown RawIter"),
        (r"current_results_iter:\s*Option<<Views::Results as Results>::Iterator>", "current_results_iter: Option<VxRowIter<Registry, Views>>", "R6: the per-table row iterator (type-level zip of column iterators)"),
    ])
    u.text(SPEC)
    HDR = "impl<'a, Registry: crate::Registry, Filter, Views, Indices> Iter<'a, Registry, Filter, Views, Indices>"
    NEW_IMPL = r"^impl<'a, Registry, Filter, Views, Indices> Iter<'a, Registry, Filter, Views, Indices>"
    IT_IMPL = r"^impl<'a, Registry, Filter, Views, Indices> Iterator for Iter<'a, Registry, Filter, Views, Indices>"
    u.impl(HDR, [
        Fn(IT, NEW_IMPL, "new", ret="r", vis="pub", generics="", where="",
           params="archetypes_iter: VxTableIter<'a, Registry>",
           ensures=[("C03.iter.new", "r.pending() =~= vx_flat::<Registry, Filter, Views>(archetypes_iter.rest())")],
           props=["C03"]),
        Fn(IT, IT_IMPL, "next", ret="r", vis="pub", generics="", where="",
           ret_type="Option<VxItem<Registry, Views>>",
           rewrites=[(r"if let result @ Some\(_\) = results\.next\(\) \{\s*return result;\s*\}",
                      "let result = results.next(); if result.is_some() { return result; }",
                      "binding pattern `x @ Some(_)` in `if let` -> bind, then test (same evaluation)"),
                     (r"let archetype = self\.archetypes_iter\.find\(\|archetype\| \{\s*vx_filter::<Registry, Filter, Views>\(archetype\)\s*\}\)\?;",
                      "let archetype = match self.archetypes_iter.vx_find::<Filter, Views>() { Some(vx_t) => vx_t, None => { return None; } };",
                      "A1: `Iterator::find(|t| filter(t))?` -> assumed-contract call (first accepted element, iterator advanced past it) and the match `?` abbreviates")],
           ensures=[("C03.iter.next_none", "old(self).pending().len() == 0 ==> r is None && final(self).pending().len() == 0"),
                    ("C03.iter.next_some", "old(self).pending().len() > 0 ==> r is Some && r->0.id() == old(self).pending()[0] && final(self).pending() =~= old(self).pending().skip(1)")],
           loops=[Loop(invariant=[("next.pending", "self.pending() =~= old(self).pending()")],
                       decreases="self.archetypes_iter.rest().len()")],
           hints=[Hint("before", "proof { lemma_first_match::<Registry, Filter, Views>(self.archetypes_iter.rest()); }", anchor=r"let archetype = match self\.archetypes_iter\.vx_find")],
           props=["C03"]),
        Fn(IT, IT_IMPL, "size_hint", ret="r", vis="pub", generics="", where="",
           rewrites=[(r"self\.current_results_iter\.as_ref\(\)\.map_or\(\s*\(0, Some\(0\)\),\s*<Views::Results as Results>::Iterator::size_hint,?\s*\)",
                      "match &self.current_results_iter { Some(vx_x) => vx_x.size_hint(), None => (0, Some(0)) }",
                      "`Option::as_ref().map_or(d, f)` -> the match it abbreviates")],
           ensures=[("C03.iter.size_hint_low", "r.0 <= self.pending().len()"),
                    ("C03.iter.size_hint_high", "r.1 is Some ==> self.pending().len() <= r.1->0")],
           hints=[Hint("start", "proof { lemma_first_match::<Registry, Filter, Views>(self.archetypes_iter.rest()); }")],
           props=["C03"]),
        Fn(IT, IT_IMPL, "fold", ret="r", vis="pub", generics="<A>", where="",
           params="self, mut init: A, mut fold: VxFold<Registry, A>", ret_type="(A, VxFold<Registry, A>)",
           rewrites=[(r"self\.archetypes_iter\.fold\(init, \|acc, archetype\| \{(.*)\}\)\s*$",
                      "let mut vx_it = self.archetypes_iter; let mut acc = init;\n"
                      "        loop {\n"
                      "            match vx_it.next() {\n"
                      "                Some(archetype) => { acc = {\\1}; }\n"
                      "                None => { break; }\n"
                      "            }\n"
                      "        }\n"
                      "        (acc, fold)",
                      "R5k/A1: `it.fold(init, |acc, x| BODY)` -> `let mut acc = init; loop { match it.next() { Some(x) => acc = BODY, None => break } }` (std's definition); the closure `fold` is returned next to the accumulator so that the postcondition can name its final state")],
           ensures=[("C03.iter.fold_all_once", "r.1.seen() =~= fold.seen() + self.pending()")],
           loops=[Loop(invariant=[("fold.progress", "fold.seen() + vx_flat::<Registry, Filter, Views>(vx_it.rest()) =~= vx_cur + vx_flat::<Registry, Filter, Views>(vx_ts)")],
                       ensures=[("fold.done", "vx_it.rest().len() == 0")],
                       decreases="vx_it.rest().len()")],
           hints=[Hint("start", "let ghost vx_s0 = fold.seen();"),
                  Hint("after", "let ghost vx_ts = vx_it.rest(); let ghost vx_cur = fold.seen();", anchor=r"let mut acc = init"),
                  Hint("before", "proof { assert(fold.seen() =~= vx_s0 + self.pending()); }", anchor=r"\(acc, fold\)\s*$")],
           props=["C03"]),
    ])

    # ---- parallel leg: the folder rayon feeds tables into (query/result/par_iter.rs)
    PI = "src/query/result/par_iter.rs"
    u.text(PAR_PRELUDE)
    u.struct(PI, "ResultsFolder")
    u.text(PAR_SPEC)
    FHDR = "impl<Registry: crate::Registry, Filter, Views, Indices> ResultsFolder<VxConsumer<Registry>, VxParResult<Registry>, Filter, Views, Indices>"
    F_IMPL = r"^impl<'a, Consumer, Registry, Filter, Views, Indices> Folder<&'a mut Archetype<Registry>>\s*for ResultsFolder<Consumer, Consumer::Result, Filter, Views, Indices>"
    u.impl(FHDR, [
        Fn(PI, F_IMPL, "consume", ret="r", vis="pub", generics="", where="",
           params="self, archetype: &mut archetype::Archetype<Registry>",
           rewrites=[(r"(?:unsafe \{ archetype\.par_view::<Views, _, _, _>\(\) \}|\(archetype\.par_view::<Views, _, _, _>\(\)\))\s*\.reshape\(\)\s*\.into_parallel_iterator\(\)", "vx_par_view_rows::<Registry, Views>(archetype)",
                      "R6: `Archetype::par_view::<Views, ..>().reshape().into_parallel_iterator()` -> assumed-contract call: one item per stored row (K-parview decides the columns per instance)")],
           ensures=[("C09.folder.consume", "r.acc() == self.acc().add(if vx_matches::<Registry, Filter, Views>(*old(archetype)) { vx_items_of(*old(archetype)).to_multiset() } else { vstd::multiset::Multiset::empty() })"),
                    ("C09.folder.table_kept", "*final(archetype) == *old(archetype)")],
           props=["C09"]),
        Fn(PI, F_IMPL, "complete", ret="r", vis="pub", generics="", where="", ret_type="VxParResult<Registry>",
           ensures=[("C09.folder.complete", "r.items() == self.acc()")],
           props=["C09"]),
        Fn(PI, F_IMPL, "full", ret="r", vis="pub", generics="", where="", props=["C09"]),
    ])
    u.label_props.update({"C09": ["C09"]})

    # ---- claims leg: the (archetype, claims) iterator a schedule stage consults (C08)
    AC = "src/query/result/archetype_claims.rs"
    u.text(CLAIMS_PRELUDE)
    u.struct(AC, "ArchetypeClaims", field_rewrites=[
        (r"archetypes_iter:\s*archetypes::IterMut<'a, Registry>", "archetypes_iter: VxTableIter<'a, Registry>", "R7: the table iterator over the hashbrown RawIter"),
    ])
    ACH = "impl<'a, Registry: crate::Registry, Views, QueryFilter, Filter, EntryViews, QueryIndices, FilterIndices, EntryViewsIndices> ArchetypeClaims<'a, Registry, Views, QueryFilter, Filter, EntryViews, QueryIndices, FilterIndices, EntryViewsIndices>"
    AC_IT = r"^impl<\s*'a,\s*Registry,\s*Views,\s*QueryFilter,\s*Filter,\s*EntryViews,\s*QueryIndices,\s*FilterIndices,\s*EntryViewsIndices,?\s*>\s*Iterator\s*for ArchetypeClaims<"
    u.impl(ACH, [
        Fn(AC, AC_IT, "next", ret="r", vis="pub", generics="", where="",
           ret_type="Option<(archetype::IdentifierRef<Registry>, VxTaskClaims<Registry>)>",
           rewrites=[(r"<Registry as ContainsFilterSealed<\s*(\w+(?:<[^<>]*>)?),\s*[\w:]+,?\s*>>::filter\(\s*([\w\.\(\)]+?),?\s*\)", r"vx_filter_id::<Registry, \1>(\2)",
                      "R6: the type-level filter `ContainsFilterSealed<F, _>::filter(identifier)` -> assumed-contract call (K-view decides the filter tables per instance)"),
                     (r"<Registry as ContainsViewsSealed<\s*'a,\s*Views,\s*\(\s*Registry::ViewsContainments,\s*Registry::ViewsIndices,\s*Registry::ViewsCanonicalContainments,?\s*\),?\s*>>::claims\(\)\s*\.merge_unchecked\(&<Registry as ContainsViewsSealed<\s*'a,\s*EntryViews,\s*EntryViewsIndices,?\s*>>::claims\(\)\)",
                      "vx_view_claims::<Registry, Views, EntryViews>()",
                      "R6: the claims of the query views joined with those of the entry views (type-level; K-claim) -> assumed-contract call"),
                     (rw_find_map, "R20 `it.find(|x| { COND }).map(|x| EXPR)` -> explicit loop over `it.next()` with `if COND { found; break }`, then the match `Option::map` abbreviates", "see rw_find_map")],
           ensures=[("C08.claims.next", "({ let n = vx_first_match_id::<Registry, Filter>(old(self).archetypes_iter.rest()); "
                     "&&& n == old(self).archetypes_iter.rest().len() ==> r is None && final(self).archetypes_iter.rest().len() == 0 "
                     "&&& n < old(self).archetypes_iter.rest().len() ==> r == Some((old(self).archetypes_iter.rest()[n].key(), vx_claims_of::<Registry, Views, EntryViews>())) && final(self).archetypes_iter.rest() == old(self).archetypes_iter.rest().skip(n + 1) })")],
           loops=[Loop(invariant_except_break=[
                       ("claims.skipped", "self.archetypes_iter.rest().len() <= vx_ts.len() && self.archetypes_iter.rest() == vx_ts.skip(vx_ts.len() - self.archetypes_iter.rest().len()) && forall|j: int| 0 <= j < vx_ts.len() - self.archetypes_iter.rest().len() ==> !vx_matches_id::<Registry, Filter>((#[trigger] vx_ts[j]).key())"),
                       ("claims.not_found_yet", "vx_found is None")],
                       ensures=[("claims.found", "self.archetypes_iter.rest().len() <= vx_ts.len() "
                                 "&& (vx_found is None ==> self.archetypes_iter.rest().len() == 0 && forall|j: int| 0 <= j < vx_ts.len() ==> !vx_matches_id::<Registry, Filter>((#[trigger] vx_ts[j]).key())) "
                                 "&& (vx_found is Some ==> ({ let k = vx_ts.len() - self.archetypes_iter.rest().len() - 1; 0 <= k < vx_ts.len() && *vx_found->0 == vx_ts[k] && vx_matches_id::<Registry, Filter>(vx_ts[k].key()) && self.archetypes_iter.rest() == vx_ts.skip(k + 1) && forall|j: int| 0 <= j < k ==> !vx_matches_id::<Registry, Filter>((#[trigger] vx_ts[j]).key()) }))")],
                       decreases="self.archetypes_iter.rest().len()")],
           hints=[Hint("start", "let ghost vx_ts = self.archetypes_iter.rest();"),
                  Hint("before", "proof { let k = vx_ts.len() - self.archetypes_iter.rest().len(); if k < vx_ts.len() { assert(vx_ts.skip(k)[0] == vx_ts[k]); assert(vx_ts.skip(k).skip(1) =~= vx_ts.skip(k + 1)); } }", anchor=r"match self\.archetypes_iter\.next\(\) \{"),
                  Hint("before", "proof { if vx_found is Some { lemma_first_match_id::<Registry, Filter>(vx_ts, vx_ts.len() - self.archetypes_iter.rest().len() - 1); } else { lemma_first_match_id::<Registry, Filter>(vx_ts, vx_ts.len() as int); } }", anchor=r"match vx_found \{")],
           props=["C08"]),
    ])
    u.label_props.update({"C08": ["C08"], "claims": ["C08"]})
    u.pre_rewrites += [
        (FILTER_RE, "vx_filter::<Registry, Filter, Views>(archetype)", "R6: the type-level filter `ContainsFilterSealed<And<Views, Filter>, ..>::filter` on the table's identifier -> assumed-contract call (K-view decides the filter tables per instance)"),
        (VIEW_RE, "vx_view_rows::<Registry, Views>(archetype)", "R6: `Archetype::view::<Views, ..>().reshape().into_iterator()` -> assumed-contract call: one item per stored row (K-view decides the cells per instance)"),
        (r"&mut fold\b", "&mut fold", "the fold closure"),
    ]
    u.type_rewrites += [
        (r"Views: view::Views<'a>,", "", "the Views trait bound (type-level view list) is dropped: Views is an opaque tag in this unit"),
        (r"Registry: registry::Registry,", "Registry: crate::Registry,", "path of the Registry trait"),
    ]
    u.label_props.update({"C03": ["C03"], "next": ["C03"], "fold": ["C03"]})
    return u
