"""Unit bits: the archetype identifier's bit cursor (src/archetype/identifier/iter.rs: Iter::new,
Iter::next) and IdentifierRef::get_unchecked (src/archetype/identifier/mod.rs), for a registry of
ANY length (K-bits checks the same for registries of 2, 3, 8, 9 and 16 components).

Every column operation and every view selects its column by walking this iterator next to the
type-level registry list, so its contract is the kernel of C03 / C05: item i is bit i of the
identifier bytes, there are exactly R::LEN items, and no read leaves the (R::LEN + 7) / 8 bytes.

Re-encoding R19: the raw byte pointer `*const u8` becomes an external cursor `VxBytePtr` with
ghost state (bytes of the live allocation, offset): `*p` is `p.vx_read()` (obligation: offset in
bounds), `p.add(n)` is `p.vx_add(n)` (obligation: offset + n at most one past the end -- the safety
rule of `pointer::add`).  `R::LEN` (associated const of a type-level list) is `vx_len::<R>()`."""
from ..vxlib import Fn, Hint, Unit

II = "src/archetype/identifier/iter.rs"
IM = "src/archetype/identifier/mod.rs"

PRELUDE = r'''
use std::marker::PhantomData;
pub trait Registry {}
/// R8: `R::LEN`, the number of components of the registry
pub uninterp spec fn vx_len_spec<R: Registry>() -> usize;
#[verifier::external_body]
pub fn vx_len<R: Registry>() -> (n: usize) ensures n == vx_len_spec::<R>() { unimplemented!() }
/// number of identifier bytes of registry R
pub open spec fn vx_nbytes<R: Registry>() -> int { (vx_len_spec::<R>() + 7) / 8 }

// ---- R19: a raw `*const u8` into a live allocation, as (bytes of the allocation, offset)
#[verifier::external_body]
pub struct VxBytePtr { _p: () }
impl Clone for VxBytePtr { #[verifier::external_body] fn clone(&self) -> (r: Self) ensures r == *self { unimplemented!() } }
impl Copy for VxBytePtr {}
impl VxBytePtr {
    pub uninterp spec fn bytes(&self) -> Seq<u8>;
    pub uninterp spec fn pos(&self) -> int;
    /// `*p`: the pointer must point at a byte of the allocation
    #[verifier::external_body]
    pub fn vx_read(&self) -> (b: u8)
        requires 0 <= self.pos() < self.bytes().len(),
        ensures b == self.bytes()[self.pos()] { unimplemented!() }
    /// `p.add(n)`: the result must stay within the allocation or one past its end
    #[verifier::external_body]
    pub fn vx_add(self, n: usize) -> (r: Self)
        requires 0 <= self.pos() + n <= self.bytes().len(),
        ensures r.bytes() == self.bytes(), r.pos() == self.pos() + n { unimplemented!() }
    /// `slice::from_raw_parts(p, n)`: n bytes from the pointer on must lie in the allocation
    #[verifier::external_body]
    pub fn vx_slice(&self, n: usize) -> (r: &[u8])
        requires 0 <= self.pos(), self.pos() + n <= self.bytes().len(),
        ensures r@ == self.bytes().subrange(self.pos(), self.pos() + n) { unimplemented!() }
}
/// C03/C05: bit `i` of an identifier: component number `i` of the registry is present
pub open spec fn vx_bit(bytes: Seq<u8>, i: int) -> bool {
    ((bytes[i / 8] >> ((i % 8) as u8)) & 1u8) != 0u8
}
pub proof fn lemma_shift_step(x: u8, k: u8)
    requires k < 7,
    ensures (x >> k) >> 1u8 == x >> ((k + 1) as u8)
{
    assert((x >> k) >> 1u8 == x >> ((k + 1) as u8)) by (bit_vector) requires k < 7;
}
pub proof fn lemma_shift_zero(x: u8)
    ensures x >> 0u8 == x
{
    assert(x >> 0u8 == x) by (bit_vector);
}
'''

ITER_SPEC = r'''
impl<R: Registry> Iter<R> {
    /// the identifier bytes this iterator walks
    pub open spec fn bits(&self) -> Seq<u8> { self.pointer.bytes() }
    pub open spec fn wf(&self) -> bool {
        &&& self.position <= vx_len_spec::<R>()
        &&& vx_len_spec::<R>() + 7 <= usize::MAX
        &&& self.pointer.bytes().len() == vx_nbytes::<R>()
        &&& self.position < vx_len_spec::<R>() ==> self.pointer.pos() == self.position as int / 8
                && self.current == self.pointer.bytes()[self.position as int / 8] >> ((self.position as int % 8) as u8)
    }
}
'''

NEXT_PROOF = r"""proof {
                let p = vx_p0 as int;
                let b = self.pointer.bytes()[p / 8];
                if !(self.position < vx_len_spec::<R>() && self.position % 8 == 0) && self.position < vx_len_spec::<R>() {
                    assert(p % 8 < 7 && (p + 1) / 8 == p / 8 && (p + 1) % 8 == p % 8 + 1) by (nonlinear_arith) requires (p + 1) % 8 != 0, p >= 0;
                    lemma_shift_step(b, (p % 8) as u8);
                }
                if self.position < vx_len_spec::<R>() && self.position % 8 == 0 {
                    assert((p + 1) / 8 == p / 8 + 1 && (p + 1) / 8 < (vx_len_spec::<R>() + 7) / 8) by (nonlinear_arith) requires (p + 1) % 8 == 0, p >= 0, p + 1 < vx_len_spec::<R>();
                    lemma_shift_zero(self.pointer.bytes()[(p + 1) / 8]);
                }
            }"""


def build():
    u = Unit("bits")
    u.text(PRELUDE)
    u.struct(II, "Iter", field_rewrites=[(r"pointer:\s*\*const u8", "pointer: VxBytePtr", "R19: raw byte pointer -> cursor with ghost (bytes, offset)")])
    u.text(ITER_SPEC)
    IMPL = r"^impl<R> Iter<R>"
    ITI = r"^impl<R> Iterator for Iter<R>"
    u.impl("impl<R> Iter<R> where R: Registry", [
        Fn(II, IMPL, "new", ret="r", vis="pub", params="pointer: VxBytePtr",
           rewrites=[(r"unsafe \{ \*pointer \}", "pointer.vx_read()", "R19: `*pointer` -> cursor read (in-bounds obligation)")],
           requires=[("pre.safety_points_at_identifier", "pointer.pos() == 0 && pointer.bytes().len() == vx_nbytes::<R>() && vx_len_spec::<R>() + 7 <= usize::MAX")],
           ensures=[("C03.bits.new", "r.wf() && r.position == 0 && r.bits() == pointer.bytes()")],
           hints=[Hint("start", "proof { if vx_len_spec::<R>() > 0 { lemma_shift_zero(pointer.bytes()[0]); } }")],
           props=["C03", "C05"]),
        Fn(II, ITI, "next", ret="r", vis="pub", ret_type="Option<bool>",
           rewrites=[(r"unsafe \{ self\.pointer\.add\(1\) \}", "self.pointer.vx_add(1)", "R19: `pointer.add(1)` -> cursor advance (stays-in-allocation obligation)"),
                     (r"unsafe \{ \*self\.pointer \}", "self.pointer.vx_read()", "R19: `*self.pointer` -> cursor read (in-bounds obligation)"),
                     (r"self\.current >>= 1;", "self.current = self.current >> 1;", "compound assignment written out", True)],
           requires=[("pre.iter_wf", "old(self).wf()")],
           ensures=[("C03.bits.next_none", "old(self).position >= vx_len_spec::<R>() ==> r is None && *final(self) == *old(self)"),
                    ("C03.bits.next_bit", "old(self).position < vx_len_spec::<R>() ==> r == Some(vx_bit(old(self).bits(), old(self).position as int))"),
                    ("C03.bits.next_advances", "old(self).position < vx_len_spec::<R>() ==> final(self).position == old(self).position + 1 && final(self).bits() == old(self).bits()"),
                    ("C05.bits.next_wf", "final(self).wf()")],
           hints=[Hint("start", "let ghost vx_p0 = self.position;"),
                  Hint("before", NEXT_PROOF, anchor=r"Some\(result\)")],
           props=["C03", "C05"]),
    ])
    u.text(r'''
// ---- IdentifierRef (a Copy handle on the identifier bytes)
pub struct IdentifierRef<R: Registry> { pub registry: PhantomData<R>, pub pointer: VxBytePtr }
''')
    RI = r"^impl<R> IdentifierRef<R>"
    u.impl("impl<R> IdentifierRef<R> where R: Registry", [
        Fn(IM, RI, "as_slice", ret="r", vis="pub", generics="", ret_type="&[u8]",
           rewrites=[(r"unsafe \{ slice::from_raw_parts\(self\.pointer, \(vx_len::<R>\(\) \+ 7\) / 8\) \}", "self.pointer.vx_slice((vx_len::<R>() + 7) / 8)",
                      "R19: `slice::from_raw_parts(pointer, n)` -> cursor slice (n bytes in the allocation: obligation)")],
           requires=[("pre.safety_identifier_live", "self.pointer.pos() == 0 && self.pointer.bytes().len() == vx_nbytes::<R>() && vx_len_spec::<R>() + 7 <= usize::MAX")],
           ensures=[("C05.bits.as_slice", "r@ == self.pointer.bytes()")],
           props=["C05"]),
        Fn(IM, RI, "get_unchecked", ret="r", vis="pub",
           rewrites=[(r"unsafe \{ self\.as_slice\(\)\.get_unchecked\(index / 8\) \}", "self.as_slice()[index / 8]",
                      "R1: `X.get_unchecked(i)` -> `X[i]` (the bound is a proof obligation; the `&u8` operand of `>>` is read by value)")],
           requires=[("pre.safety_identifier_live", "self.pointer.pos() == 0 && self.pointer.bytes().len() == vx_nbytes::<R>() && vx_len_spec::<R>() + 7 <= usize::MAX"),
                     ("pre.safety_index_in_registry", "index < vx_len_spec::<R>()")],
           ensures=[("C03.bits.get", "r == vx_bit(self.pointer.bytes(), index as int)")],
           hints=[Hint("start", "proof { let i = index as int; assert(i / 8 < (vx_len_spec::<R>() + 7) / 8) by (nonlinear_arith) requires 0 <= i < vx_len_spec::<R>(); }")],
           props=["C03", "C05"]),
    ])
    u.pre_rewrites += [(r"\bR::LEN\b", "vx_len::<R>()", "R8: associated const of the type-level registry -> assumed function")]
    u.label_props.update({"C03": ["C03", "C05"], "C05": ["C05"], "pre.safety": ["C05"]})
    return u
