"""Unit V-arch: row bookkeeping of one archetype table (src/archetype/mod.rs) together with the
allocator (unit V-alloc is included, so callee contracts are the proved ones).

Abstract state of an archetype: key (identifier token), ids() = the first `length` entity
identifiers, components@ = one abstract row (VxRow) per entity.  The type-erased column
functions behind `R::...` are assumed contracts here (R6) and are discharged, bounded, by the
K-col harnesses on the real code.
"""
from ..vxlib import Unit, Fn, Loop, Hint
from . import alloc

AM = "src/archetype/mod.rs"
IMPL = r"^impl<R> Archetype<R>\s*where\s*R: Registry,"

ARCH_PRELUDE = r'''
    // ---- R7: the owning identifier buffer is opaque; `as_ref` yields its token --------------
    #[verifier::external_body]
    #[verifier::accept_recursive_types(R)]
    pub struct Identifier<R: Registry> { p: PhantomData<R> }
    pub mod identifier {
        use super::*;
        #[verifier::external_body]
        #[verifier::accept_recursive_types(R)]
        pub struct Iter<R: Registry> { p: PhantomData<R> }
    }
    impl<R: Registry> Identifier<R> {
        pub uninterp spec fn spec_ref(&self) -> IdentifierRef<R>;
        /// the bytes of the buffer (K-bits: `as_slice`, `iter`)
        pub uninterp spec fn spec_bits(&self) -> Seq<u8>;
        #[verifier::external_body]
        pub unsafe fn new(bytes: Vec<u8>) -> (r: Self) ensures r.spec_bits() == bytes@ { unimplemented!() }
        #[verifier::external_body]
        pub unsafe fn as_ref(&self) -> (r: IdentifierRef<R>) ensures r == self.spec_ref() { unimplemented!() }
        #[verifier::external_body]
        pub unsafe fn iter(&self) -> (r: identifier::Iter<R>) { unimplemented!() }
        #[verifier::external_body]
        pub fn count(&self) -> (r: usize) { unimplemented!() }
        #[verifier::external_body]
        pub fn size_of_components(&self) -> (r: usize) { unimplemented!() }
    }

    // ---- R6: type-erased columns.  One abstract row per entity. ------------------------------
    #[verifier::external_body]
    pub struct VxRow { p: PhantomData<u8> }
    #[verifier::external_body]
    pub struct VxColumns { p: PhantomData<u8> }
    impl VxColumns {
        pub uninterp spec fn view(&self) -> Seq<VxRow>;
        #[verifier::external_body]
        pub fn vx_with_capacity(n: usize) -> (r: VxColumns) ensures r@.len() == 0 { unimplemented!() }
    }
    pub uninterp spec fn vx_entity_row<E>(e: E) -> VxRow;
    pub uninterp spec fn vx_batch_rows<E>(e: E) -> Seq<VxRow>;
    pub uninterp spec fn vx_row_set<C>(row: VxRow, c: C) -> VxRow;
    pub uninterp spec fn vx_row_add<C>(row: VxRow, c: C) -> VxRow;
    pub uninterp spec fn vx_row_remove<C>(row: VxRow, c: PhantomData<C>) -> VxRow;
    pub uninterp spec fn vx_buffer_row(bytes: Seq<u8>) -> VxRow;
    pub uninterp spec fn vx_ptr_row(p: *const u8) -> VxRow;
    /// R6b: the pointer handed to push_from_buffer_* denotes the packed row held by the Vec
    #[verifier::external_body]
    pub fn vx_as_ptr(v: &Vec<u8>) -> (p: *const u8) ensures vx_ptr_row(p) == vx_buffer_row(v@) { unimplemented!() }

    pub open spec fn vx_swap_remove<T>(s: Seq<T>, i: int) -> Seq<T> {
        if i == s.len() - 1 { s.drop_last() } else { s.update(i, s.last()).drop_last() }
    }

    // R4: `Vec::from_raw_parts(ptr, L, cap)` over a buffer holding >= L initialised elements is
    // the vector of the first L of them.
    pub fn vx_raw_vec_len<T>(v: &mut Vec<T>, len: usize)
        requires old(v)@.len() >= len,
        ensures final(v)@ == old(v)@.take(len as int),
    {
        v.truncate(len);
        proof { assert(v@ =~= old(v)@.take(len as int)); }
    }

    #[verifier::external_body]
    pub unsafe fn vx_new_components_with_capacity<R: Registry>(components: &mut VxColumns, capacity: usize, it: identifier::Iter<R>)
        ensures final(components)@.len() == 0 { unimplemented!() }
    #[verifier::external_body]
    pub unsafe fn vx_push_components<E>(entity: E, components: &mut VxColumns, length: usize)
        requires old(components)@.len() == length,
        ensures final(components)@ == old(components)@.push(vx_entity_row(entity)) { unimplemented!() }
    #[verifier::external_body]
    pub fn vx_component_len<E>(entities: &E) -> (n: usize)
        ensures n == vx_batch_rows(*entities).len() { unimplemented!() }
    #[verifier::external_body]
    pub unsafe fn vx_extend_components<E>(entities: E, components: &mut VxColumns, length: usize)
        requires old(components)@.len() == length,
        ensures final(components)@ == old(components)@ + vx_batch_rows(entities) { unimplemented!() }
    #[verifier::external_body]
    pub unsafe fn vx_set_component<R: Registry, C>(index: usize, component: C, components: &mut VxColumns, length: usize, it: identifier::Iter<R>)
        requires old(components)@.len() == length, index < length,
        ensures final(components)@ == old(components)@.update(index as int, vx_row_set(old(components)@[index as int], component)) { unimplemented!() }
    #[verifier::external_body]
    pub unsafe fn vx_remove_component_row<R: Registry>(index: usize, components: &mut VxColumns, length: usize, it: identifier::Iter<R>)
        requires old(components)@.len() == length, index < length,
        ensures final(components)@ == vx_swap_remove(old(components)@, index as int) { unimplemented!() }
    #[verifier::external_body]
    pub unsafe fn vx_pop_component_row<R: Registry>(index: usize, bytes: &mut Vec<u8>, components: &mut VxColumns, length: usize, it: identifier::Iter<R>)
        requires old(components)@.len() == length, index < length,
        ensures final(components)@ == vx_swap_remove(old(components)@, index as int),
                vx_buffer_row(final(bytes)@) == old(components)@[index as int] { unimplemented!() }
    #[verifier::external_body]
    pub unsafe fn vx_push_components_from_buffer_and_component<R: Registry, C>(buffer: *const u8, component: C, components: &mut VxColumns, length: usize, it: identifier::Iter<R>)
        requires old(components)@.len() == length,
        ensures final(components)@ == old(components)@.push(vx_row_add(vx_ptr_row(buffer), component)) { unimplemented!() }
    #[verifier::external_body]
    pub unsafe fn vx_push_components_from_buffer_skipping_component<R: Registry, C>(buffer: *const u8, component: PhantomData<C>, components: &mut VxColumns, length: usize, it: identifier::Iter<R>)
        requires old(components)@.len() == length,
        ensures final(components)@ == old(components)@.push(vx_row_remove(vx_ptr_row(buffer), component)) { unimplemented!() }
    #[verifier::external_body]
    pub unsafe fn vx_clear_components<R: Registry>(components: &mut VxColumns, length: usize, it: identifier::Iter<R>)
        requires old(components)@.len() == length,
        ensures final(components)@.len() == 0 { unimplemented!() }
    #[verifier::external_body]
    pub unsafe fn vx_shrink_components_to_fit<R: Registry>(components: &mut VxColumns, length: usize, it: identifier::Iter<R>)
        requires old(components)@.len() == length,
        ensures final(components)@ == old(components)@ { unimplemented!() }
    #[verifier::external_body]
    pub unsafe fn vx_reserve_components(components: &mut VxColumns, length: usize, additional: usize)
        requires old(components)@.len() == length,
        ensures final(components)@ == old(components)@ { unimplemented!() }
'''

ARCH_SPEC = r'''
    impl<R: Registry> Archetype<R> {
        pub open spec fn key(&self) -> IdentifierRef<R> { self.identifier.spec_ref() }
        /// the entity identifier column: the first `length` elements of the raw buffer
        pub open spec fn ids(&self) -> Seq<entity::Identifier> { self.entity_identifiers@.take(self.length as int) }
        pub open spec fn rows(&self) -> Seq<VxRow> { self.components@ }
        pub open spec fn wf(&self) -> bool {
            self.entity_identifiers@.len() >= self.length && self.components@.len() == self.length
        }
        /// C13 / C02: every stored row is reachable through exactly the identifier attached to
        /// it: that identifier resolves, to (this table, that row)
        pub open spec fn agrees(&self, a: &Allocator<R>) -> bool {
            forall|r: int| 0 <= r < self.length ==> a.resolves(#[trigger] self.ids()[r])
                && a.view()[self.ids()[r]] == (Location { identifier: self.key(), index: r as usize })
        }
        /// the identifier of the last row (the one a swap-remove moves) is live
        pub proof fn lemma_last_resolves(&self, a: &Allocator<R>)
            requires self.agrees(a), self.wf(), self.length > 0,
            ensures a.resolves(self.entity_identifiers@.take(self.length as int).last()),
                    a.resolves(self.entity_identifiers@[self.length - 1]),
        {
            assert(self.ids()[self.length - 1] == self.entity_identifiers@[self.length - 1]);
        }
        pub proof fn lemma_ids_distinct(&self, a: &Allocator<R>)
            requires self.agrees(a), self.wf(),
            ensures forall|r: int, q: int| 0 <= r < q < self.length ==> self.ids()[r] != self.ids()[q],
        {
            assert forall|r: int, q: int| 0 <= r < q < self.length implies self.ids()[r] != self.ids()[q] by {
                assert(a.view()[self.ids()[r]].index == r as usize);
                assert(a.view()[self.ids()[q]].index == q as usize);
            }
        }
    }
'''


def archetype_items(u):
    u.text(ARCH_PRELUDE)
    u.struct(AM, "Archetype", field_rewrites=[
        (r"entity_identifiers:\s*\(\*mut entity::Identifier, usize\)", "entity_identifiers: Vec<entity::Identifier>",
         "R4: raw parts (ptr, capacity) of the identifier column re-typed as the Vec they encode"),
        (r"components:\s*Vec<\(\*mut u8, usize\)>", "components: VxColumns",
         "R6: type-erased component columns re-typed as the abstract column store"),
    ])
    u.text(ARCH_SPEC)

    WF = [("arch.wf", "final(self).wf()"), ("arch.key_kept", "final(self).key() == old(self).key()")]
    PRE = [("pre.arch_wf", "old(self).wf()"), ("pre.alloc_wf", "old(entity_allocator).wf()"),
           ("pre.agrees", "old(self).agrees(old(entity_allocator))")]
    AWF = [("wf.free_in_bounds", "final(entity_allocator).wf_free_in_bounds()"),
           ("wf.free_inactive", "final(entity_allocator).wf_free_inactive()"),
           ("wf.free_distinct", "final(entity_allocator).wf_free_distinct()"),
           ("wf.free_complete", "final(entity_allocator).wf_free_complete()")]

    swap_fixup_hint = r'''proof {
            let len = vx_self0.length as int;
            let idx = index as int;
            vx_self0.lemma_ids_distinct(&vx_alloc0);
            assert(self.ids() =~= vx_swap_remove(vx_self0.ids(), idx));
            assert forall|r: int| 0 <= r < self.length implies entity_allocator.resolves(#[trigger] self.ids()[r])
                && entity_allocator.view()[self.ids()[r]] == (Location { identifier: self.key(), index: r as usize }) by {
                if r == idx {
                    assert(self.ids()[r] == vx_self0.ids()[len - 1]);
                } else {
                    assert(self.ids()[r] == vx_self0.ids()[r]);
                    assert(vx_self0.ids()[r] != vx_self0.ids()[len - 1]);
                    assert(vx_alloc0.view().dom().contains(vx_self0.ids()[r]));
                }
            }
        }'''

    fns = [
        Fn(AM, IMPL, "new", ret="r",
           rewrites=[(r"ManuallyDrop::new\(Vec::new\(\)\)", "Vec::new()", "R4b: ManuallyDrop wrapper of the fresh identifier column dropped"),
                     (r"Vec::with_capacity\(components_len\)", "VxColumns::vx_with_capacity(components_len)", "R6: abstract column store constructor"),
                     (r"\(\s*entity_identifiers\.as_mut_ptr\(\),\s*entity_identifiers\.capacity\(\),\s*\)", "entity_identifiers",
                      "R4b: raw parts of the fresh identifier column passed as the Vec they encode")],
           ensures=[("arch.new.wf", "r.wf()"), ("arch.new.empty", "r.length == 0 && r.ids().len() == 0 && r.rows().len() == 0"),
                    ("arch.new.key", "r.key() == identifier.spec_ref()")],
           props=["C01", "C13"]),
        Fn(AM, IMPL, "from_raw_parts", ret="r",
           params="identifier: Identifier<R>, entity_identifiers: Vec<entity::Identifier>, components: VxColumns, length: usize",
           ensures=[("arch.from_raw_parts", "r.identifier == identifier && r.entity_identifiers == entity_identifiers && r.components == components && r.length == length")],
           props=["C13"]),
        Fn(AM, IMPL, "push", ret="id", generics="<E>", where="",
           requires=PRE + [("pre.A5_len", "old(self).length < usize::MAX")],
           ensures=WF + AWF + [
               ("C13.agrees", "final(self).agrees(final(entity_allocator))"),
               ("C01.push.len", "final(self).length == old(self).length + 1"),
               ("C01.push.ids", "final(self).ids() == old(self).ids().push(id)"),
               ("C01.push.rows", "final(self).rows() == old(self).rows().push(vx_entity_row(entity))"),
               ("C13.count", "final(entity_allocator).active_count() == old(entity_allocator).active_count() + 1"),
               ("C02.push.allocated", "Allocator::allocate_post(old(entity_allocator), final(entity_allocator), Location { identifier: old(self).key(), index: old(self).length }, id)"),
           ],
           hints=[Hint("start", "let ghost vx_self0 = *self; let ghost vx_alloc0 = *entity_allocator;"),
                  Hint("end", r'''proof {
            assert(self.ids() =~= vx_self0.ids().push(entity_identifier));
            assert forall|r: int| 0 <= r < self.length implies entity_allocator.resolves(#[trigger] self.ids()[r])
                && entity_allocator.view()[self.ids()[r]] == (Location { identifier: self.key(), index: r as usize }) by {
                if r < vx_self0.length {
                    assert(self.ids()[r] == vx_self0.ids()[r]);
                    assert(vx_alloc0.resolves(vx_self0.ids()[r]));
                    assert(vx_alloc0.view().dom().contains(vx_self0.ids()[r]));
                }
            }
        }''')],
           props=["C01", "C02", "C13", "C05"]),
        Fn(AM, IMPL, "extend", ret="ids", generics="<E>", where="",
           rewrites=[(r"entities: entities::Batch<E>", "entities: entities_shim::Batch<E>", "path of the Batch wrapper")] if False else [],
           requires=PRE + [("pre.A5_len", "old(self).length + vx_batch_rows(entities.entities).len() <= usize::MAX"),
                           ("pre.A5_slots", "old(entity_allocator).slots@.len() + vx_batch_rows(entities.entities).len() <= usize::MAX")],
           ensures=WF + AWF + [
               ("C13.agrees", "final(self).agrees(final(entity_allocator))"),
               ("C01.extend.len", "final(self).length == old(self).length + vx_batch_rows(entities.entities).len()"),
               ("C01.extend.ids", "final(self).ids() == old(self).ids() + ids@"),
               ("C01.extend.rows", "final(self).rows() == old(self).rows() + vx_batch_rows(entities.entities)"),
               ("C01.extend.one_id_per_row", "ids@.len() == vx_batch_rows(entities.entities).len()"),
               ("C13.count", "final(entity_allocator).active_count() == old(entity_allocator).active_count() + ids@.len()"),
               ("C02.extend.fresh", "forall|k: int| 0 <= k < ids@.len() ==> !old(entity_allocator).resolves(#[trigger] ids@[k])"),
               ("C01.extend.others", "forall|i: entity::Identifier| old(entity_allocator).resolves(i) ==> final(entity_allocator).resolves(i) && final(entity_allocator).view()[i] == old(entity_allocator).view()[i]"),
               ("C01.extend.dom", "forall|i: entity::Identifier| final(entity_allocator).resolves(i) == (old(entity_allocator).resolves(i) || ids@.contains(i))"),
           ],
           loops=[Loop(invariant=[
               ("extend.i", "vx_i <= entity_identifiers@.len()"),
               ("extend.ids", "self.entity_identifiers@ == vx_self0.ids() + entity_identifiers@.take(vx_i as int)"),
               ("extend.frame", "self.length == vx_self0.length && self.components == vx_mid.components && self.identifier == vx_self0.identifier"),
           ], decreases="entity_identifiers@.len() - vx_i")],
           hints=[Hint("start", "let ghost vx_self0 = *self; let ghost vx_alloc0 = *entity_allocator;"),
                  Hint("after", "let ghost vx_mid = *self; proof { assert(self.entity_identifiers@ =~= vx_self0.ids() + entity_identifiers@.take(0)); }",
                       anchor=r"vx_raw_vec_len\(&mut self\.entity_identifiers"),
                  Hint("end", r'''proof {
            assert(entity_identifiers@.take(entity_identifiers@.len() as int) =~= entity_identifiers@);
            assert(self.ids() =~= vx_self0.ids() + entity_identifiers@);
            assert forall|r: int| 0 <= r < self.length implies entity_allocator.resolves(#[trigger] self.ids()[r])
                && entity_allocator.view()[self.ids()[r]] == (Location { identifier: self.key(), index: r as usize }) by {
                if r < vx_self0.length {
                    assert(self.ids()[r] == vx_self0.ids()[r]);
                    assert(vx_alloc0.resolves(vx_self0.ids()[r]));
                } else {
                    let k = r - vx_self0.length;
                    assert(self.ids()[r] == entity_identifiers@[k]);
                }
            }
        }''')],
           props=["C01", "C02", "C13", "C05"]),
        Fn(AM, IMPL, "set_component_unchecked", generics="<C>", where="",
           requires=[("pre.arch_wf", "old(self).wf()"), ("pre.safety_index", "index < old(self).length")],
           ensures=WF + [("C01.set.rows", "final(self).rows() == old(self).rows().update(index as int, vx_row_set(old(self).rows()[index as int], component))"),
                         ("C01.set.frame", "final(self).ids() == old(self).ids() && final(self).length == old(self).length")],
           props=["C01", "C05"]),
        Fn(AM, IMPL, "remove_row_unchecked",
           requires=PRE + [("pre.safety_index", "index < old(self).length")],
           ensures=WF + AWF + [
               ("C01.remove.len", "final(self).length == old(self).length - 1"),
               ("C01.remove.ids", "final(self).ids() == vx_swap_remove(old(self).ids(), index as int)"),
               ("C01.remove.rows", "final(self).rows() == vx_swap_remove(old(self).rows(), index as int)"),
               ("C02.remove.fixup", "final(self).agrees(final(entity_allocator))"),
               ("C02.remove.pointwise", "forall|i: entity::Identifier| #![trigger final(entity_allocator).resolves(i)] #![trigger old(entity_allocator).resolves(i)] (final(entity_allocator).resolves(i) == old(entity_allocator).resolves(i)) && (old(entity_allocator).resolves(i) && !(index < old(self).length - 1 && i == old(self).ids().last()) ==> final(entity_allocator).view()[i] == old(entity_allocator).view()[i])"),
               ("C02.remove.alloc_view", "final(entity_allocator).view() == (if index < old(self).length - 1 { old(entity_allocator).view().insert(old(self).ids().last(), Location { identifier: old(self).key(), index: index }) } else { old(entity_allocator).view() })"),
               ("C13.count", "final(entity_allocator).active_count() == old(entity_allocator).active_count()"),
               ("frame.free", "final(entity_allocator).free@ == old(entity_allocator).free@"),
               ("frame.slots_len", "final(entity_allocator).slots@.len() == old(entity_allocator).slots@.len()"),
               ("frame.generations", "forall|s: int| 0 <= s < old(entity_allocator).slots@.len() ==> (#[trigger] final(entity_allocator).slots@[s]).generation == old(entity_allocator).slots@[s].generation"),
           ],
           hints=[Hint("start", "let ghost vx_self0 = *self; let ghost vx_alloc0 = *entity_allocator; proof { vx_self0.lemma_ids_distinct(&vx_alloc0); vx_self0.lemma_last_resolves(&vx_alloc0); }"),
                  Hint("end", swap_fixup_hint)],
           props=["C01", "C02", "C13", "C05"]),
        Fn(AM, IMPL, "pop_row_unchecked", ret="r",
           rewrites=[(r"bytes\.as_mut_ptr\(\)", "&mut bytes", "R6b: the packed byte buffer is handed to the column function as the Vec it is"),
                     (r"unsafe \{ bytes\.set_len\(size_of_components\) \};", "", "R6b: set_len of the packed buffer (its contents are described by the column contract)"),
                     (r"let mut bytes = Vec::with_capacity", "let mut bytes: Vec<u8> = Vec::with_capacity", "type ascription only")],
           requires=PRE + [("pre.safety_index", "index < old(self).length")],
           ensures=WF + AWF + [
               ("C01.pop.len", "final(self).length == old(self).length - 1"),
               ("C01.pop.ids", "final(self).ids() == vx_swap_remove(old(self).ids(), index as int)"),
               ("C01.pop.rows", "final(self).rows() == vx_swap_remove(old(self).rows(), index as int)"),
               ("C01.pop.returns_row", "r.0 == old(self).ids()[index as int] && vx_buffer_row(r.1@) == old(self).rows()[index as int]"),
               ("C02.pop.fixup", "final(self).agrees(final(entity_allocator))"),
               ("C02.pop.pointwise", "forall|i: entity::Identifier| #![trigger final(entity_allocator).resolves(i)] #![trigger old(entity_allocator).resolves(i)] (final(entity_allocator).resolves(i) == old(entity_allocator).resolves(i)) && (old(entity_allocator).resolves(i) && !(index < old(self).length - 1 && i == old(self).ids().last()) ==> final(entity_allocator).view()[i] == old(entity_allocator).view()[i])"),
               ("C02.pop.alloc_view", "final(entity_allocator).view() == (if index < old(self).length - 1 { old(entity_allocator).view().insert(old(self).ids().last(), Location { identifier: old(self).key(), index: index }) } else { old(entity_allocator).view() })"),
               ("C13.count", "final(entity_allocator).active_count() == old(entity_allocator).active_count()"),
               ("frame.free", "final(entity_allocator).free@ == old(entity_allocator).free@"),
               ("frame.slots_len", "final(entity_allocator).slots@.len() == old(entity_allocator).slots@.len()"),
               ("frame.generations", "forall|s: int| 0 <= s < old(entity_allocator).slots@.len() ==> (#[trigger] final(entity_allocator).slots@[s]).generation == old(entity_allocator).slots@[s].generation"),
           ],
           hints=[Hint("start", "let ghost vx_self0 = *self; let ghost vx_alloc0 = *entity_allocator; proof { vx_self0.lemma_ids_distinct(&vx_alloc0); vx_self0.lemma_last_resolves(&vx_alloc0); }"),
                  Hint("end", swap_fixup_hint)],
           props=["C01", "C02", "C13", "C05"]),
        Fn(AM, IMPL, "push_from_buffer_and_component", ret="r", generics="<C>", where="",
           rewrites=[(r"MaybeUninit::new\(component\)", "component", "R6b: MaybeUninit wrapper of the added component dropped")],
           requires=[("pre.arch_wf", "old(self).wf()"), ("pre.A5_len", "old(self).length < usize::MAX")],
           ensures=WF + [("C01.push_buffer.index", "r == old(self).length"),
                         ("C01.push_buffer.len", "final(self).length == old(self).length + 1"),
                         ("C01.push_buffer.ids", "final(self).ids() == old(self).ids().push(entity_identifier)"),
                         ("C01.push_buffer.rows", "final(self).rows() == old(self).rows().push(vx_row_add(vx_ptr_row(buffer), component))")],
           hints=[Hint("start", "let ghost vx_self0 = *self;"),
                  Hint("end", "proof { assert(self.ids() =~= vx_self0.ids().push(entity_identifier)); }")],
           props=["C01", "C13", "C05"]),
        Fn(AM, IMPL, "push_from_buffer_skipping_component", ret="r", generics="<C>", where="",
           requires=[("pre.arch_wf", "old(self).wf()"), ("pre.A5_len", "old(self).length < usize::MAX")],
           ensures=WF + [("C01.push_buffer.index", "r == old(self).length"),
                         ("C01.push_buffer.len", "final(self).length == old(self).length + 1"),
                         ("C01.push_buffer.ids", "final(self).ids() == old(self).ids().push(entity_identifier)"),
                         ("C01.push_buffer.rows", "final(self).rows() == old(self).rows().push(vx_row_remove(vx_ptr_row(buffer), PhantomData::<C>))")],
           hints=[Hint("start", "let ghost vx_self0 = *self;"),
                  Hint("end", "proof { assert(self.ids() =~= vx_self0.ids().push(entity_identifier)); }")],
           props=["C01", "C13", "C05"]),
        Fn(AM, IMPL, "clear",
           rewrites=[(r"for entity_identifier in self\.entity_identifiers\.iter\(\)", "for entity_identifier in vx_it: self.entity_identifiers.iter()",
                      "loop annotation only: names Verus' ghost iterator state")],
           requires=PRE,
           ensures=WF + AWF + [
               ("C01.clear.empty", "final(self).length == 0 && final(self).rows().len() == 0 && final(self).ids().len() == 0"),
               ("C02.clear.dead", "forall|k: int| 0 <= k < old(self).length ==> !final(entity_allocator).resolves(#[trigger] old(self).ids()[k])"),
               ("C01.clear.others", "forall|i: entity::Identifier| final(entity_allocator).resolves(i) == (old(entity_allocator).resolves(i) && !old(self).ids().contains(i))"),
               ("C01.clear.values", "forall|i: entity::Identifier| final(entity_allocator).resolves(i) ==> final(entity_allocator).view()[i] == old(entity_allocator).view()[i]"),
               ("C13.count", "final(entity_allocator).active_count() + old(self).length == old(entity_allocator).active_count()"),
               ("frame.slots_len", "final(entity_allocator).slots@.len() == old(entity_allocator).slots@.len()"),
               ("frame.generations", "forall|s: int| 0 <= s < old(entity_allocator).slots@.len() ==> (#[trigger] final(entity_allocator).slots@[s]).generation == old(entity_allocator).slots@[s].generation"),
           ],
           loops=[Loop(invariant=[
               ("clear.alloc_wf", "entity_allocator.wf()"),
               ("clear.ids", "self.entity_identifiers@ == vx_self0.ids()"),
               ("clear.index", "vx_it.index@ <= vx_self0.length"),
               ("clear.ids_len", "vx_self0.ids().len() == vx_self0.length"),
               ("clear.remaining_live", "forall|r: int| vx_it.index@ <= r < vx_self0.length ==> entity_allocator.resolves(#[trigger] vx_self0.ids()[r])"),
               ("clear.dom", "forall|i: entity::Identifier| entity_allocator.resolves(i) == (vx_alloc0.resolves(i) && !vx_self0.ids().take(vx_it.index@).contains(i))"),
               ("clear.values", "forall|i: entity::Identifier| entity_allocator.resolves(i) ==> entity_allocator.view()[i] == vx_alloc0.view()[i]"),
               ("clear.slots_len", "entity_allocator.slots@.len() == vx_alloc0.slots@.len()"),
               ("clear.count", "entity_allocator.active_count() + vx_it.index@ == vx_alloc0.active_count()"),
               ("clear.generations", "forall|s: int| 0 <= s < vx_alloc0.slots@.len() ==> (#[trigger] entity_allocator.slots@[s]).generation == vx_alloc0.slots@[s].generation"),
               ("clear.distinct", "forall|r: int, q: int| 0 <= r < q < vx_self0.length ==> vx_self0.ids()[r] != vx_self0.ids()[q]"),
           ])],
           hints=[Hint("start", "let ghost vx_self0 = *self; let ghost vx_alloc0 = *entity_allocator; proof { vx_self0.lemma_ids_distinct(&vx_alloc0); }"),
                  Hint("before", "let ghost vx_pre = *entity_allocator; let ghost vx_k = vx_it.index@; proof { assert(vx_k < vx_self0.length); assert(*entity_identifier == vx_self0.ids()[vx_k]); }", anchor=r"entity_allocator\.free_unchecked\("),
                  Hint("after", r'''proof {
                let k = vx_k;
                let idk = vx_self0.ids()[k];
                assert(*entity_identifier == idk);
                let t0 = vx_self0.ids().take(k);
                let t1 = vx_self0.ids().take(k + 1);
                assert(t1 =~= t0.push(idk));
                assert forall|i: entity::Identifier| entity_allocator.resolves(i) == (vx_alloc0.resolves(i) && !t1.contains(i)) by {
                    assert(entity_allocator.resolves(i) == (vx_pre.resolves(i) && i != idk));
                    assert(vx_pre.resolves(i) == (vx_alloc0.resolves(i) && !t0.contains(i)));
                    assert(t1.contains(i) == (t0.contains(i) || i == idk)) by {
                        if t1.contains(i) {
                            let j = choose|j: int| 0 <= j < t1.len() && t1[j] == i;
                            if j < k { assert(t0[j] == i); }
                        }
                        if t0.contains(i) {
                            let j = choose|j: int| 0 <= j < t0.len() && t0[j] == i;
                            assert(t1[j] == i);
                        }
                        if i == idk { assert(t1[k] == idk); }
                    }
                }
                assert forall|r: int| k + 1 <= r < vx_self0.length implies entity_allocator.resolves(#[trigger] vx_self0.ids()[r]) by {
                    assert(vx_self0.ids()[r] != idk);
                    assert(vx_pre.resolves(vx_self0.ids()[r]));
                }
                assert forall|i: entity::Identifier| entity_allocator.resolves(i) implies entity_allocator.view()[i] == vx_alloc0.view()[i] by {
                    assert(vx_pre.resolves(i));
                }
            }''', anchor=r"entity_allocator\.free_unchecked\("),
                  Hint("end", r'''proof {
            assert(vx_self0.ids().take(vx_self0.length as int) =~= vx_self0.ids());
            assert(self.ids() =~= Seq::<entity::Identifier>::empty());
        }''')],
           props=["C01", "C02", "C13", "C05"]),
        Fn(AM, IMPL, "reserve", generics="<E>", where="",
           requires=[("pre.arch_wf", "old(self).wf()")],
           ensures=WF + [("C01.reserve.frame", "final(self).length == old(self).length && final(self).rows() == old(self).rows() && final(self).ids() == old(self).ids()")],
           props=["C01", "C13"]),
        Fn(AM, IMPL, "clear_detached",
           requires=[("pre.arch_wf", "old(self).wf()")],
           ensures=WF + [("C01.clear_detached", "final(self).length == 0 && final(self).rows().len() == 0 && final(self).ids().len() == 0")],
           props=["C01", "C10", "C13"]),
        Fn(AM, IMPL, "shrink_to_fit",
           requires=[("pre.arch_wf", "old(self).wf()")],
           ensures=WF + [("C01.shrink.frame", "final(self).length == old(self).length && final(self).rows() == old(self).rows() && final(self).ids() == old(self).ids()")],
           props=["C01", "C13"]),
        Fn(AM, IMPL, "identifier", ret="r",
           ensures=[("arch.identifier", "r == self.key()")], props=["C13"]),
        Fn(AM, IMPL, "len", ret="r", ensures=[("arch.len", "r == self.length")], props=["C01"]),
        Fn(AM, IMPL, "is_empty", ret="r", ensures=[("arch.is_empty", "r == (self.length == 0)")], props=["C01"]),
    ]
    u.impl("impl<R> Archetype<R> where R: Registry", fns)


EN = "src/entities/mod.rs"

BATCH_HELPERS = r'''
/// R10b: `assert!(c)` returns only if `c` holds (it panics, i.e. does not return, otherwise)
#[verifier::external_body]
pub fn vx_assert(c: bool)
    ensures c { unimplemented!() }
#[verifier::external_body]
pub fn vx_check_len<E>(e: &E) -> (b: bool) { unimplemented!() }
'''


TABLES_SPEC = r'''
/// identifier `i` is attached to some stored row
pub open spec fn vx_stored<R: Registry>(m: IMap<archetype::IdentifierRef<R>, archetype::Archetype<R>>, i: entity::Identifier) -> bool {
    exists|k: archetype::IdentifierRef<R>, r: int| m.dom().contains(k) && 0 <= r < m[k].length && #[trigger] m[k].ids()[r] == i
}

/// W1: every table is well formed, keyed by its own key, and every stored row is reachable
/// through the identifier attached to it
pub open spec fn vx_tables_ok<R: Registry>(m: IMap<archetype::IdentifierRef<R>, archetype::Archetype<R>>, a: &Allocator<R>) -> bool {
    forall|k: archetype::IdentifierRef<R>| m.dom().contains(k) ==>
        (#[trigger] m[k]).wf() && m[k].key() == k && m[k].agrees(a)
}

/// `ks` lists every stored table key exactly once
pub open spec fn vx_enum<R: Registry>(m: IMap<archetype::IdentifierRef<R>, archetype::Archetype<R>>, ks: Seq<archetype::IdentifierRef<R>>) -> bool {
    &&& forall|i: int, j: int| 0 <= i < j < ks.len() ==> ks[i] != ks[j]
    &&& forall|k: archetype::IdentifierRef<R>| m.dom().contains(k) == ks.contains(k)
}
/// sum of the lengths of the tables under `ks`
pub open spec fn vx_sum_keys<R: Registry>(m: IMap<archetype::IdentifierRef<R>, archetype::Archetype<R>>, ks: Seq<archetype::IdentifierRef<R>>) -> nat
    decreases ks.len()
{
    if ks.len() == 0 { 0 } else { vx_sum_keys(m, ks.drop_last()) + m[ks.last()].length as nat }
}
/// C13: the number of stored entities (rows of all tables; independent of the enumeration, see
/// lemma_total_rows)
pub open spec fn vx_total_rows<R: Registry>(m: IMap<archetype::IdentifierRef<R>, archetype::Archetype<R>>) -> nat {
    vx_sum_keys(m, choose|ks: Seq<archetype::IdentifierRef<R>>| vx_enum(m, ks))
}
pub proof fn lemma_sum_remove<R: Registry>(m: IMap<archetype::IdentifierRef<R>, archetype::Archetype<R>>, b: Seq<archetype::IdentifierRef<R>>, j: int)
    requires 0 <= j < b.len(),
    ensures vx_sum_keys(m, b) == vx_sum_keys(m, b.remove(j)) + m[b[j]].length as nat
    decreases b.len()
{
    if j == b.len() - 1 {
        assert(b.remove(j) =~= b.drop_last());
    } else {
        assert(b.remove(j).drop_last() =~= b.drop_last().remove(j));
        assert(b.remove(j).last() == b.last());
        lemma_sum_remove(m, b.drop_last(), j);
    }
}
pub open spec fn vx_nodup<K>(a: Seq<K>) -> bool { forall|i: int, j: int| 0 <= i < j < a.len() ==> a[i] != a[j] }
/// two duplicate-free listings of the same key set have the same sum
pub proof fn lemma_sum_perm<R: Registry>(m: IMap<archetype::IdentifierRef<R>, archetype::Archetype<R>>, a: Seq<archetype::IdentifierRef<R>>, b: Seq<archetype::IdentifierRef<R>>)
    requires vx_nodup(a), vx_nodup(b), forall|k: archetype::IdentifierRef<R>| a.contains(k) == b.contains(k),
    ensures vx_sum_keys(m, a) == vx_sum_keys(m, b)
    decreases a.len()
{
    if a.len() == 0 {
        if b.len() > 0 { assert(b.contains(b[0])); assert(a.contains(b[0])); }
    } else {
        let x = a.last();
        assert(a.contains(x));
        assert(b.contains(x));
        let j = choose|j: int| 0 <= j < b.len() && b[j] == x;
        let a1 = a.drop_last();
        let b1 = b.remove(j);
        assert(vx_nodup(a1));
        assert(vx_nodup(b1)) by {
            assert forall|p: int, q: int| 0 <= p < q < b1.len() implies b1[p] != b1[q] by {
                let pp = if p < j { p } else { p + 1 };
                let qq = if q < j { q } else { q + 1 };
                assert(b1[p] == b[pp] && b1[q] == b[qq]);
            }
        }
        assert forall|k: archetype::IdentifierRef<R>| a1.contains(k) == b1.contains(k) by {
            if a1.contains(k) {
                let p = choose|p: int| 0 <= p < a1.len() && a1[p] == k;
                assert(a[p] == k); assert(k != x);
                assert(a.contains(k)); assert(b.contains(k));
                let q = choose|q: int| 0 <= q < b.len() && b[q] == k;
                assert(q != j);
                let qq = if q < j { q } else { q - 1 };
                assert(b1[qq] == k);
            }
            if b1.contains(k) {
                let q = choose|q: int| 0 <= q < b1.len() && b1[q] == k;
                let qq = if q < j { q } else { q + 1 };
                assert(b[qq] == k); assert(qq != j); assert(k != x);
                assert(b.contains(k)); assert(a.contains(k));
                let p = choose|p: int| 0 <= p < a.len() && a[p] == k;
                assert(p != a.len() - 1);
                assert(a1[p] == k);
            }
        }
        lemma_sum_perm(m, a1, b1);
        lemma_sum_remove(m, b, j);
    }
}
pub proof fn lemma_total_rows<R: Registry>(m: IMap<archetype::IdentifierRef<R>, archetype::Archetype<R>>, ks: Seq<archetype::IdentifierRef<R>>)
    requires vx_enum(m, ks),
    ensures vx_total_rows(m) == vx_sum_keys(m, ks)
{
    let c = choose|c: Seq<archetype::IdentifierRef<R>>| vx_enum(m, c);
    assert(vx_enum(m, c));
    assert forall|k: archetype::IdentifierRef<R>| c.contains(k) == ks.contains(k) by { assert(m.dom().contains(k) == c.contains(k)); }
    lemma_sum_perm(m, c, ks);
}
pub proof fn lemma_sum_take_step<R: Registry>(m: IMap<archetype::IdentifierRef<R>, archetype::Archetype<R>>, ks: Seq<archetype::IdentifierRef<R>>, n: int)
    requires 0 <= n < ks.len(),
    ensures vx_sum_keys(m, ks.take(n + 1)) == vx_sum_keys(m, ks.take(n)) + m[ks[n]].length as nat
{
    assert(ks.take(n + 1).drop_last() =~= ks.take(n));
    assert(ks.take(n + 1).last() == ks[n]);
}
'''


def build():
    u = alloc.build(name="arch", archetype_items=archetype_items)
    u.text(BATCH_HELPERS)
    u.text(TABLES_SPEC)
    # ---- entities::Batch (real struct and constructors)
    u.text("pub mod entities {\n    use super::*;")
    u.struct(EN, "Batch")
    u.text(r'''
    impl<Entities> Batch<Entities> {
        /// type invariant established by both constructors
        pub open spec fn wf(&self) -> bool { self.len == archetype::vx_batch_rows(self.entities).len() }
    }
''')
    u.impl("impl<Entities> Batch<Entities>", [
        Fn(EN, r"^impl<Entities> Batch<Entities>\s*where", "new", ret="r", where="",
           ensures=[("C18.batch_new_checked", "r.wf() && r.entities == entities")],
           props=["C18"]),
        Fn(EN, r"^impl<Entities> Batch<Entities>\s*where", "new_unchecked", ret="r", where="",
           ensures=[("C18.batch_len", "r.wf() && r.entities == entities")],
           props=["C18", "C01"]),
        Fn(EN, r"^impl<Entities> Batch<Entities> \{", "len", ret="n",
           ensures=[("batch.len", "n == self.len")], props=["C01"]),
    ])
    u.text("}")
    u.type_rewrites += [
        (r"\bentity::Allocator\b", "Allocator", "path: entity::Allocator is the allocator type at the root of the emitted file"),
        (r"&self\.components\b", "&mut self.components", "R6: columns are mutated through a shared reference to their raw parts; the abstract store is passed mutably"),
        (r"\bR::new_components_with_capacity\(", "vx_new_components_with_capacity(", "R6"),
        (r"\b(\w+)\.push_components\(", r"vx_push_components(\1, ", "R6"),
        (r"entities\s*\.entities\s*\.component_len\(\)", "vx_component_len(&entities.entities)", "R6"),
        (r"entities\s*\.entities\s*\.extend_components\(", "vx_extend_components(entities.entities, ", "R6"),
        (r"\bR::set_component\(", "vx_set_component(", "R6"),
        (r"\bR::remove_component_row\(", "vx_remove_component_row(", "R6"),
        (r"\bR::pop_component_row\(", "vx_pop_component_row(", "R6"),
        (r"\bR::push_components_from_buffer_and_component\(", "vx_push_components_from_buffer_and_component(", "R6"),
        (r"\bR::push_components_from_buffer_skipping_component\(", "vx_push_components_from_buffer_skipping_component(", "R6"),
        (r"\bR::clear_components\(", "vx_clear_components(", "R6"),
        (r"\bR::shrink_components_to_fit\(", "vx_shrink_components_to_fit(", "R6"),
        (r"\bE::reserve_components\(", "vx_reserve_components(", "R6"),
    ]
    u.type_rewrites += [
        (r"entities\.component_len\(\)", "archetype::vx_component_len(&entities)", "R6"),
        (r"entities\.check_len\(\)", "vx_check_len(&entities)", "R6 (K-batch decides check_len)"),
        (r"\bassert!\(", "vx_assert(", "R10b: assert!(c) -> call that returns only if c"),
    ]
    u.label_props.update({
        "C18": ["C18"],
        "batch": ["C01"],
        "arch": ["C13", "C01"],
        "C13.agrees": ["C13", "C02", "C01"],
        "C02.remove.fixup": ["C02", "C13", "C01"],
        "C02.pop.fixup": ["C02", "C13", "C01"],
        "C01": ["C01"],
        "extend": ["C01", "C13"],
    })
    return u
