"""Unit archs_shrink: the real Archetypes::shrink_to_fit against the contracts of unit archs.

Same extraction, same prelude and contracts as unit archs; only shrink_to_fit's body is verified
here (every other function appears with its contract and `external_body`; their bodies are
verified in units alloc / arch / archs)."""
from . import archs


def build():
    return archs.build(only={"shrink_to_fit"}, name="archs_shrink")
