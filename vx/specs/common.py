"""Text shared by V units: the external (assumed) types and std specs."""

PRELUDE_STD = r'''
use std::collections::VecDeque;
use core::ops::Range;
use std::marker::PhantomData;

// ---- assumed std specs (assumption A1) -------------------------------------------------
pub uninterp spec fn vx_range_is_empty<Idx>(r: Range<Idx>) -> bool;
pub assume_specification<Idx> [Range::<Idx>::is_empty] (r: &Range<Idx>) -> (b: bool)
    where Idx: std::cmp::PartialOrd + std::cmp::PartialOrd,
    ensures b == vx_range_is_empty(*r);
#[verifier::external_body]
pub proof fn vx_axiom_range_is_empty_usize(r: Range<usize>)
    ensures vx_range_is_empty(r) == !(r.start < r.end) {}

pub assume_specification<T, A> [VecDeque::<T, A>::shrink_to_fit] (v: &mut VecDeque<T, A>)
    where A: std::alloc::Allocator,
    ensures final(v)@ == old(v)@;

pub assume_specification<T, A> [Vec::<T, A>::shrink_to_fit] (v: &mut Vec<T, A>)
    where A: std::alloc::Allocator,
    ensures final(v)@ == old(v)@;

// R2b: unreachable_unchecked() becomes a call that must be proved unreachable.
#[verifier::external_body]
pub fn vx_unreachable() -> !
    requires false
{
    unreachable!()
}
'''

REGISTRY_TRAIT = r'''
pub trait Registry {}
'''

# opens `pub mod archetype`; the unit closes it with "}" after adding its own items
ARCHETYPE_MOD_OPEN = r'''
pub mod archetype {
    use super::*;
    // R7: archetype::IdentifierRef<R> is an opaque, copyable token (a pointer into the buffer
    // owned by the archetype); equality of tokens is equality of the abstract archetype key.
    #[verifier::external_body]
    #[verifier::accept_recursive_types(R)]
    pub struct IdentifierRef<R: Registry> { p: PhantomData<R> }
    impl<R: Registry> Clone for IdentifierRef<R> {
        #[verifier::external_body]
        fn clone(&self) -> (r: Self) ensures r == *self { unimplemented!() }
    }
    impl<R: Registry> Copy for IdentifierRef<R> {}
'''

PRELUDE_REGISTRY = REGISTRY_TRAIT + ARCHETYPE_MOD_OPEN + "}\n"

PRELUDE_HASHMAP = r'''
// R7: hashbrown::HashMap is an opaque type whose abstract value is a (possibly infinite-domain)
// map; `get` is assumed to be lookup in that map (assumption A3).
pub struct FnvBuildHasher;
#[verifier::external_body]
#[verifier::accept_recursive_types(K)]
#[verifier::accept_recursive_types(V)]
#[verifier::accept_recursive_types(S)]
pub struct HashMap<K, V, S> { p: PhantomData<(K, V, S)> }
impl<K, V, S> HashMap<K, V, S> {
    pub uninterp spec fn view(&self) -> IMap<K, V>;
    #[verifier::external_body]
    pub fn get(&self, k: &K) -> (r: Option<&V>)
        ensures r == (if self@.dom().contains(*k) { Some(&self@[*k]) } else { None::<&V> })
    { unimplemented!() }
}
'''
