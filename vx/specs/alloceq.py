"""Unit alloceq: the real `PartialEq` of the entity allocator (src/entity/allocator/{mod,slot,location}.rs:
Allocator::eq, Slot::eq, Location::eq) against "equal slot tables (generation; location = component
bytes of the table and row) and equal free lists" -- for allocators of any size (K-eq checks the
same on <= 3 slots).

Same extraction and prelude as unit alloc; only the three `eq` bodies (and the std-slice equality
helper they go through) are verified here; every other function appears with its contract and
`external_body` (bodies verified in unit alloc).  A file of its own for the reason unit archs_shrink
has one: added text perturbs the solver budget of `allocate_batch`."""
from ..vxlib import Fn
from . import alloc

A = "src/entity/allocator/mod.rs"
S = "src/entity/allocator/slot.rs"
L = "src/entity/allocator/location.rs"

SPEC = r'''
// ---- unit alloceq
/// the component bytes of the table a location names (`IdentifierRef::as_slice`, K-bits)
pub uninterp spec fn vx_ref_bits<R: Registry>(k: archetype::IdentifierRef<R>) -> Seq<u8>;
/// R15/A1: `a.as_slice() == b.as_slice()` on the identifier bytes (slice equality of u8)
#[verifier::external_body]
pub fn vx_ref_bytes_eq<R: Registry>(a: archetype::IdentifierRef<R>, b: archetype::IdentifierRef<R>) -> (r: bool)
    ensures r == (vx_ref_bits(a) == vx_ref_bits(b)) { unimplemented!() }
/// R15/A1: `==` on VecDeque<usize> is equality of the element sequences
#[verifier::external_body]
pub fn vx_deque_eq(a: &VecDeque<usize>, b: &VecDeque<usize>) -> (r: bool)
    ensures r == (a@ == b@) { unimplemented!() }

pub open spec fn vx_loc_eq_spec<R: Registry>(a: Location<R>, b: Location<R>) -> bool {
    vx_ref_bits(a.identifier) == vx_ref_bits(b.identifier) && a.index == b.index
}
pub open spec fn vx_slot_eq_spec<R: Registry>(a: Slot<R>, b: Slot<R>) -> bool {
    a.generation == b.generation && (match (a.location, b.location) {
        (Some(x), Some(y)) => vx_loc_eq_spec(x, y),
        (None, None) => true,
        _ => false,
    })
}
/// C16: what `Allocator ==` decides
pub open spec fn vx_alloc_eq_spec<R: Registry>(a: Allocator<R>, b: Allocator<R>) -> bool {
    a.slots@.len() == b.slots@.len() && (forall|i: int| 0 <= i < a.slots@.len() ==> vx_slot_eq_spec(#[trigger] a.slots@[i], b.slots@[i])) && a.free@ == b.free@
}
/// R15/A1: `==` on Vec<Slot<R>> is std's slice equality: same length and pairwise `Slot::eq`
pub fn vx_slots_eq<R: Registry>(a: &Vec<Slot<R>>, b: &Vec<Slot<R>>) -> (r: bool)
    ensures r == (a@.len() == b@.len() && forall|i: int| 0 <= i < a@.len() ==> vx_slot_eq_spec(#[trigger] a@[i], b@[i]))
{
    if a.len() != b.len() { return false; }
    let mut i: usize = 0;
    while i < a.len()
        invariant i <= a@.len(), a@.len() == b@.len(), forall|j: int| 0 <= j < i ==> vx_slot_eq_spec(#[trigger] a@[j], b@[j]),
        decreases a@.len() - i
    {
        if !a[i].eq(&b[i]) { return false; }
        i += 1;
    }
    true
}
/// C16: allocators that compare equal accept exactly the same identifiers, each at the same row of
/// a table with the same component set; the same slots are free, in the same order
pub proof fn lemma_alloc_eq_same_live<R: Registry>(a: Allocator<R>, b: Allocator<R>)
    requires vx_alloc_eq_spec(a, b),
    ensures forall|id: entity::Identifier| a.resolves(id) == b.resolves(id),
            forall|id: entity::Identifier| a.resolves(id) ==> vx_loc_eq_spec(#[trigger] a.view()[id], b.view()[id]),
            a.active_count() == b.active_count(),
{
    assert forall|id: entity::Identifier| a.resolves(id) == b.resolves(id) by {
        if id.index < a.slots@.len() { assert(vx_slot_eq_spec(a.slots@[id.index as int], b.slots@[id.index as int])); }
    }
    assert forall|id: entity::Identifier| a.resolves(id) implies vx_loc_eq_spec(#[trigger] a.view()[id], b.view()[id]) by {
        assert(vx_slot_eq_spec(a.slots@[id.index as int], b.slots@[id.index as int]));
    }
    assert forall|i: int| 0 <= i < a.slots@.len() implies ((#[trigger] a.slots@[i]).location is Some) == (b.slots@[i].location is Some) by {
        assert(vx_slot_eq_spec(a.slots@[i], b.slots@[i]));
    }
    lemma_count_same_activity(a.slots@, b.slots@);
}
pub proof fn lemma_alloc_eq_reflexive<R: Registry>(a: Allocator<R>)
    ensures vx_alloc_eq_spec(a, a)
{
    assert forall|i: int| 0 <= i < a.slots@.len() implies vx_slot_eq_spec(#[trigger] a.slots@[i], a.slots@[i]) by { }
}
pub proof fn lemma_alloc_eq_symmetric<R: Registry>(a: Allocator<R>, b: Allocator<R>)
    requires vx_alloc_eq_spec(a, b),
    ensures vx_alloc_eq_spec(b, a)
{
    assert forall|i: int| 0 <= i < b.slots@.len() implies vx_slot_eq_spec(#[trigger] b.slots@[i], a.slots@[i]) by {
        assert(vx_slot_eq_spec(a.slots@[i], b.slots@[i]));
    }
}
'''


def build():
    u = alloc.build(name="alloceq")
    for part in u.parts:
        if part[0] == "impl":
            for f in part[2]:
                if not isinstance(f, str):
                    f.external_body = True
        elif part[0] == "fn":
            part[1].external_body = True
    u.contracts_from = "alloc"
    u.text("// ---- declarations of the three eq functions precede the helper that calls Slot::eq")
    u.impl("impl<R> Location<R> where R: Registry", [
        Fn(L, r"^impl<R> PartialEq for Location<R>", "eq", ret="b", vis="pub",
           rewrites=[(r"self\.identifier\.as_slice\(\) == other\.identifier\.as_slice\(\)", "vx_ref_bytes_eq(self.identifier, other.identifier)",
                      "R15: `==` on the identifier byte slices -> assumed-contract call (u8 slice equality, A1)")],
           ensures=[("C16.location_eq", "b == vx_loc_eq_spec(*self, *other)")],
           props=["C16"]),
    ])
    u.impl("impl<R> Slot<R> where R: Registry", [
        Fn(S, r"^impl<R> PartialEq for Slot<R>", "eq", ret="b", vis="pub",
           rewrites=[(r"self\.location == other\.location",
                      "(match (&self.location, &other.location) { (Some(vx_a), Some(vx_b)) => vx_a.eq(vx_b), (None, None) => true, _ => false })",
                      "R15: `==` on Option<Location<R>> is the derived Option equality: both None, or both Some with Location::eq")],
           ensures=[("C16.slot_eq", "b == vx_slot_eq_spec(*self, *other)")],
           props=["C16"]),
    ])
    u.text(SPEC)
    u.impl("impl<R> Allocator<R> where R: Registry", [
        Fn(A, r"^impl<R> PartialEq for Allocator<R>", "eq", ret="b", vis="pub",
           rewrites=[(r"self\.slots == other\.slots", "vx_slots_eq(&self.slots, &other.slots)", "R15/A1: `==` on Vec<Slot<R>> is std's slice equality (same length, pairwise Slot::eq) -- the verified helper vx_slots_eq"),
                     (r"self\.free == other\.free", "vx_deque_eq(&self.free, &other.free)", "R15/A1: `==` on VecDeque<usize> is equality of the element sequences (assumed-contract call)")],
           ensures=[("C16.allocator_eq", "b == vx_alloc_eq_spec(*self, *other)")],
           props=["C16"]),
    ])
    u.label_props.update({"C16": ["C16"]})
    return u
