"""Unit V-archs: the archetype tables `Archetypes<R>` (src/archetypes/mod.rs) over hashbrown.

hashbrown's `RawTable` / `HashMap` are external types with map semantics (assumption A3, now
*only* about hashbrown itself); the bodies of the brood functions that use them are extracted
and verified against the contracts that unit V-world assumes for them (`ARCHS_CONTRACTS`, the
same clause text is used on both sides).

`IdentifierRef` hashes and compares by *pointer*, so the raw table is keyed by the token of each
table's own identifier buffer; `foreign_identifier_lookup` maps identifier *bytes* to that token
and is what keeps "one table per component set"; `type_id_lookup` is a cache from canonical
entity types to tokens.
"""
from ..vxlib import Unit, Fn, Loop, Hint
from . import arch

AS = "src/archetypes/mod.rs"
IMPL = r"^impl<R> Archetypes<R>\s*where\s*R: Registry,\s*\{"

PRELUDE = r'''
use core::any::TypeId;
#[verifier::external_type_specification]
#[verifier::external_body]
pub struct ExTypeId(TypeId);

pub type VxBits = Seq<u8>;
pub uninterp spec fn vx_bits_of<E>() -> VxBits;
pub uninterp spec fn vx_key_bits<R: Registry>(k: archetype::IdentifierRef<R>) -> VxBits;
/// component bytes of the canonical entity type with this TypeId (type-level, R8)
pub uninterp spec fn vx_type_bits(t: TypeId) -> VxBits;

/// A3: the token of an owned buffer denotes the buffer's bytes
#[verifier::external_body]
pub proof fn vx_axiom_ref_bits<R: Registry>(id: &archetype::Identifier<R>)
    ensures vx_key_bits(id.spec_ref()) == id.spec_bits() {}
/// A9 (allocator): an owned identifier buffer that is not stored in the table lives at an address
/// different from every stored table's buffer
#[verifier::external_body]
pub proof fn vx_axiom_fresh_buffer<R: Registry>(t: &VxRawTable<R>, id: &archetype::Identifier<R>)
    ensures !t@.dom().contains(id.spec_ref()) {}

/// A9 (allocator): a table that is not yet stored owns a buffer at an address different from
/// every stored table's buffer
#[verifier::external_body]
pub proof fn vx_axiom_fresh_table<R: Registry>(t: &VxRawTable<R>, a: &archetype::Archetype<R>)
    ensures !t@.dom().contains(a.key()) {}

#[verifier::external_body]
pub fn vx_type_id<E>() -> (t: TypeId) ensures vx_type_bits(t) == vx_bits_of::<E>() { unimplemented!() }
#[verifier::external_body]
pub fn vx_create_archetype_identifier<R: Registry, E>() -> (r: archetype::Identifier<R>)
    ensures r.spec_bits() == vx_bits_of::<E>() { unimplemented!() }
#[verifier::external_body]
pub fn vx_as_bytes_ref<R: Registry>(id: archetype::IdentifierRef<R>) -> (b: Ghost<Seq<u8>>)
    ensures b@ == vx_key_bits(id) { unimplemented!() }
#[verifier::external_body]
pub fn vx_as_bytes<R: Registry>(id: &archetype::Identifier<R>) -> (b: Ghost<Seq<u8>>)
    ensures b@ == id.spec_bits() { unimplemented!() }

use crate::archetype::Archetype;
impl FnvBuildHasher {
    #[verifier::external_body]
    pub fn default() -> (r: Self) { unimplemented!() }
}
pub uninterp spec fn vx_hash<R: Registry>(k: archetype::IdentifierRef<R>) -> u64;
#[verifier::external_body]
pub fn vx_make_hash<R: Registry>(identifier: archetype::IdentifierRef<R>, hash_builder: &FnvBuildHasher) -> (h: u64)
    ensures h == vx_hash(identifier) { unimplemented!() }

// ---- hashbrown::raw::RawTable<Archetype<R>> keyed by the token of each table (A3) ----------
#[verifier::external_body]
#[verifier::accept_recursive_types(R)]
pub struct VxRawTable<R: Registry> { p: PhantomData<R> }
impl<R: Registry> VxRawTable<R> {
    pub uninterp spec fn view(&self) -> IMap<archetype::IdentifierRef<R>, archetype::Archetype<R>>;
    /// every stored table sits under its own key
    pub open spec fn keyed(&self) -> bool {
        forall|k: archetype::IdentifierRef<R>| self@.dom().contains(k) ==> (#[trigger] self@[k]).key() == k
    }
    #[verifier::external_body]
    pub fn new() -> (r: Self) ensures r@ == IMap::<archetype::IdentifierRef<R>, archetype::Archetype<R>>::empty() { unimplemented!() }
    #[verifier::external_body]
    pub fn with_capacity(capacity: usize) -> (r: Self) ensures r@ == IMap::<archetype::IdentifierRef<R>, archetype::Archetype<R>>::empty() { unimplemented!() }
    #[verifier::external_body]
    pub fn vx_get(&self, hash: u64, key: archetype::IdentifierRef<R>) -> (r: Option<&archetype::Archetype<R>>)
        requires hash == vx_hash(key),
        ensures r == (if self@.dom().contains(key) { Some(&self@[key]) } else { None::<&archetype::Archetype<R>> }) { unimplemented!() }
    #[verifier::external_body]
    pub fn vx_get_mut(&mut self, hash: u64, key: archetype::IdentifierRef<R>) -> (r: Option<&mut archetype::Archetype<R>>)
        requires hash == vx_hash(key),
        ensures
            r is Some == old(self)@.dom().contains(key),
            r is Some ==> *r->0 == old(self)@[key] && final(self)@ == old(self)@.insert(key, *final(r->0)),
            r is None ==> final(self)@ == old(self)@,
    { unimplemented!() }
    /// R14: a ghost enumeration of the stored keys (hashbrown iterates every element once, in an
    /// unspecified order)
    pub open spec fn enumerates(&self, keys: Seq<archetype::IdentifierRef<R>>) -> bool {
        &&& forall|i: int, j: int| 0 <= i < j < keys.len() ==> keys[i] != keys[j]
        &&& forall|k: archetype::IdentifierRef<R>| self@.dom().contains(k) == keys.contains(k)
    }
    /// number of stored tables
    pub uninterp spec fn count(&self) -> nat;
    #[verifier::external_body]
    pub fn vx_keys(&self) -> (r: Ghost<Seq<archetype::IdentifierRef<R>>>)
        ensures self.enumerates(r@), r@.len() <= usize::MAX, r@.len() == self.count() { unimplemented!() }
    #[verifier::external_body]
    pub fn len(&self) -> (n: usize) ensures n == self.count() { unimplemented!() }
    #[verifier::external_body]
    pub fn vx_len(&self, keys: Ghost<Seq<archetype::IdentifierRef<R>>>) -> (n: usize)
        requires self.enumerates(keys@),
        ensures n == keys@.len() { unimplemented!() }
    #[verifier::external_body]
    pub fn vx_nth(&self, i: usize, keys: Ghost<Seq<archetype::IdentifierRef<R>>>) -> (r: &archetype::Archetype<R>)
        requires self.enumerates(keys@), i < keys@.len(),
        ensures *r == self@[keys@[i as int]] { unimplemented!() }
    #[verifier::external_body]
    pub fn vx_nth_mut(&mut self, i: usize, keys: Ghost<Seq<archetype::IdentifierRef<R>>>) -> (r: &mut archetype::Archetype<R>)
        requires old(self).enumerates(keys@), i < keys@.len(),
        ensures *r == old(self)@[keys@[i as int]], final(self)@ == old(self)@.insert(keys@[i as int], *final(r)) { unimplemented!() }
    /// `insert_entry`: hashbrown requires that no equal element is present
    #[verifier::external_body]
    pub fn vx_insert_entry(&mut self, hash: u64, value: archetype::Archetype<R>) -> (r: &mut archetype::Archetype<R>)
        requires hash == vx_hash(value.key()), !old(self)@.dom().contains(value.key()),
        ensures *r == value, final(self)@ == old(self)@.insert(value.key(), *final(r)) { unimplemented!() }
    #[verifier::external_body]
    pub fn vx_insert(&mut self, hash: u64, value: archetype::Archetype<R>)
        requires hash == vx_hash(value.key()), !old(self)@.dom().contains(value.key()),
        ensures final(self)@ == old(self)@.insert(value.key(), value) { unimplemented!() }
    /// R14: the bucket the (unsafe) raw iterator yields at position `i` of the enumeration
    #[verifier::external_body]
    pub fn vx_nth_bucket(&self, i: usize, keys: Ghost<Seq<archetype::IdentifierRef<R>>>) -> (r: VxBucket<R>)
        requires self.enumerates(keys@), i < keys@.len(),
        ensures r.key() == keys@[i as int] { unimplemented!() }
    /// `Bucket::as_mut`: the element a live bucket points at
    #[verifier::external_body]
    pub unsafe fn vx_bucket_mut(&mut self, b: &VxBucket<R>) -> (r: &mut archetype::Archetype<R>)
        requires old(self)@.dom().contains(b.key()),
        ensures *r == old(self)@[b.key()], final(self)@ == old(self)@.insert(b.key(), *final(r)) { unimplemented!() }
    /// `RawTable::erase`: the bucket must be live (hashbrown's safety contract)
    #[verifier::external_body]
    pub unsafe fn erase(&mut self, b: VxBucket<R>)
        requires old(self)@.dom().contains(b.key()),
        ensures final(self)@ == old(self)@.remove(b.key()) { unimplemented!() }
    #[verifier::external_body]
    pub fn shrink_to(&mut self, n: usize)
        ensures final(self)@ == old(self)@ { unimplemented!() }
}
/// hashbrown `Bucket<Archetype<R>>`: identified by the key of the element it points at
#[verifier::external_body]
#[verifier::accept_recursive_types(R)]
pub struct VxBucket<R: Registry> { p: PhantomData<R> }
impl<R: Registry> VxBucket<R> {
    pub uninterp spec fn key(&self) -> archetype::IdentifierRef<R>;
}

// ---- hashbrown::HashMap<&'static [u8], IdentifierRef<R>> (bytes -> token) -----------------
#[verifier::external_body]
#[verifier::accept_recursive_types(R)]
pub struct VxBytesMap<R: Registry> { p: PhantomData<R> }
impl<R: Registry> VxBytesMap<R> {
    pub uninterp spec fn view(&self) -> IMap<Seq<u8>, archetype::IdentifierRef<R>>;
    #[verifier::external_body]
    pub fn default() -> (r: Self) ensures r@ == IMap::<Seq<u8>, archetype::IdentifierRef<R>>::empty() { unimplemented!() }
    #[verifier::external_body]
    pub fn vx_with_capacity(capacity: usize) -> (r: Self) ensures r@ == IMap::<Seq<u8>, archetype::IdentifierRef<R>>::empty() { unimplemented!() }
    #[verifier::external_body]
    pub fn vx_get(&self, bytes: Ghost<Seq<u8>>) -> (r: Option<&archetype::IdentifierRef<R>>)
        ensures r == (if self@.dom().contains(bytes@) { Some(&self@[bytes@]) } else { None::<&archetype::IdentifierRef<R>> }) { unimplemented!() }
    /// `insert_unique_unchecked`: the caller promises the key is not present
    #[verifier::external_body]
    pub unsafe fn vx_insert_unique_unchecked(&mut self, bytes: Ghost<Seq<u8>>, value: archetype::IdentifierRef<R>)
        requires !old(self)@.dom().contains(bytes@),
        ensures final(self)@ == old(self)@.insert(bytes@, value) { unimplemented!() }
    /// R5h: `self.iter().filter_map(|(&k, v)| if set.contains(v) { Some(k) } else { None }).collect::<Vec<_>>()`
    #[verifier::external_body]
    pub fn vx_keys_with_value_in(&self, set: &VxTokenSet<R>) -> (r: Vec<VxSliceKey>)
        ensures forall|b: Seq<u8>| (exists|j: int| 0 <= j < r@.len() && (#[trigger] r@[j])@ == b) == (self@.dom().contains(b) && set@.contains(self@[b])) { unimplemented!() }
    #[verifier::external_body]
    pub fn remove(&mut self, k: VxSliceKey)
        ensures final(self)@ == old(self)@.remove(k@) { unimplemented!() }
}
/// a `&'static [u8]` key of the bytes map
#[verifier::external_body]
pub struct VxSliceKey { _p: () }
impl VxSliceKey {
    pub uninterp spec fn view(&self) -> Seq<u8>;
}
// ---- hashbrown::HashMap<TypeId, IdentifierRef<R>> -----------------------------------------
#[verifier::external_body]
#[verifier::accept_recursive_types(R)]
pub struct VxTypeMap<R: Registry> { p: PhantomData<R> }
impl<R: Registry> VxTypeMap<R> {
    pub uninterp spec fn view(&self) -> IMap<TypeId, archetype::IdentifierRef<R>>;
    #[verifier::external_body]
    pub fn default() -> (r: Self) ensures r@ == IMap::<TypeId, archetype::IdentifierRef<R>>::empty() { unimplemented!() }
    #[verifier::external_body]
    pub fn vx_with_capacity(capacity: usize) -> (r: Self) ensures r@ == IMap::<TypeId, archetype::IdentifierRef<R>>::empty() { unimplemented!() }
    #[verifier::external_body]
    pub fn get(&self, t: &TypeId) -> (r: Option<&archetype::IdentifierRef<R>>)
        ensures r == (if self@.dom().contains(*t) { Some(&self@[*t]) } else { None::<&archetype::IdentifierRef<R>> }) { unimplemented!() }
    #[verifier::external_body]
    pub fn insert(&mut self, t: TypeId, value: archetype::IdentifierRef<R>)
        ensures final(self)@ == old(self)@.insert(t, value) { unimplemented!() }
    /// R14: ghost enumeration of the entries
    pub open spec fn enumerates(&self, ts: Seq<TypeId>) -> bool {
        forall|t: TypeId| self@.dom().contains(t) == ts.contains(t)
    }
    #[verifier::external_body]
    pub fn vx_keys(&self) -> (r: Ghost<Seq<TypeId>>) ensures self.enumerates(r@), r@.len() <= usize::MAX { unimplemented!() }
    #[verifier::external_body]
    pub fn vx_len(&self, ts: Ghost<Seq<TypeId>>) -> (n: usize) requires self.enumerates(ts@), ensures n == ts@.len() { unimplemented!() }
    #[verifier::external_body]
    pub fn vx_nth_pair(&self, i: usize, ts: Ghost<Seq<TypeId>>) -> (r: (TypeId, &archetype::IdentifierRef<R>))
        requires self.enumerates(ts@), i < ts@.len(),
        ensures r.0 == ts@[i as int], *r.1 == self@[ts@[i as int]] { unimplemented!() }
    /// R5h: `self.iter().filter_map(|(&k, v)| if set.contains(v) { Some(k) } else { None }).collect::<Vec<_>>()`
    #[verifier::external_body]
    pub fn vx_keys_with_value_in(&self, set: &VxTokenSet<R>) -> (r: Vec<TypeId>)
        ensures forall|t: TypeId| #[trigger] r@.contains(t) == (self@.dom().contains(t) && set@.contains(self@[t])) { unimplemented!() }
    #[verifier::external_body]
    pub fn remove(&mut self, t: &TypeId)
        ensures final(self)@ == old(self)@.remove(*t) { unimplemented!() }
}

// ---- hashbrown::HashMap<IdentifierRef, IdentifierRef> (the key map of clone / clone_from) ----
#[verifier::external_body]
#[verifier::accept_recursive_types(R)]
pub struct VxKeyMap<R: Registry> { p: PhantomData<R> }
impl<R: Registry> VxKeyMap<R> {
    pub uninterp spec fn view(&self) -> IMap<archetype::IdentifierRef<R>, archetype::IdentifierRef<R>>;
    #[verifier::external_body]
    pub fn vx_with_capacity(n: usize) -> (r: Self)
        ensures r@ == IMap::<archetype::IdentifierRef<R>, archetype::IdentifierRef<R>>::empty() { unimplemented!() }
    #[verifier::external_body]
    pub fn insert(&mut self, k: archetype::IdentifierRef<R>, v: archetype::IdentifierRef<R>)
        ensures final(self)@ == old(self)@.insert(k, v) { unimplemented!() }
    #[verifier::external_body]
    pub fn get(&self, k: &archetype::IdentifierRef<R>) -> (r: Option<&archetype::IdentifierRef<R>>)
        ensures r == (if self@.dom().contains(*k) { Some(&self@[*k]) } else { None::<&archetype::IdentifierRef<R>> }) { unimplemented!() }
    /// `map.values().collect::<HashSet<_>>()`
    #[verifier::external_body]
    pub fn vx_values(&self) -> (r: VxTokenSet<R>)
        ensures forall|t: archetype::IdentifierRef<R>| #[trigger] r@.contains(t) == (exists|k: archetype::IdentifierRef<R>| self@.dom().contains(k) && self@[k] == t) { unimplemented!() }
}
#[verifier::external_body]
#[verifier::accept_recursive_types(R)]
pub struct VxTokenSet<R: Registry> { p: PhantomData<R> }
impl<R: Registry> VxTokenSet<R> {
    pub uninterp spec fn view(&self) -> ISet<archetype::IdentifierRef<R>>;
    #[verifier::external_body]
    pub fn contains(&self, t: &archetype::IdentifierRef<R>) -> (b: bool) ensures b == self@.contains(*t) { unimplemented!() }
    #[verifier::external_body]
    pub fn vx_new() -> (r: Self) ensures r@ == ISet::<archetype::IdentifierRef<R>>::empty() { unimplemented!() }
    #[verifier::external_body]
    pub fn insert(&mut self, t: archetype::IdentifierRef<R>) -> (b: bool) ensures final(self)@ == old(self)@.insert(t) { unimplemented!() }
}

/// `c` is a value copy of table `t` under key `k2` (C10): same identifiers, same rows, same
/// component set
pub open spec fn vx_table_copy<R: Registry>(c: archetype::Archetype<R>, t: archetype::Archetype<R>, k2: archetype::IdentifierRef<R>) -> bool {
    c.wf() && c.key() == k2 && c.length == t.length && c.ids() == t.ids() && c.rows() == t.rows() && vx_key_bits(k2) == vx_key_bits(t.key())
}
/// source table under key `k` has its value copy in `dst` under `map[k]`
pub open spec fn vx_copied<R: Registry>(
    map: IMap<archetype::IdentifierRef<R>, archetype::IdentifierRef<R>>,
    dst: IMap<archetype::IdentifierRef<R>, archetype::Archetype<R>>,
    src: IMap<archetype::IdentifierRef<R>, archetype::Archetype<R>>,
    k: archetype::IdentifierRef<R>) -> bool {
    map.dom().contains(k) && dst.dom().contains(map[k]) && vx_table_copy(dst[map[k]], src[k], map[k])
}
/// the old-key -> new-key map returned by Archetypes::clone / clone_from
pub open spec fn vx_is_key_map<R: Registry>(
    map: IMap<archetype::IdentifierRef<R>, archetype::IdentifierRef<R>>,
    src: IMap<archetype::IdentifierRef<R>, archetype::Archetype<R>>,
    dst: IMap<archetype::IdentifierRef<R>, archetype::Archetype<R>>) -> bool {
    &&& forall|k: archetype::IdentifierRef<R>| src.dom().contains(k) ==>
            #[trigger] map.dom().contains(k) && dst.dom().contains(map[k]) && vx_table_copy(dst[map[k]], src[k], map[k])
    &&& forall|k1: archetype::IdentifierRef<R>, k2: archetype::IdentifierRef<R>|
            src.dom().contains(k1) && src.dom().contains(k2) && #[trigger] map[k1] == #[trigger] map[k2] ==> k1 == k2
    &&& forall|k2: archetype::IdentifierRef<R>| #[trigger] dst.dom().contains(k2) ==>
            dst[k2].wf() && dst[k2].key() == k2 &&
            ((exists|k: archetype::IdentifierRef<R>| src.dom().contains(k) && map[k] == k2) || dst[k2].length == 0)
}

// ---- Archetype::clone / clone_from: assumed contracts, checked (bounded) by family K-clone ----
#[verifier::external_body]
pub fn vx_archetype_clone<R: Registry>(a: &archetype::Archetype<R>) -> (r: archetype::Archetype<R>)
    requires a.wf(),
    ensures r.wf(), r.length == a.length, r.ids() == a.ids(), r.rows() == a.rows(), vx_key_bits(r.key()) == vx_key_bits(a.key()) { unimplemented!() }
#[verifier::external_body]
pub fn vx_archetype_clone_from<R: Registry>(a: &mut archetype::Archetype<R>, source: &archetype::Archetype<R>)
    requires old(a).wf(), source.wf(),
    ensures final(a).wf(), final(a).key() == old(a).key(), final(a).length == source.length, final(a).ids() == source.ids(), final(a).rows() == source.rows() { unimplemented!() }

/// `Archetype::component_eq` (R6, assumed contract; K-eq decides it on the real code): the
/// identifier columns and every component cell of the two tables are equal
pub uninterp spec fn vx_tables_eq<R: Registry>(a: archetype::Archetype<R>, b: archetype::Archetype<R>) -> bool;
#[verifier::external_body]
pub unsafe fn vx_component_eq<R: Registry>(a: &archetype::Archetype<R>, b: &archetype::Archetype<R>) -> (r: bool)
    requires vx_key_bits(a.key()) == vx_key_bits(b.key()),
    ensures r == vx_tables_eq(*a, *b) { unimplemented!() }
/// C16: table `t` has a table of the same component set in `m` that is component-equal to it
pub open spec fn vx_has_equal_partner<R: Registry>(t: archetype::Archetype<R>, m: IMap<archetype::IdentifierRef<R>, archetype::Archetype<R>>) -> bool {
    exists|k2: archetype::IdentifierRef<R>| m.dom().contains(k2) && vx_key_bits(k2) == vx_key_bits(t.key()) && vx_tables_eq(t, #[trigger] m[k2])
}

/// every stored table is well formed
pub open spec fn vx_tables_wf<R: Registry>(m: IMap<archetype::IdentifierRef<R>, archetype::Archetype<R>>) -> bool {
    forall|k: archetype::IdentifierRef<R>| m.dom().contains(k) ==> (#[trigger] m[k]).wf()
}
pub open spec fn vx_fresh_table<R: Registry>(a: archetype::Archetype<R>, k: archetype::IdentifierRef<R>, bits: VxBits) -> bool {
    a.wf() && a.length == 0 && a.key() == k && vx_key_bits(k) == bits
}
pub open spec fn vx_single_table<R: Registry>(m: IMap<archetype::IdentifierRef<R>, archetype::Archetype<R>>) -> bool {
    forall|k1: archetype::IdentifierRef<R>, k2: archetype::IdentifierRef<R>|
        m.dom().contains(k1) && m.dom().contains(k2) && vx_key_bits(k1) == vx_key_bits(k2) ==> k1 == k2
}
'''

SPEC = r'''
impl<R: Registry> Archetypes<R> {
    pub open spec fn view(&self) -> IMap<archetype::IdentifierRef<R>, archetype::Archetype<R>> { self.raw_archetypes@ }
    /// I1: every table sits under its own key
    pub open spec fn inv_keyed(&self) -> bool { self.raw_archetypes.keyed() }
    /// I2: the bytes lookup lists exactly the tables with keys in `d`, each under its own bytes
    pub open spec fn inv_foreign_complete(&self, d: ISet<archetype::IdentifierRef<R>>) -> bool {
        forall|k: archetype::IdentifierRef<R>| #[trigger] d.contains(k) ==>
            self.foreign_identifier_lookup@.dom().contains(vx_key_bits(k)) && self.foreign_identifier_lookup@[vx_key_bits(k)] == k
    }
    pub open spec fn inv_foreign_sound(&self, d: ISet<archetype::IdentifierRef<R>>) -> bool {
        forall|b: Seq<u8>| #[trigger] self.foreign_identifier_lookup@.dom().contains(b) ==>
            d.contains(self.foreign_identifier_lookup@[b]) && vx_key_bits(self.foreign_identifier_lookup@[b]) == b
    }
    /// I3: the type cache points at stored tables of the right component set
    pub open spec fn inv_type_cache(&self, d: ISet<archetype::IdentifierRef<R>>) -> bool {
        forall|t: TypeId| #[trigger] self.type_id_lookup@.dom().contains(t) ==>
            d.contains(self.type_id_lookup@[t]) && vx_key_bits(self.type_id_lookup@[t]) == vx_type_bits(t)
    }
    /// the lookup tables are in step with a table set whose keys are `d` (depends on keys only)
    pub open spec fn lookups_ok(&self, d: ISet<archetype::IdentifierRef<R>>) -> bool {
        self.inv_foreign_complete(d) && self.inv_foreign_sound(d) && self.inv_type_cache(d)
    }
    pub open spec fn wf(&self) -> bool {
        self.inv_keyed() && self.lookups_ok(self@.dom())
    }
    /// C13: entities with the same component set are kept in a single table
    pub proof fn lemma_single_table(&self)
        requires self.wf(),
        ensures vx_single_table(self@),
    {
        assert forall|k1: archetype::IdentifierRef<R>, k2: archetype::IdentifierRef<R>|
            self@.dom().contains(k1) && self@.dom().contains(k2) && vx_key_bits(k1) == vx_key_bits(k2) implies k1 == k2 by {
            assert(self@.dom().contains(k1) && self@.dom().contains(k2));
            assert(self.foreign_identifier_lookup@[vx_key_bits(k1)] == k1);
            assert(self.foreign_identifier_lookup@[vx_key_bits(k2)] == k2);
        }
    }
}
'''

CLEAR_SPEC = r"""
/// identifier `i` is stored in one of the first `n` tables of the enumeration `keys`
pub open spec fn vx_stored_prefix<R: Registry>(m: IMap<archetype::IdentifierRef<R>, archetype::Archetype<R>>, keys: Seq<archetype::IdentifierRef<R>>, n: int, i: entity::Identifier) -> bool {
    exists|j: int| 0 <= j < n && (#[trigger] m[keys[j]]).ids().contains(i)
}
pub proof fn lemma_stored_prefix_step<R: Registry>(m: IMap<archetype::IdentifierRef<R>, archetype::Archetype<R>>, keys: Seq<archetype::IdentifierRef<R>>, n: int, i: entity::Identifier)
    requires 0 <= n < keys.len(),
    ensures vx_stored_prefix(m, keys, n + 1, i) == (vx_stored_prefix(m, keys, n, i) || m[keys[n]].ids().contains(i)),
{
    if vx_stored_prefix(m, keys, n + 1, i) {
        let j = choose|j: int| 0 <= j < n + 1 && (#[trigger] m[keys[j]]).ids().contains(i);
        if j < n { assert(0 <= j < n && m[keys[j]].ids().contains(i)); }
    }
    if vx_stored_prefix(m, keys, n, i) {
        let j = choose|j: int| 0 <= j < n && (#[trigger] m[keys[j]]).ids().contains(i);
        assert(0 <= j < n + 1 && m[keys[j]].ids().contains(i));
    }
    if m[keys[n]].ids().contains(i) {
        assert(0 <= n < n + 1 && m[keys[n]].ids().contains(i));
    }
}
/// over the whole enumeration, "stored in a prefix table" is "stored in the table set"
pub proof fn lemma_stored_prefix_all<R: Registry>(m: IMap<archetype::IdentifierRef<R>, archetype::Archetype<R>>, keys: Seq<archetype::IdentifierRef<R>>, i: entity::Identifier)
    requires
        forall|k: archetype::IdentifierRef<R>| m.dom().contains(k) == keys.contains(k),
        forall|k: archetype::IdentifierRef<R>| m.dom().contains(k) ==> (#[trigger] m[k]).wf(),
    ensures vx_stored_prefix(m, keys, keys.len() as int, i) == vx_stored(m, i),
{
    if vx_stored_prefix(m, keys, keys.len() as int, i) {
        let j = choose|j: int| 0 <= j < keys.len() && (#[trigger] m[keys[j]]).ids().contains(i);
        let k = keys[j];
        assert(keys.contains(k));
        assert(m.dom().contains(k));
        assert(m[k].wf());
        let r = choose|r: int| 0 <= r < m[k].ids().len() && m[k].ids()[r] == i;
        assert(m.dom().contains(k) && 0 <= r < m[k].length && m[k].ids()[r] == i);
    }
    if vx_stored(m, i) {
        let (k, r) = choose|k: archetype::IdentifierRef<R>, r: int| m.dom().contains(k) && 0 <= r < m[k].length && #[trigger] m[k].ids()[r] == i;
        assert(keys.contains(k));
        let j = choose|j: int| 0 <= j < keys.len() && keys[j] == k;
        assert(m[k].wf());
        assert(m[keys[j]].ids()[r] == i);
        assert(m[keys[j]].ids().contains(i));
        assert(0 <= j < keys.len() && m[keys[j]].ids().contains(i));
    }
}
"""

CLEAR_BODY_PROOF = r'''proof {
                let k = vx_k;
                let t0 = vx_a0@[k];
                assert(self@.dom() =~= vx_a0@.dom());
                assert forall|j: int| vx_i1 + 1 <= j < vx_n1 implies (#[trigger] self@[vx_keys1@[j]]) == vx_a0@[vx_keys1@[j]] by {
                    assert(vx_keys1@[j] != k);
                }
                assert forall|j: int| 0 <= j < vx_i1 + 1 implies (#[trigger] self@[vx_keys1@[j]]).wf() && self@[vx_keys1@[j]].length == 0 && self@[vx_keys1@[j]].key() == vx_keys1@[j] by {
                    if j < vx_i1 { assert(vx_keys1@[j] != k); }
                }
                // tables still to do keep agreeing: their identifiers are not the ones just released
                assert forall|j: int| vx_i1 + 1 <= j < vx_n1 implies (#[trigger] vx_a0@[vx_keys1@[j]]).agrees(entity_allocator) by {
                    let t = vx_a0@[vx_keys1@[j]];
                    assert(vx_a0@.dom().contains(vx_keys1@[j])) by { assert(vx_keys1@.contains(vx_keys1@[j])); }
                    assert(t.agrees(&vx_pre_alloc));
                    assert(t.key() == vx_keys1@[j]);
                    assert forall|r: int| 0 <= r < t.length implies entity_allocator.resolves(#[trigger] t.ids()[r])
                        && entity_allocator.view()[t.ids()[r]] == (Location { identifier: t.key(), index: r as usize }) by {
                        let i = t.ids()[r];
                        assert(vx_pre_alloc.resolves(i));
                        if t0.ids().contains(i) {
                            let q = choose|q: int| 0 <= q < t0.ids().len() && t0.ids()[q] == i;
                            assert(vx_pre_alloc.view()[t0.ids()[q]].identifier == t0.key());
                        }
                    }
                }
                assert forall|i: entity::Identifier| entity_allocator.resolves(i) == (vx_alloc0.resolves(i) && !vx_stored_prefix(vx_a0@, vx_keys1@, vx_i1 + 1, i)) by {
                    lemma_stored_prefix_step(vx_a0@, vx_keys1@, vx_i1 as int, i);
                    assert(entity_allocator.resolves(i) == (vx_pre_alloc.resolves(i) && !t0.ids().contains(i)));
                    assert(vx_pre_alloc.resolves(i) == (vx_alloc0.resolves(i) && !vx_stored_prefix(vx_a0@, vx_keys1@, vx_i1 as int, i)));
                    assert(t0 == vx_a0@[vx_keys1@[vx_i1 as int]]);
                }
            }'''

CLEAR_END_PROOF = r'''proof {
            assert(self@.dom() =~= vx_a0@.dom());
            assert forall|k: archetype::IdentifierRef<R>| self@.dom().contains(k) implies (#[trigger] self@[k]).wf() && self@[k].length == 0 && self@[k].key() == k by {
                assert(vx_keys1@.contains(k));
                let j = choose|j: int| 0 <= j < vx_keys1@.len() && vx_keys1@[j] == k;
                assert(self@[vx_keys1@[j]].length == 0);
            }
            assert forall|i: entity::Identifier| entity_allocator.resolves(i) == (vx_alloc0.resolves(i) && !vx_stored(vx_a0@, i)) by {
                lemma_stored_prefix_all(vx_a0@, vx_keys1@, i);
                assert(vx_i1 == vx_keys1@.len());
            }
        }'''

CF1_PROOF = r'''proof {
                let i = vx_i1 as int;
                let k = vx_keys1@[i];
                let src = source@[k];
                assert(src.key() == k);
                let k2 = identifier_map@[k];
                assert(identifier_map@.dom().contains(k));
                assert(vx_key_bits(k2) == vx_key_bits(k));
                assert forall|kk: archetype::IdentifierRef<R>| #[trigger] identifier_map@.dom().contains(kk) implies (exists|j: int| 0 <= j < i + 1 && vx_keys1@[j] == kk) by {
                    if kk == k { assert(vx_keys1@[i] == kk); } else {
                        assert(vx_map1.dom().contains(kk));
                        let j = choose|j: int| 0 <= j < i && vx_keys1@[j] == kk;
                        assert(0 <= j < i + 1 && vx_keys1@[j] == kk);
                    }
                }
                assert(self@.dom().contains(k2));
                assert(vx_table_copy(self@[k2], src, k2));
                assert forall|j: int| 0 <= j < i + 1 implies vx_copied(identifier_map@, self@, source@, #[trigger] vx_keys1@[j]) by {
                    if j == i {
                        assert(vx_keys1@[j] == k);
                        assert(vx_table_copy(self@[identifier_map@[vx_keys1@[j]]], source@[vx_keys1@[j]], identifier_map@[vx_keys1@[j]]));
                    } else {
                        // earlier copies are untouched: they live under keys with other component bytes
                        let kj = vx_keys1@[j];
                        assert(kj != k);
                        assert(source@.dom().contains(kj)) by { assert(vx_keys1@.contains(kj)); }
                        assert(vx_map1.dom().contains(kj));
                        assert(identifier_map@[kj] == vx_map1[kj]);
                        assert(vx_s1@.dom().contains(vx_map1[kj]));
                        assert(vx_table_copy(vx_s1@[vx_map1[kj]], source@[kj], vx_map1[kj]));
                        assert(source@[kj].key() == kj);
                        assert(vx_key_bits(vx_map1[kj]) == vx_key_bits(kj));
                        assert(vx_key_bits(kj) != vx_key_bits(k));
                        assert(vx_map1[kj] != k2);
                        assert(self@.dom().contains(vx_map1[kj]));
                        assert(self@[vx_map1[kj]] == vx_s1@[vx_map1[kj]]);
                    }
                }
                assert(vx_tables_wf(self@)) by {
                    assert forall|kk: archetype::IdentifierRef<R>| self@.dom().contains(kk) implies (#[trigger] self@[kk]).wf() by {
                        if kk != k2 { assert(vx_s1@.dom().contains(kk) && self@[kk] == vx_s1@[kk]); }
                    }
                }
            }'''

CF2_PROOF = r'''proof {
                let i = vx_i2 as int;
                let k = vx_keys2@[i];
                assert forall|j: int| i + 1 <= j < vx_n2 implies (#[trigger] self@[vx_keys2@[j]]) == vx_m1@[vx_keys2@[j]] by {
                    assert(vx_keys2@[j] != k);
                    assert(vx_s2@[vx_keys2@[j]] == vx_m1@[vx_keys2@[j]]);
                }
                assert forall|j: int| 0 <= j < i + 1 implies (#[trigger] self@[vx_keys2@[j]]).wf() && self@[vx_keys2@[j]].key() == vx_keys2@[j]
                    && (if cloned_archetype_identifiers@.contains(vx_keys2@[j]) { self@[vx_keys2@[j]] == vx_m1@[vx_keys2@[j]] } else { self@[vx_keys2@[j]].length == 0 }) by {
                    if j < i { assert(vx_keys2@[j] != k); assert(self@[vx_keys2@[j]] == vx_s2@[vx_keys2@[j]]); }
                    else { assert(vx_m1@[k].wf() && vx_m1@[k].key() == k); }
                }
                assert(self@.dom() =~= vx_m1@.dom());
            }'''

CF3_PRE = r'''proof {
            vx_m2 = *self;
            assert(self@.dom() =~= vx_m1@.dom());
            assert forall|t: TypeId| #[trigger] self.type_id_lookup@.dom().contains(t) implies
                self@.dom().contains(self.type_id_lookup@[t]) && vx_key_bits(self.type_id_lookup@[t]) == vx_type_bits(t) by {
                assert(vx_m1.type_id_lookup@.dom().contains(t));
            }
            assert forall|k: archetype::IdentifierRef<R>| #[trigger] source@.dom().contains(k) implies (identifier_map@.dom().contains(k)
                && self@.dom().contains(identifier_map@[k]) && vx_key_bits(identifier_map@[k]) == vx_key_bits(k)) by {
                assert(vx_keys1@.contains(k));
                let j = choose|j: int| 0 <= j < vx_keys1@.len() && vx_keys1@[j] == k;
                assert(0 <= j < vx_n1);
                assert(identifier_map@.dom().contains(vx_keys1@[j]) && vx_m1@.dom().contains(identifier_map@[vx_keys1@[j]])
                    && vx_table_copy(vx_m1@[identifier_map@[vx_keys1@[j]]], source@[vx_keys1@[j]], identifier_map@[vx_keys1@[j]]));
                assert(source@[k].key() == k);
            }
        }'''

CF3_PROOF = r'''proof {
                let t = vx_keys3@[vx_i3 as int];
                assert(source.type_id_lookup@.dom().contains(t)) by { assert(vx_keys3@.contains(t)); }
                assert(source@.dom().contains(source.type_id_lookup@[t]));
            }'''

CF_END = r'''proof {
            let map = identifier_map@;
            assert(self@ == vx_m2@);
            assert(self@.dom() =~= vx_m1@.dom());
            // tables after the clearing pass
            assert forall|k2: archetype::IdentifierRef<R>| #[trigger] self@.dom().contains(k2) implies
                self@[k2].wf() && self@[k2].key() == k2 && (if vx_vals.contains(k2) { self@[k2] == vx_m1@[k2] } else { self@[k2].length == 0 }) by {
                assert(vx_k2.contains(k2));
                let j = choose|j: int| 0 <= j < vx_k2.len() && vx_k2[j] == k2;
                assert(self@[vx_k2[j]].wf());
            }
            assert forall|k: archetype::IdentifierRef<R>| source@.dom().contains(k) implies
                #[trigger] map.dom().contains(k) && self@.dom().contains(map[k]) && vx_table_copy(self@[map[k]], source@[k], map[k]) by {
                assert(vx_keys1@.contains(k));
                let j = choose|j: int| 0 <= j < vx_keys1@.len() && vx_keys1@[j] == k;
                assert(map.dom().contains(vx_keys1@[j]));
                assert(vx_vals.contains(map[k]));
                assert(vx_m1@.dom().contains(map[k]));
            }
            assert forall|k1: archetype::IdentifierRef<R>, k2: archetype::IdentifierRef<R>|
                source@.dom().contains(k1) && source@.dom().contains(k2) && #[trigger] map[k1] == #[trigger] map[k2] implies k1 == k2 by {
                assert(map.dom().contains(k1) && map.dom().contains(k2));
                assert(source@[k1].key() == k1 && source@[k2].key() == k2);
                assert(vx_key_bits(k1) == vx_key_bits(map[k1]));
                assert(vx_key_bits(k2) == vx_key_bits(map[k2]));
            }
            assert forall|k2: archetype::IdentifierRef<R>| #[trigger] self@.dom().contains(k2) implies
                self@[k2].wf() && self@[k2].key() == k2 && ((exists|k: archetype::IdentifierRef<R>| source@.dom().contains(k) && map[k] == k2) || self@[k2].length == 0) by {
                if vx_vals.contains(k2) {
                    let k = choose|k: archetype::IdentifierRef<R>| map.dom().contains(k) && map[k] == k2;
                    let j = choose|j: int| 0 <= j < vx_n1 && vx_keys1@[j] == k;
                    assert(vx_keys1@.contains(k));
                    assert(source@.dom().contains(k) && map[k] == k2);
                }
            }
            assert(self.lookups_ok(self@.dom())) by {
                assert(self.foreign_identifier_lookup == vx_m1.foreign_identifier_lookup);
                assert(vx_m1.lookups_ok(vx_m1@.dom()));
            }
            self.lemma_single_table();
        }'''

# clause texts shared with unit V-world's assumed contracts (same strings on both sides)
def lookup_ensures(bits):
    return [
        ("C13.lookup.existing", f"(exists|k: archetype::IdentifierRef<R>| old(self)@.dom().contains(k) && vx_key_bits(k) == {bits}) ==> old(self)@.dom().contains(r.key()) && *r == old(self)@[r.key()] && vx_key_bits(r.key()) == {bits}"),
        ("C13.lookup.fresh", f"!(exists|k: archetype::IdentifierRef<R>| old(self)@.dom().contains(k) && vx_key_bits(k) == {bits}) ==> !old(self)@.dom().contains(r.key()) && vx_fresh_table(*r, r.key(), {bits})"),
        ("C13.lookup.frame", "final(self)@ == old(self)@.insert(r.key(), *final(r))"),
    ]


def lookups_ens(dom):
    return [("C13.archs.foreign_complete", f"final(self).inv_foreign_complete({dom})"),
            ("C13.archs.foreign_sound", f"final(self).inv_foreign_sound({dom})"),
            ("C13.archs.type_cache", f"final(self).inv_type_cache({dom})")]


EQ_LEMMAS = r"""
// ---- C16: the relation Archetypes::eq computes (its proved postcondition) is reflexive and
// symmetric, given that the per-table comparison is (A8: user PartialEq is an equivalence; K-eq:
// component_eq is pointwise equality of identifiers and cells)
pub open spec fn vx_archs_eq_spec<R: Registry>(a: Archetypes<R>, b: Archetypes<R>) -> bool {
    a.raw_archetypes.count() == b.raw_archetypes.count()
        && forall|k: archetype::IdentifierRef<R>| a@.dom().contains(k) ==> vx_has_equal_partner(#[trigger] a@[k], b@)
}
/// A3: a hashbrown table holds finitely many elements; `len()` is their number
#[verifier::external_body]
pub proof fn vx_axiom_count<R: Registry>(t: &VxRawTable<R>)
    ensures exists|ks: Seq<archetype::IdentifierRef<R>>| t.enumerates(ks) && ks.len() == t.count()
{ }
/// pigeonhole: an injective map from the elements of a duplicate-free list into the elements of
/// a duplicate-free list of the same length hits every element
pub proof fn lemma_injective_onto<K>(a: Seq<K>, b: Seq<K>, g: spec_fn(K) -> K)
    requires vx_nodup(a), vx_nodup(b), a.len() == b.len(),
             forall|i: int| 0 <= i < a.len() ==> b.contains(#[trigger] g(a[i])),
             forall|i: int, j: int| 0 <= i < j < a.len() ==> g(a[i]) != g(a[j]),
    ensures forall|y: K| b.contains(y) ==> exists|i: int| 0 <= i < a.len() && #[trigger] g(a[i]) == y
    decreases a.len()
{
    if a.len() > 0 {
        let x = a.last();
        let gx = g(x);
        assert(b.contains(g(a[a.len() - 1])));
        let j = choose|j: int| 0 <= j < b.len() && b[j] == gx;
        let a1 = a.drop_last();
        let b1 = b.remove(j);
        assert(vx_nodup(a1));
        assert(vx_nodup(b1)) by {
            assert forall|p: int, q: int| 0 <= p < q < b1.len() implies b1[p] != b1[q] by {
                let pp = if p < j { p } else { p + 1 };
                let qq = if q < j { q } else { q + 1 };
                assert(b1[p] == b[pp] && b1[q] == b[qq]);
            }
        }
        assert forall|i: int| 0 <= i < a1.len() implies b1.contains(#[trigger] g(a1[i])) by {
            assert(a1[i] == a[i]);
            assert(b.contains(g(a[i])));
            let q = choose|q: int| 0 <= q < b.len() && b[q] == g(a[i]);
            assert(g(a[i]) != g(a[a.len() - 1]));
            assert(q != j);
            let qq = if q < j { q } else { q - 1 };
            assert(b1[qq] == g(a1[i]));
        }
        assert forall|i: int, k: int| 0 <= i < k < a1.len() implies g(a1[i]) != g(a1[k]) by { assert(a1[i] == a[i] && a1[k] == a[k]); }
        lemma_injective_onto(a1, b1, g);
        assert forall|y: K| b.contains(y) implies exists|i: int| 0 <= i < a.len() && #[trigger] g(a[i]) == y by {
            let q = choose|q: int| 0 <= q < b.len() && b[q] == y;
            if q == j { assert(g(a[a.len() - 1]) == y); }
            else {
                let qq = if q < j { q } else { q - 1 };
                assert(b1[qq] == y);
                assert(b1.contains(y));
                let i = choose|i: int| 0 <= i < a1.len() && #[trigger] g(a1[i]) == y;
                assert(a1[i] == a[i]);
                assert(g(a[i]) == y);
            }
        }
    }
}
pub proof fn lemma_archs_eq_reflexive<R: Registry>(a: Archetypes<R>)
    requires a.wf(), forall|t: archetype::Archetype<R>| #[trigger] vx_tables_eq(t, t),
    ensures vx_archs_eq_spec(a, a)
{
    assert forall|k: archetype::IdentifierRef<R>| a@.dom().contains(k) implies vx_has_equal_partner(#[trigger] a@[k], a@) by {
        assert(a@[k].key() == k);
        assert(a@.dom().contains(k) && vx_key_bits(k) == vx_key_bits(a@[k].key()) && vx_tables_eq(a@[k], a@[k]));
    }
}
pub proof fn lemma_archs_eq_symmetric<R: Registry>(a: Archetypes<R>, b: Archetypes<R>)
    requires a.wf(), b.wf(), vx_archs_eq_spec(a, b),
             forall|t: archetype::Archetype<R>, u: archetype::Archetype<R>| #[trigger] vx_tables_eq(t, u) ==> vx_tables_eq(u, t),
    ensures vx_archs_eq_spec(b, a)
{
    a.lemma_single_table();
    vx_axiom_count(&a.raw_archetypes);
    vx_axiom_count(&b.raw_archetypes);
    let ka = choose|ks: Seq<archetype::IdentifierRef<R>>| a.raw_archetypes.enumerates(ks) && ks.len() == a.raw_archetypes.count();
    let kb = choose|ks: Seq<archetype::IdentifierRef<R>>| b.raw_archetypes.enumerates(ks) && ks.len() == b.raw_archetypes.count();
    let g = |k: archetype::IdentifierRef<R>| choose|k2: archetype::IdentifierRef<R>| b@.dom().contains(k2) && vx_key_bits(k2) == vx_key_bits(a@[k].key()) && vx_tables_eq(a@[k], #[trigger] b@[k2]);
    assert forall|i: int| 0 <= i < ka.len() implies kb.contains(#[trigger] g(ka[i])) && vx_key_bits(g(ka[i])) == vx_key_bits(ka[i]) && vx_tables_eq(a@[ka[i]], b@[g(ka[i])]) by {
        assert(ka.contains(ka[i]));
        assert(a@.dom().contains(ka[i]));
        assert(vx_has_equal_partner(a@[ka[i]], b@));
        assert(a@[ka[i]].key() == ka[i]);
        assert(b@.dom().contains(g(ka[i])));
    }
    assert forall|i: int, j: int| 0 <= i < j < ka.len() implies g(ka[i]) != g(ka[j]) by {
        assert(ka.contains(ka[i]) && ka.contains(ka[j]));
        if g(ka[i]) == g(ka[j]) {
            assert(vx_key_bits(ka[i]) == vx_key_bits(ka[j]));
            assert(ka[i] == ka[j]);
        }
    }
    lemma_injective_onto(ka, kb, g);
    assert forall|k2: archetype::IdentifierRef<R>| b@.dom().contains(k2) implies vx_has_equal_partner(#[trigger] b@[k2], a@) by {
        assert(kb.contains(k2));
        let i = choose|i: int| 0 <= i < ka.len() && #[trigger] g(ka[i]) == k2;
        let k = ka[i];
        assert(ka.contains(k));
        assert(b@[k2].key() == k2);
        assert(vx_tables_eq(a@[k], b@[k2]));
        assert(a@.dom().contains(k) && vx_key_bits(k) == vx_key_bits(b@[k2].key()) && vx_tables_eq(b@[k2], a@[k]));
    }
}
"""

ARCHS_SER_PRELUDE = r"""
// ---- R9/A10: the serde Serializer the table set is written to, and the borrowing table iterator
#[verifier::external_body]
pub struct VxSeqSerializer { _p: () }
#[verifier::external_body]
pub struct VxSeqOk { _p: () }
pub struct VxTableTok { pub id: int }
/// the abstract token of a serialized table (K-deser-arch decides the element encoding, bounded)
pub uninterp spec fn vx_ser_table<R: Registry>(t: archetype::Archetype<R>) -> VxTableTok;
impl VxSeqOk { pub uninterp spec fn elems(&self) -> Seq<VxTableTok>; }
#[verifier::external_body]
#[verifier::accept_recursive_types(R)]
pub struct VxTableRefIter<'a, R: Registry> { p: PhantomData<&'a R> }
impl<'a, R: Registry> VxTableRefIter<'a, R> {
    pub uninterp spec fn rest(&self) -> Seq<archetype::Archetype<R>>;
    /// A1: `Iterator::filter(p)`: the items `p` accepts, in order
    #[verifier::external_body]
    pub fn filter<F: Fn(&&'a archetype::Archetype<R>) -> bool>(self, f: F) -> (r: VxTableRefIter<'a, R>)
        requires forall|t: &&'a archetype::Archetype<R>| #[trigger] f.requires((t,)),
        ensures r.rest().len() <= self.rest().len(),
                forall|j: int| 0 <= j < r.rest().len() ==> exists|i: int| 0 <= i < self.rest().len() && self.rest()[i] == #[trigger] r.rest()[j],
                (forall|t: &&'a archetype::Archetype<R>| f.ensures((t,), true)) ==> r.rest() == self.rest()
    { unimplemented!() }
}
impl VxSeqSerializer {
    /// serde `Serializer::is_human_readable()`: any answer
    #[verifier::external_body]
    pub fn is_human_readable(&self) -> (r: bool) { unimplemented!() }
    /// serde `Serializer::collect_seq(iter)`: one element per item of the iterator, in order
    #[verifier::external_body]
    pub fn collect_seq<'a, R: Registry>(self, it: VxTableRefIter<'a, R>) -> (r: Result<VxSeqOk, VxErr>)
        ensures r is Ok ==> r->Ok_0.elems() == Seq::new(it.rest().len(), |j: int| vx_ser_table(it.rest()[j])) { unimplemented!() }
}
impl<R: Registry> Archetypes<R> {
    /// R14/A3: `Archetypes::iter()` (hashbrown RawIter): every stored table once, in some order
    #[verifier::external_body]
    pub fn vx_iter<'a>(&'a self) -> (r: VxTableRefIter<'a, R>)
        ensures exists|ks: Seq<archetype::IdentifierRef<R>>| self.raw_archetypes.enumerates(ks) && r.rest() == Seq::new(ks.len(), |j: int| self@[ks[j]]) { unimplemented!() }
}
"""

EQ_STEP = r'''proof {
                let k = vx_keys1@[vx_i1 as int];
                assert(vx_keys1@.contains(k));
                assert(self@.dom().contains(k));
                assert(self@[k].key() == k);
            }'''

EQ_END = r'''proof {
            assert forall|k: archetype::IdentifierRef<R>| self@.dom().contains(k) implies vx_has_equal_partner(#[trigger] self@[k], other@) by {
                assert(vx_keys1@.contains(k));
                let j = choose|j: int| 0 <= j < vx_keys1@.len() && vx_keys1@[j] == k;
                assert(vx_has_equal_partner(self@[vx_keys1@[j]], other@));
            }
        }'''


SHRINK_SPEC = r"""
/// `a` is table `b` after `Archetype::shrink_to_fit` (or untouched): same key, identifiers, rows
pub open spec fn vx_same_table<R: Registry>(a: archetype::Archetype<R>, b: archetype::Archetype<R>) -> bool {
    a.wf() && a.key() == b.key() && a.length == b.length && a.ids() == b.ids() && a.rows() == b.rows()
}
"""

SHRINK_LOOPS = [
    # loop 1: every table -- empty ones are marked, the others shrunk
    Loop(invariant=[
        ("sh1.enum", "vx_i1 <= vx_n1 && self.raw_archetypes.enumerates(vx_keys1@)"),
        ("sh1.frame", "self@.dom() == vx_a0@.dom() && self.foreign_identifier_lookup == vx_a0.foreign_identifier_lookup && self.type_id_lookup == vx_a0.type_id_lookup && self.hash_builder == vx_a0.hash_builder"),
        ("sh1.done", "forall|j: int| 0 <= j < vx_i1 ==> vx_same_table(#[trigger] self@[vx_keys1@[j]], vx_a0@[vx_keys1@[j]])"),
        ("sh1.todo", "forall|j: int| vx_i1 <= j < vx_n1 ==> (#[trigger] self@[vx_keys1@[j]]) == vx_a0@[vx_keys1@[j]]"),
        ("sh1.set_sound", "forall|k: archetype::IdentifierRef<R>| #[trigger] identifiers_to_erase@.contains(k) ==> vx_a0@.dom().contains(k) && vx_a0@[k].length == 0"),
        ("sh1.set_complete", "forall|j: int| 0 <= j < vx_i1 && vx_a0@[vx_keys1@[j]].length == 0 ==> identifiers_to_erase@.contains(#[trigger] vx_keys1@[j])"),
        ("sh1.set_not_future", "forall|j: int| vx_i1 <= j < vx_n1 ==> !identifiers_to_erase@.contains(#[trigger] vx_keys1@[j])"),
        ("sh1.ek", "vx_ek.len() == archetypes_to_erase@.len() && forall|a: int| 0 <= a < vx_ek.len() ==> (#[trigger] archetypes_to_erase@[a]).key() == vx_ek[a]"),
        ("sh1.ek_set", "forall|k: archetype::IdentifierRef<R>| identifiers_to_erase@.contains(k) == vx_ek.contains(k)"),
        ("sh1.ek_distinct", "vx_ek.no_duplicates()"),
    ], decreases="vx_n1 - vx_i1"),
    # loop 2: type cache entries of marked tables removed
    Loop(invariant=[
        ("sh2.frame", "self.raw_archetypes == vx_s1.raw_archetypes && self.foreign_identifier_lookup == vx_s1.foreign_identifier_lookup"),
        ("sh2.sub", "forall|t: TypeId| #[trigger] self.type_id_lookup@.dom().contains(t) ==> vx_s1.type_id_lookup@.dom().contains(t) && self.type_id_lookup@[t] == vx_s1.type_id_lookup@[t]"),
        ("sh2.count", "vx_c == vx_it2.index@ && vx_it2.seq() == vx_q2"),
        ("sh2.removed", "forall|a: int| 0 <= a < vx_c ==> !self.type_id_lookup@.dom().contains(#[trigger] vx_q2[a])"),
    ]),
    # loop 3: bytes lookup entries of marked tables removed
    Loop(invariant=[
        ("sh3.frame", "self.raw_archetypes == vx_s2.raw_archetypes && self.type_id_lookup == vx_s2.type_id_lookup"),
        ("sh3.sub", "forall|b: Seq<u8>| #[trigger] self.foreign_identifier_lookup@.dom().contains(b) ==> vx_s2.foreign_identifier_lookup@.dom().contains(b) && self.foreign_identifier_lookup@[b] == vx_s2.foreign_identifier_lookup@[b]"),
        ("sh3.kept", "forall|b: Seq<u8>| #[trigger] vx_s2.foreign_identifier_lookup@.dom().contains(b) && !vx_set.contains(vx_s2.foreign_identifier_lookup@[b]) ==> self.foreign_identifier_lookup@.dom().contains(b)"),
        ("sh3.count", "vx_c == vx_it3.index@ && vx_it3.seq() == vx_q3"),
        ("sh3.removed", "forall|a: int| 0 <= a < vx_c ==> !self.foreign_identifier_lookup@.dom().contains((#[trigger] vx_q3[a])@)"),
    ]),
    # loop 4: marked tables erased
    Loop(invariant=[
        ("sh4.frame", "self.foreign_identifier_lookup == vx_s3.foreign_identifier_lookup && self.type_id_lookup == vx_s3.type_id_lookup"),
        ("sh4.count", "vx_c == vx_it4.index@ && vx_it4.seq() == vx_q4"),
        ("sh4.dom", "forall|k: archetype::IdentifierRef<R>| #[trigger] self@.dom().contains(k) == (vx_s3@.dom().contains(k) && !(exists|a: int| 0 <= a < vx_c && vx_ek[a] == k))"),
        ("sh4.same", "forall|k: archetype::IdentifierRef<R>| self@.dom().contains(k) ==> (#[trigger] self@[k]) == vx_s3@[k]"),
    ]),
]

SH1_STEP = r"""proof {
                let k = vx_keys1@[vx_i1 as int];
                assert(vx_keys1@.contains(k));
                assert(vx_pre@.dom().contains(k));
                assert(vx_pre@[k] == vx_a0@[k]);
                assert(vx_a0@[k].key() == k);
                assert(self@.dom() =~= vx_pre@.dom());
                assert forall|j: int| 0 <= j < vx_n1 && j != vx_i1 implies #[trigger] self@[vx_keys1@[j]] == vx_pre@[vx_keys1@[j]] by {
                    assert(vx_keys1@[j] != k);
                }
                if vx_a0@[k].length == 0 {
                    assert(self@[k] == vx_pre@[k]);
                    assert(vx_ek == vx_ek0.push(k));
                    assert forall|k2: archetype::IdentifierRef<R>| identifiers_to_erase@.contains(k2) == vx_ek.contains(k2) by {
                        if k2 == k { assert(vx_ek[vx_ek.len() - 1] == k); }
                        else if vx_ek0.contains(k2) {
                            let a = choose|a: int| 0 <= a < vx_ek0.len() && vx_ek0[a] == k2;
                            assert(vx_ek[a] == k2);
                        } else if vx_ek.contains(k2) {
                            let a = choose|a: int| 0 <= a < vx_ek.len() && vx_ek[a] == k2;
                            assert(a < vx_ek0.len());
                            assert(vx_ek0[a] == k2);
                        }
                    }
                    assert(!vx_ek0.contains(k));
                    assert(vx_ek.no_duplicates());
                } else {
                    assert(vx_ek == vx_ek0);
                }
                assert forall|j: int| vx_i1 + 1 <= j < vx_n1 implies !identifiers_to_erase@.contains(#[trigger] vx_keys1@[j]) by {
                    assert(vx_keys1@[j] != k);
                }
            }"""

SH_PRE2 = r"""let ghost vx_s1 = *self; let ghost vx_set = identifiers_to_erase@;
        proof {
            assert forall|k: archetype::IdentifierRef<R>| vx_s1@.dom().contains(k) implies vx_same_table(#[trigger] vx_s1@[k], vx_a0@[k]) by {
                assert(vx_keys1@.contains(k));
                let j = choose|j: int| 0 <= j < vx_keys1@.len() && vx_keys1@[j] == k;
                assert(vx_same_table(vx_s1@[vx_keys1@[j]], vx_a0@[vx_keys1@[j]]));
            }
            assert forall|k: archetype::IdentifierRef<R>| vx_a0@.dom().contains(k) && vx_a0@[k].length == 0 implies #[trigger] vx_set.contains(k) by {
                assert(vx_keys1@.contains(k));
                let j = choose|j: int| 0 <= j < vx_keys1@.len() && vx_keys1@[j] == k;
                assert(identifiers_to_erase@.contains(vx_keys1@[j]));
            }
        }"""

SH_PRE3 = r"""let ghost vx_s2 = *self;
        proof {
            // no remaining type-cache entry points at a marked table
            assert forall|t: TypeId| #[trigger] vx_s2.type_id_lookup@.dom().contains(t) implies !vx_set.contains(vx_s2.type_id_lookup@[t]) by {
                if vx_set.contains(vx_s1.type_id_lookup@[t]) {
                    assert(vx_q2.contains(t));
                    let a = choose|a: int| 0 <= a < vx_q2.len() && vx_q2[a] == t;
                    assert(!vx_s2.type_id_lookup@.dom().contains(vx_q2[a]));
                }
            }
        }"""

SH_PRE4 = r"""let ghost vx_s3 = *self;
        proof {
            assert forall|b: Seq<u8>| #[trigger] vx_s3.foreign_identifier_lookup@.dom().contains(b) implies !vx_set.contains(vx_s3.foreign_identifier_lookup@[b]) by {
                if vx_set.contains(vx_s2.foreign_identifier_lookup@[b]) {
                    let a = choose|a: int| 0 <= a < vx_q3.len() && (#[trigger] vx_q3[a])@ == b;
                    assert(!vx_s3.foreign_identifier_lookup@.dom().contains(vx_q3[a]@));
                }
            }
        }"""

SH4_STEP = r"""proof {
                let a0 = vx_c;
                assert(archetype_bucket.key() == vx_ek[a0]);
                assert(self@.dom().contains(vx_ek[a0])) by {
                    assert(vx_ek.contains(vx_ek[a0]));
                    assert(vx_set.contains(vx_ek[a0]));
                    assert forall|a: int| 0 <= a < a0 implies vx_ek[a] != vx_ek[a0] by { }
                }
            }"""

SH_END = r"""proof {
            assert(self@ == vx_s4@);
            assert(vx_c == vx_ek.len());
            assert(vx_s3@.dom() == vx_a0@.dom());
            assert(identifiers_to_erase@ == vx_set);
            assert forall|k: archetype::IdentifierRef<R>| #![trigger self@.dom().contains(k)] #![trigger vx_a0@[k]] self@.dom().contains(k) == (vx_a0@.dom().contains(k) && vx_a0@[k].length > 0) by {
                if vx_a0@.dom().contains(k) && vx_a0@[k].length == 0 {
                    assert(vx_set.contains(k));
                    assert(vx_ek.contains(k));
                    let a = choose|a: int| 0 <= a < vx_ek.len() && vx_ek[a] == k;
                    assert(0 <= a < vx_c && vx_ek[a] == k);
                }
                if vx_a0@.dom().contains(k) && vx_a0@[k].length > 0 {
                    assert(!vx_set.contains(k));
                    assert(!vx_ek.contains(k));
                }
            }
            assert forall|k: archetype::IdentifierRef<R>| #[trigger] self@.dom().contains(k) implies
                self.foreign_identifier_lookup@.dom().contains(vx_key_bits(k)) && self.foreign_identifier_lookup@[vx_key_bits(k)] == k by {
                assert(vx_a0@.dom().contains(k));
                assert(vx_a0.foreign_identifier_lookup@[vx_key_bits(k)] == k);
                assert(!vx_set.contains(k));
            }
        }"""

SHRINK_HINTS = [
    Hint("start", "let ghost vx_a0 = *self; let ghost mut vx_ek = Seq::<archetype::IdentifierRef<R>>::empty(); let ghost mut vx_ek0 = vx_ek; let ghost mut vx_pre = *self; let ghost mut vx_c: int = 0;"),
    Hint("before", "proof { vx_pre = *self; vx_ek0 = vx_ek; assert(vx_keys1@.contains(vx_keys1@[vx_i1 as int])); }", anchor=r"let archetype_bucket = self\.raw_archetypes\.vx_nth_bucket\(vx_i1, vx_keys1\)"),
    Hint("after", "proof { vx_ek = vx_ek.push(archetype_bucket.key()); }", anchor=r"archetypes_to_erase\.push\(archetype_bucket\)"),
    Hint("before", SH1_STEP, anchor=r"vx_i1 \+= 1;"),
    Hint("before", SH_PRE2, anchor=r"let vx_v2 = "),
    Hint("after", "proof { vx_c = 0; }", anchor=r"let ghost vx_q2 = vx_v2@"),
    Hint("after", "proof { vx_c = vx_c + 1; }", anchor=r"self\.type_id_lookup\.remove\(&type_id\)"),
    Hint("before", SH_PRE3, anchor=r"let vx_v3 = "),
    Hint("after", "proof { vx_c = 0; }", anchor=r"let ghost vx_q3 = vx_v3@"),
    Hint("after", "proof { vx_c = vx_c + 1; }", anchor=r"self\.foreign_identifier_lookup\.remove\(slice\)"),
    Hint("before", SH_PRE4, anchor=r"let ghost vx_q4 = archetypes_to_erase@"),
    Hint("after", "proof { vx_c = 0; }", anchor=r"let ghost vx_q4 = archetypes_to_erase@"),
    Hint("after", "proof { vx_c = vx_c + 1; }", anchor=r"self\.raw_archetypes\.erase\(archetype_bucket\)"),
    Hint("before", SH4_STEP, anchor=r"unsafe \{\s*self\.raw_archetypes\.erase\(archetype_bucket\)"),
    Hint("before", "let ghost vx_s4 = *self;", anchor=r"self\.raw_archetypes\s*\.shrink_to\(0\)"),
    Hint("end", SH_END),
]

DE_STEP = r"""proof {
                        // the table just read went in under its own key; everything else is as before
                        let n = vx_y0.len() as int;
                        assert(vx_y0 == vx_prev.push(vx_new));
                        assert(vx_y0.drop_last() =~= vx_prev && vx_y0.last() == vx_new);
                        assert(archetypes@ == vx_t0.insert(vx_new.key(), vx_new));
                        assert forall|k: archetype::IdentifierRef<R>| archetypes@.dom().contains(k) implies (exists|j: int| 0 <= j < n && (#[trigger] vx_y0[j]).key() == k) by {
                            if k == vx_new.key() { assert(vx_y0[n - 1].key() == k); }
                            else {
                                assert(vx_t0.dom().contains(k));
                                let j = choose|j: int| 0 <= j < vx_prev.len() && (#[trigger] vx_prev[j]).key() == k;
                                assert(vx_y0[j] == vx_prev[j]);
                                assert(0 <= j < n && vx_y0[j].key() == k);
                            }
                        }
                        vx_prev = vx_y0;
                    }"""

ARCHS_SERDE_PRELUDE = r"""
// ---- R9/A10: the serde SeqAccess the archetypes visitor reads tables from.  Ghost state: the
// tables yielded so far and the sum of their lengths (each row owns a 16-byte identifier in live
// memory, so the sum fits usize: A5).
#[verifier::external_body]
#[verifier::accept_recursive_types(R)]
pub struct VxTableSeq<R: Registry> { p: PhantomData<R> }
#[verifier::external_body]
pub struct VxErr { _p: () }
impl<R: Registry> VxTableSeq<R> {
    pub uninterp spec fn yielded(&self) -> Seq<archetype::Archetype<R>>;
    pub uninterp spec fn total(&self) -> usize;
    /// elements left in the (finite) input
    pub uninterp spec fn remaining(&self) -> nat;
    #[verifier::external_body]
    pub fn vx_capacity_hint(&self) -> (n: usize) { unimplemented!() }
    #[verifier::external_body]
    pub fn vx_next_element(&mut self) -> (r: Result<Option<archetype::Archetype<R>>, VxErr>)
        ensures
            r is Ok && r->Ok_0 is Some ==> final(self).yielded() == old(self).yielded().push(r->Ok_0->0) && r->Ok_0->0.wf()
                && final(self).total() == old(self).total() + r->Ok_0->0.length && final(self).remaining() < old(self).remaining(),
            r is Ok && r->Ok_0 is None ==> final(self).yielded() == old(self).yielded() && final(self).total() == old(self).total(),
    { unimplemented!() }
}
#[verifier::external_body]
pub fn vx_custom_error() -> (e: VxErr) { unimplemented!() }

/// sum of the lengths of the tables read so far
pub open spec fn vx_sum_tables<R: Registry>(ts: Seq<archetype::Archetype<R>>) -> nat
    decreases ts.len()
{
    if ts.len() == 0 { 0 } else { vx_sum_tables(ts.drop_last()) + ts.last().length as nat }
}
pub open spec fn vx_keys_of<R: Registry>(ts: Seq<archetype::Archetype<R>>) -> Seq<archetype::IdentifierRef<R>> {
    Seq::new(ts.len(), |j: int| ts[j].key())
}
pub proof fn lemma_sum_tables_keys<R: Registry>(m: IMap<archetype::IdentifierRef<R>, archetype::Archetype<R>>, ts: Seq<archetype::Archetype<R>>)
    requires forall|j: int| 0 <= j < ts.len() ==> m[(#[trigger] ts[j]).key()] == ts[j],
    ensures vx_sum_keys(m, vx_keys_of(ts)) == vx_sum_tables(ts)
    decreases ts.len()
{
    if ts.len() > 0 {
        assert(vx_keys_of(ts).drop_last() =~= vx_keys_of(ts.drop_last()));
        assert(vx_keys_of(ts).last() == ts.last().key());
        lemma_sum_tables_keys(m, ts.drop_last());
    }
}
"""

def build(only=None, name="archs"):
    """`only`: names of Archetypes functions whose bodies are verified in this unit; every other
    extracted function is emitted with its contract and `external_body` (its body is verified in
    unit archs).  Used by unit archs_shrink: Archetypes::shrink_to_fit is kept in a file of its own
    because its `for x in Vec` loops pull more of vstd into the solver context, which made three
    older proofs of this unit unstable (solver budget, not semantics)."""
    u = arch.build()
    u.name = name
    u.text(PRELUDE)
    u.struct(AS, "Archetypes", field_rewrites=[
        (r"raw_archetypes:\s*RawTable<Archetype<R>>", "raw_archetypes: VxRawTable<R>", "R7: hashbrown RawTable of tables, keyed by table token"),
        (r"type_id_lookup:\s*HashMap<TypeId, archetype::IdentifierRef<R>, FnvBuildHasher>", "type_id_lookup: VxTypeMap<R>", "R7: hashbrown HashMap TypeId -> token"),
        (r"foreign_identifier_lookup:\s*HashMap<&'static \[u8\], archetype::IdentifierRef<R>, FnvBuildHasher>", "foreign_identifier_lookup: VxBytesMap<R>", "R7: hashbrown HashMap identifier bytes -> token"),
    ])
    u.text(SPEC)
    u.text(CLEAR_SPEC)
    PRE = [("pre.archs_wf", "old(self).wf()")]
    u.impl("impl<R> Archetypes<R> where R: Registry", [
        Fn(AS, IMPL, "new", ret="r",
           ensures=[("C13.archs.new_wf", "r.wf()"), ("C01.archs.new_empty", "r@ == IMap::<archetype::IdentifierRef<R>, archetype::Archetype<R>>::empty()")],
           props=["C13", "C01"]),
        Fn(AS, IMPL, "with_capacity", ret="r",
           rewrites=[(r"RawTable::with_capacity\(capacity\)", "VxRawTable::with_capacity(capacity)", "R7"),
                     (r"type_id_lookup: HashMap::with_capacity_and_hasher\(capacity, FnvBuildHasher::default\(\)\)", "type_id_lookup: VxTypeMap::vx_with_capacity(capacity)", "R7"),
                     (r"foreign_identifier_lookup: HashMap::with_capacity_and_hasher\(\s*capacity,\s*FnvBuildHasher::default\(\),?\s*\)", "foreign_identifier_lookup: VxBytesMap::vx_with_capacity(capacity)", "R7")],
           ensures=[("C13.archs.new_wf", "r.wf()"), ("C01.archs.new_empty", "r@ == IMap::<archetype::IdentifierRef<R>, archetype::Archetype<R>>::empty()")],
           props=["C13", "C01"]),
        Fn(AS, IMPL, "get", ret="r",
           ensures=[("archs.get", "r == (if self@.dom().contains(identifier) { Some(&self@[identifier]) } else { None::<&archetype::Archetype<R>> })")],
           props=["C13", "C02"]),
        Fn(AS, IMPL, "get_mut", ret="r",
           ensures=[("archs.get_mut.some", "r is Some == old(self)@.dom().contains(identifier)"),
                    ("archs.get_mut.frame", "r is Some ==> *r->0 == old(self)@[identifier] && final(self)@ == old(self)@.insert(identifier, *final(r->0))"),
                    ("archs.get_mut.none", "r is None ==> final(self)@ == old(self)@"),
                    ("archs.get_mut.lookups", "final(self).foreign_identifier_lookup == old(self).foreign_identifier_lookup && final(self).type_id_lookup == old(self).type_id_lookup")],
           props=["C13", "C02"]),
        Fn(AS, IMPL, "get_unchecked_mut", ret="r",
           requires=[("pre.safety_identifier_stored", "old(self)@.dom().contains(identifier)")],
           ensures=[("C13.get_unchecked_mut.value", "*r == old(self)@[identifier]"),
                    ("C13.get_unchecked_mut.frame", "final(self)@ == old(self)@.insert(identifier, *final(r))"),
                    ("archs.get_unchecked_mut.lookups", "final(self).foreign_identifier_lookup == old(self).foreign_identifier_lookup && final(self).type_id_lookup == old(self).type_id_lookup")],
           props=["C13", "C05", "C02"]),
        Fn(AS, IMPL, "get_with_foreign", ret="r",
           requires=[("pre.archs_wf", "self.wf()")],
           ensures=[("C13.get_with_foreign", "r is Some == (exists|k: archetype::IdentifierRef<R>| self@.dom().contains(k) && vx_key_bits(k) == vx_key_bits(identifier))"),
                    ("C13.get_with_foreign.value", "r is Some ==> self@.dom().contains(r->0.key()) && *r->0 == self@[r->0.key()] && vx_key_bits(r->0.key()) == vx_key_bits(identifier)")],
           props=["C13", "C10", "C16"]),
        Fn(AS, IMPL, "get_mut_with_foreign", ret="r",
           requires=PRE,
           ensures=[("C13.get_mut_with_foreign", "r is Some == (exists|k: archetype::IdentifierRef<R>| old(self)@.dom().contains(k) && vx_key_bits(k) == vx_key_bits(identifier))"),
                    ("C13.get_mut_with_foreign.value", "r is Some ==> old(self)@.dom().contains(r->0.key()) && *r->0 == old(self)@[r->0.key()] && vx_key_bits(r->0.key()) == vx_key_bits(identifier) && final(self)@ == old(self)@.insert(r->0.key(), *final(r->0))"),
                    ("C13.get_mut_with_foreign.none", "r is None ==> final(self)@ == old(self)@"),
                    ("archs.get_mut_with_foreign.lookups", "final(self).foreign_identifier_lookup == old(self).foreign_identifier_lookup && final(self).type_id_lookup == old(self).type_id_lookup")],
           props=["C13", "C10"]),
        Fn(AS, IMPL, "get_mut_or_insert_new", ret="r",
           requires=PRE,
           ensures=lookup_ensures("identifier_buffer.spec_bits()") + lookups_ens("old(self)@.dom().insert(r.key())"),
           hints=[Hint("start", "proof { vx_axiom_ref_bits(&identifier_buffer); vx_axiom_fresh_buffer(&self.raw_archetypes, &identifier_buffer); }")],
           props=["C13", "C01"]),
        Fn(AS, IMPL, "get_mut_or_insert_new_for_entity", ret="r", generics="<E, P>", where="",
           requires=PRE,
           ensures=lookup_ensures("vx_bits_of::<E>()") + lookups_ens("old(self)@.dom().insert(r.key())"),
           hints=[Hint("after", "proof { vx_axiom_ref_bits(&identifier_buffer); vx_axiom_fresh_buffer(&self.raw_archetypes, &identifier_buffer); }",
                       anchor=r"let identifier_buffer = vx_create_archetype_identifier")],
           props=["C13", "C01"]),
        Fn(AS, IMPL, "insert", ret="r",
           requires=PRE + [("pre.table_wf", "archetype.wf()")],
           ensures=[("C11.insert.duplicate_rejected", "(exists|k: archetype::IdentifierRef<R>| old(self)@.dom().contains(k) && vx_key_bits(k) == vx_key_bits(archetype.key())) == (r is Err)"),
                    ("C11.insert.err_unchanged", "r is Err ==> final(self)@ == old(self)@ && r == Err::<(), Archetype<R>>(archetype)"),
                    ("C13.insert.ok", "r is Ok ==> final(self)@ == old(self)@.insert(archetype.key(), archetype)"),
                    ("C13.archs.keyed", "final(self).inv_keyed()")] + lookups_ens("final(self)@.dom()"),
           hints=[Hint("start", "proof { vx_axiom_fresh_table(&self.raw_archetypes, &archetype); }")],
           props=["C13", "C11", "C10", "C16", "C06", "C01"]),
        Fn(AS, IMPL, "clear",
           requires=[("pre.archs_keyed", "old(self).inv_keyed()"),
                     ("pre.tables_ok", "vx_tables_ok(old(self)@, old(entity_allocator))"),
                     ("pre.alloc_wf", "old(entity_allocator).wf()")],
           ensures=[("C01.clear.dom", "final(self)@.dom() == old(self)@.dom()"),
                    ("C01.clear.tables_empty", "forall|k: archetype::IdentifierRef<R>| final(self)@.dom().contains(k) ==> (#[trigger] final(self)@[k]).wf() && final(self)@[k].length == 0 && final(self)@[k].key() == k"),
                    ("C13.clear.alloc_wf", "final(entity_allocator).wf()"),
                    ("C02.clear.released", "forall|i: entity::Identifier| final(entity_allocator).resolves(i) == (old(entity_allocator).resolves(i) && !vx_stored(old(self)@, i))"),
                    ("frame.slots_len", "final(entity_allocator).slots@.len() == old(entity_allocator).slots@.len()"),
                    ("archs.clear.lookups", "final(self).foreign_identifier_lookup == old(self).foreign_identifier_lookup && final(self).type_id_lookup == old(self).type_id_lookup")],
           loops=[Loop(invariant=[
               ("clear.enum", "vx_keys1@.len() == vx_n1 && vx_i1 <= vx_n1 && self.raw_archetypes.enumerates(vx_keys1@) && vx_a0.raw_archetypes.enumerates(vx_keys1@)"),
               ("clear.dom", "self@.dom() == vx_a0@.dom()"),
               ("clear.lookups", "self.foreign_identifier_lookup == vx_a0.foreign_identifier_lookup && self.type_id_lookup == vx_a0.type_id_lookup"),
               ("clear.done", "forall|j: int| 0 <= j < vx_i1 ==> (#[trigger] self@[vx_keys1@[j]]).wf() && self@[vx_keys1@[j]].length == 0 && self@[vx_keys1@[j]].key() == vx_keys1@[j]"),
               ("clear.todo", "forall|j: int| vx_i1 <= j < vx_n1 ==> (#[trigger] self@[vx_keys1@[j]]) == vx_a0@[vx_keys1@[j]]"),
               ("clear.todo_agrees", "forall|j: int| vx_i1 <= j < vx_n1 ==> (#[trigger] vx_a0@[vx_keys1@[j]]).agrees(entity_allocator)"),
               ("clear.alloc_wf", "entity_allocator.wf()"),
               ("clear.released", "forall|i: entity::Identifier| entity_allocator.resolves(i) == (vx_alloc0.resolves(i) && !vx_stored_prefix(vx_a0@, vx_keys1@, vx_i1 as int, i))"),
               ("clear.values", "forall|i: entity::Identifier| entity_allocator.resolves(i) ==> entity_allocator.view()[i] == vx_alloc0.view()[i]"),
               ("clear.slots_len", "entity_allocator.slots@.len() == vx_alloc0.slots@.len()"),
               ("clear.pre", "vx_a0.inv_keyed() && vx_tables_ok(vx_a0@, &vx_alloc0)"),
           ], decreases="vx_n1 - vx_i1")],
           hints=[Hint("start", "let ghost vx_a0 = *self; let ghost vx_alloc0 = *entity_allocator;"),
                  Hint("before", "proof { assert forall|j: int| 0 <= j < vx_n1 implies (#[trigger] vx_a0@[vx_keys1@[j]]).agrees(entity_allocator) by { assert(vx_keys1@.contains(vx_keys1@[j])); assert(vx_a0@.dom().contains(vx_keys1@[j])); } }",
                       anchor=r"while vx_i1 < vx_n1"),
                  Hint("before", "let ghost vx_pre_alloc = *entity_allocator; let ghost vx_k = vx_keys1@[vx_i1 as int]; proof { assert(vx_a0@.dom().contains(vx_k)) by { assert(vx_keys1@.contains(vx_k)); } }",
                       anchor=r"unsafe \{ archetype\.clear\(entity_allocator\) \}"),
                  Hint("after", CLEAR_BODY_PROOF, anchor=r"archetype\.clear\(entity_allocator\)"),
                  Hint("end", CLEAR_END_PROOF)],
           props=["C01", "C02", "C13"]),
    ])
    CIMPL = r"^impl<R> Archetypes<R>\s*where\s*R: registry::Clone,"
    u.impl("impl<R> Archetypes<R> where R: Registry", [
        Fn(AS, CIMPL, "clone_from", ret="r", ret_type="VxKeyMap<R>",
           requires=[("pre.archs_wf", "old(self).wf()"), ("pre.source_wf", "source.wf()"),
                     ("pre.tables_wf", "vx_tables_wf(old(self)@) && vx_tables_wf(source@)")],
           ensures=[("C10.clone_from.key_map", "vx_is_key_map(r@, source@, final(self)@)"),
                    ("C13.clone_from.single_table", "vx_single_table(final(self)@)"),
                    ("C13.clone_from.wf", "final(self).wf()")],
           loops=[
               Loop(invariant=[
                   ("cf1.enum", "vx_keys1@.len() == vx_n1 && vx_i1 <= vx_n1 && source.raw_archetypes.enumerates(vx_keys1@)"),
                   ("cf1.wf", "self.wf() && vx_tables_wf(self@) && source.wf() && vx_tables_wf(source@) && vx_single_table(source@)"),
                   ("cf1.copied", "forall|j: int| 0 <= j < vx_i1 ==> vx_copied(identifier_map@, self@, source@, #[trigger] vx_keys1@[j])"),
                   ("cf1.map_dom", "forall|k: archetype::IdentifierRef<R>| #[trigger] identifier_map@.dom().contains(k) ==> (exists|j: int| 0 <= j < vx_i1 && vx_keys1@[j] == k)"),
               ], decreases="vx_n1 - vx_i1"),
               Loop(invariant=[
                   ("cf2.enum", "vx_keys2@.len() == vx_n2 && vx_i2 <= vx_n2 && self.raw_archetypes.enumerates(vx_keys2@) && vx_m1.raw_archetypes.enumerates(vx_keys2@)"),
                   ("cf2.frame", "self@.dom() == vx_m1@.dom() && self.foreign_identifier_lookup == vx_m1.foreign_identifier_lookup && self.type_id_lookup == vx_m1.type_id_lookup"),
                   ("cf2.done", "forall|j: int| 0 <= j < vx_i2 ==> (#[trigger] self@[vx_keys2@[j]]).wf() && self@[vx_keys2@[j]].key() == vx_keys2@[j] && (if cloned_archetype_identifiers@.contains(vx_keys2@[j]) { self@[vx_keys2@[j]] == vx_m1@[vx_keys2@[j]] } else { self@[vx_keys2@[j]].length == 0 })"),
                   ("cf2.todo", "forall|j: int| vx_i2 <= j < vx_n2 ==> (#[trigger] self@[vx_keys2@[j]]) == vx_m1@[vx_keys2@[j]]"),
                   ("cf2.m1", "vx_m1.wf() && vx_tables_wf(vx_m1@)"),
               ], decreases="vx_n2 - vx_i2"),
               Loop(invariant=[
                   ("cf3.enum", "vx_keys3@.len() == vx_n3 && vx_i3 <= vx_n3 && source.type_id_lookup.enumerates(vx_keys3@)"),
                   ("cf3.frame", "self.raw_archetypes == vx_m2.raw_archetypes && self.foreign_identifier_lookup == vx_m2.foreign_identifier_lookup"),
                   ("cf3.type_cache", "self.inv_type_cache(self@.dom())"),
                   ("cf3.map_dom", "forall|k: archetype::IdentifierRef<R>| #[trigger] source@.dom().contains(k) ==> identifier_map@.dom().contains(k)"),
                   ("cf3.map_in", "forall|k: archetype::IdentifierRef<R>| #[trigger] source@.dom().contains(k) ==> self@.dom().contains(identifier_map@[k])"),
                   ("cf3.map_bits", "forall|k: archetype::IdentifierRef<R>| #[trigger] source@.dom().contains(k) ==> vx_key_bits(identifier_map@[k]) == vx_key_bits(k)"),
                   ("cf3.source", "source.wf()"),
               ], decreases="vx_n3 - vx_i3"),
           ],
           hints=[
               Hint("start", "let ghost vx_a0 = *self; let ghost mut vx_m1 = *self; let ghost mut vx_m2 = *self; let ghost mut vx_vals = ISet::<archetype::IdentifierRef<R>>::empty(); let ghost mut vx_k2 = Seq::<archetype::IdentifierRef<R>>::empty(); proof { source.lemma_single_table(); }"),
               Hint("after", "let ghost vx_s1 = *self; let ghost vx_map1 = identifier_map@; proof { self.lemma_single_table(); assert(source@.dom().contains(vx_keys1@[vx_i1 as int])) by { assert(vx_keys1@.contains(vx_keys1@[vx_i1 as int])); } }",
                    anchor=r"let source_archetype = source\.raw_archetypes\.vx_nth\(vx_i1, vx_keys1\)"),
               Hint("before", CF1_PROOF, anchor=r"vx_i1 \+= 1;"),
               Hint("before", "proof { vx_m1 = *self; vx_vals = cloned_archetype_identifiers@; vx_k2 = vx_keys2@; assert forall|j: int| 0 <= j < vx_n2 implies (#[trigger] self@[vx_keys2@[j]]) == vx_m1@[vx_keys2@[j]] by { } }", anchor=r"while vx_i2 < vx_n2"),
               Hint("before", "let ghost vx_s2 = *self; proof { assert(vx_m1@.dom().contains(vx_keys2@[vx_i2 as int])) by { assert(vx_keys2@.contains(vx_keys2@[vx_i2 as int])); } }",
                    anchor=r"let archetype = self\.raw_archetypes\.vx_nth_mut\(vx_i2, vx_keys2\)"),
               Hint("before", CF2_PROOF, anchor=r"vx_i2 \+= 1;"),
               Hint("before", CF3_PRE, anchor=r"while vx_i3 < vx_n3"),
               Hint("after", CF3_PROOF, anchor=r"let \(type_id, identifier\) = source\.type_id_lookup\.vx_nth_pair\(vx_i3, vx_keys3\)"),
               Hint("end", CF_END),
           ],
           props=["C10", "C13", "C01", "C04", "C16"]),
    ])

    FILTER = lambda m, k: (r"for (\w+) in self\s*\.%s\s*\.iter\(\)\s*\.filter_map\(\|\(&%s, identifier\)\| \{\s*if identifiers_to_erase\.contains\(identifier\) \{\s*Some\(%s\)\s*\} else \{\s*None\s*\}\s*\}\)\s*\.collect::<Vec<_>>\(\)" % (m, k, k),
                           "let vx_v# = self.%s.vx_keys_with_value_in(&identifiers_to_erase); let ghost vx_q# = vx_v#@; for \\1 in vx_it#: vx_v#" % m,
                           "R5h: keys of a hashbrown map whose value lies in a set, collected into a Vec (assumed-contract call); the `for` over that Vec gets an iterator name for its invariant")
    u.text(SHRINK_SPEC)
    if only and "shrink_to_fit" in only:
      u.impl("impl<R> Archetypes<R> where R: Registry", [
          Fn(AS, IMPL, "shrink_to_fit",
             rewrites=[(r"HashSet::with_hasher\(FnvBuildHasher::default\(\)\)", "VxTokenSet::vx_new()", "R7: hashbrown HashSet of table tokens"),
                       (r"let mut archetypes_to_erase = Vec::new\(\);", "let mut archetypes_to_erase: Vec<VxBucket<R>> = Vec::new();", "type ascription (the element type is inferred from a later push in rustc)"),
                       (r"let archetype = unsafe \{ archetype_bucket\.as_mut\(\) \};", "let archetype = unsafe { self.raw_archetypes.vx_bucket_mut(&archetype_bucket) };", "R7c: Bucket::as_mut -> access through the table the bucket belongs to"),
                       tuple(x.replace("#", "2") for x in FILTER("type_id_lookup", "type_id")),
                       tuple(x.replace("#", "3") for x in FILTER("foreign_identifier_lookup", "slice")),
                       (r"for archetype_bucket in archetypes_to_erase \{", "let ghost vx_q4 = archetypes_to_erase@; for archetype_bucket in vx_it4: archetypes_to_erase {", "iterator name and ghost snapshot for the loop invariant"),
                       ],
             requires=[("pre.archs_wf", "old(self).wf()"), ("pre.tables_wf", "vx_tables_wf(old(self)@)")],
             ensures=[("C13.shrink.wf", "final(self).wf()"),
                      ("C01.shrink.dom", "forall|k: archetype::IdentifierRef<R>| #![trigger final(self)@.dom().contains(k)] #![trigger old(self)@[k]] final(self)@.dom().contains(k) == (old(self)@.dom().contains(k) && old(self)@[k].length > 0)"),
                      ("C01.shrink.tables", "forall|k: archetype::IdentifierRef<R>| final(self)@.dom().contains(k) ==> (#[trigger] final(self)@[k]).length == old(self)@[k].length && final(self)@[k].ids() == old(self)@[k].ids() && final(self)@[k].rows() == old(self)@[k].rows() && final(self)@[k].key() == k && final(self)@[k].wf()")],
             loops=SHRINK_LOOPS,
             hints=SHRINK_HINTS,
             attrs=["#[verifier::loop_isolation(false)]"],
             props=["C01", "C13", "C05"]),
      ])

    ASD = "src/archetypes/impl_serde.rs"
    u.text(ARCHS_SERDE_PRELUDE)
    u.impl("impl<R> Archetypes<R> where R: Registry", [
        Fn(ASD, r"^\s*impl<'a, 'de, R> Visitor<'de> for ArchetypesVisitor<'a, 'de, R>", "visit_seq", ret="r",
           emit_name="vx_visit_seq", vis="pub", generics="", where="",
           params="len: &mut usize, seq: &mut VxTableSeq<R>", ret_type="Result<Archetypes<R>, VxErr>",
           rewrites=[(r"Archetypes::with_capacity\(cmp::min\(seq\.size_hint\(\)\.unwrap_or\(0\), 4096\)\)", "Archetypes::with_capacity(seq.vx_capacity_hint())",
                      "R9: SeqAccess::size_hint clamp as an assumed-contract call (any capacity)"),
                     (r"seq\.next_element::<Archetype<R>>\(\)\?", "seq.vx_next_element()?", "R9: SeqAccess::next_element::<Archetype<R>> as an assumed-contract call (A10; K-deser-arch decides the element visitor, bounded)"),
                     (r"\*self\.len", "*len", "the visitor's `len: &mut usize` field is passed as a parameter"),
                     (r"de::Error::custom\(format_args!\(.*?\)\)\);", "vx_custom_error());", "R10c: error-message construction dropped (the value of the error is not specified)"),
                     ],
           requires=[("pre.len_zero_based", "*old(len) == old(seq).total() && *old(len) == 0"), ("pre.seq_fresh", "old(seq).yielded().len() == 0")],
           ensures=[("C13.deserialize.wf", "r is Ok ==> r->Ok_0.wf() && vx_tables_wf(r->Ok_0@)"),
                    ("C13.deserialize.single_table", "r is Ok ==> vx_single_table(r->Ok_0@) && forall|k: archetype::IdentifierRef<R>| r->Ok_0@.dom().contains(k) ==> (#[trigger] r->Ok_0@[k]).key() == k"),
                    ("C11.deserialize.tables_kept", "r is Ok ==> forall|j: int| 0 <= j < final(seq).yielded().len() ==> r->Ok_0@.dom().contains((#[trigger] final(seq).yielded()[j]).key()) && r->Ok_0@[final(seq).yielded()[j].key()] == final(seq).yielded()[j]"),
                    ("C11.deserialize.nothing_else", "r is Ok ==> forall|k: archetype::IdentifierRef<R>| r->Ok_0@.dom().contains(k) ==> (exists|j: int| 0 <= j < final(seq).yielded().len() && (#[trigger] final(seq).yielded()[j]).key() == k)"),
                    ("C11.deserialize.distinct_component_sets", "r is Ok ==> forall|a: int, b: int| 0 <= a < b < final(seq).yielded().len() ==> vx_key_bits((#[trigger] final(seq).yielded()[a]).key()) != vx_key_bits((#[trigger] final(seq).yielded()[b]).key())"),
                    ("C01.deserialize.len", "r is Ok ==> *final(len) == final(seq).total()"),
                    ("C13.deserialize.len_is_row_count", "r is Ok ==> *final(len) == vx_total_rows(r->Ok_0@)")],
           loops=[Loop(invariant=[
               ("de.prev", "vx_prev == seq.yielded()"),
               ("de.wf", "archetypes.wf() && vx_tables_wf(archetypes@)"),
               ("de.len", "*len == seq.total()"),
               ("de.sum", "*len == vx_sum_tables(seq.yielded())"),
               ("de.kept", "forall|j: int| 0 <= j < seq.yielded().len() ==> archetypes@.dom().contains((#[trigger] seq.yielded()[j]).key()) && archetypes@[seq.yielded()[j].key()] == seq.yielded()[j]"),
               ("de.nothing_else", "forall|k: archetype::IdentifierRef<R>| archetypes@.dom().contains(k) ==> (exists|j: int| 0 <= j < seq.yielded().len() && (#[trigger] seq.yielded()[j]).key() == k)"),
               ("de.distinct", "forall|a: int, b: int| 0 <= a < b < seq.yielded().len() ==> vx_key_bits((#[trigger] seq.yielded()[a]).key()) != vx_key_bits((#[trigger] seq.yielded()[b]).key())"),
           ], decreases="seq.remaining()")],
           hints=[Hint("start", "let ghost mut vx_prev = seq.yielded();"),
                  Hint("before", r"""proof { archetypes.lemma_single_table();
                      let ts = seq.yielded(); let ks = vx_keys_of(ts);
                      assert forall|a: int, b: int| 0 <= a < b < ks.len() implies ks[a] != ks[b] by { assert(vx_key_bits(ts[a].key()) != vx_key_bits(ts[b].key())); }
                      assert forall|k: archetype::IdentifierRef<R>| archetypes@.dom().contains(k) == ks.contains(k) by {
                          if archetypes@.dom().contains(k) { let j = choose|j: int| 0 <= j < ts.len() && (#[trigger] ts[j]).key() == k; assert(ks[j] == k); }
                          if ks.contains(k) { let j = choose|j: int| 0 <= j < ks.len() && ks[j] == k; assert(archetypes@.dom().contains(ts[j].key())); }
                      }
                      lemma_sum_tables_keys(archetypes@, ts);
                      lemma_total_rows(archetypes@, ks); }""", anchor=r"Ok\(archetypes\)"),
                  Hint("before", "let ghost vx_y0 = seq.yielded(); let ghost vx_t0 = archetypes@; let ghost vx_new = archetype;", anchor=r"\*len \+= archetype\.len\(\);"),
                  Hint("after_block", DE_STEP, anchor=r"if let Err\(archetype\) = archetypes\.insert\(archetype\)")],
           props=["C11", "C13", "C06", "C01"]),
    ])


    u.text(ARCHS_SER_PRELUDE)
    u.impl("impl<R> Archetypes<R> where R: Registry", [
        Fn(ASD, r"^impl<R> Serialize for Archetypes<R>", "serialize", ret="r", vis="pub", generics="", where="",
           params="&self, serializer: VxSeqSerializer", ret_type="Result<VxSeqOk, VxErr>",
           rewrites=[(r"\bself\.iter\(\)", "self.vx_iter()", "R14: Archetypes::iter() over the hashbrown table -> assumed-contract iterator (every stored table once)")],
           ensures=[("C06.archetypes.serialize_every_table", "r is Ok ==> exists|ks: Seq<archetype::IdentifierRef<R>>| self.raw_archetypes.enumerates(ks) && r->Ok_0.elems() == Seq::new(ks.len(), |j: int| vx_ser_table(self@[ks[j]]))")],
           props=["C06", "C01"]),
    ])
    AE = "src/archetypes/impl_eq.rs"
    EQIMPL = r"^impl<R> cmp::PartialEq for Archetypes<R>"
    u.impl("impl<R> Archetypes<R> where R: Registry", [
        Fn(AE, EQIMPL, "eq", ret="b", vis="pub",
           rewrites=[(r"self\.iter\(\)\.all\(\|archetype\| \{\s*other\s*\.get_with_foreign\(\s*unsafe \{ archetype\.identifier\(\) \},?\s*\)\s*\.map_or\((\w+), \|other_archetype\|\s*unsafe \{\s*archetype\.component_eq\(other_archetype\)\s*\}\)\s*\}\)",
                      "let vx_keys1 = self.raw_archetypes.vx_keys(); let vx_n1 = self.raw_archetypes.vx_len(vx_keys1); let mut vx_i1: usize = 0;\n"
                      "        while vx_i1 < vx_n1 {\n"
                      "            let archetype = self.raw_archetypes.vx_nth(vx_i1, vx_keys1);\n"
                      "            if !(match other.get_with_foreign(unsafe { archetype.identifier() }) { Some(other_archetype) => unsafe { vx_component_eq(archetype, other_archetype) }, None => \\1 }) { return false; }\n"
                      "            vx_i1 += 1;\n"
                      "        }\n"
                      "        return true;",
                      "R14/R5g: `self.iter().all(|t| P(t))` over the hashbrown table -> index loop over a ghost enumeration of its keys that returns false at the first element failing P; `Option::map_or(false, f)` -> the match it is defined to be; Archetype::component_eq -> assumed-contract call (K-eq)")],
           requires=[("pre.archs_wf", "self.wf()"), ("pre.other_wf", "other.wf()")],
           ensures=[("C16.archetypes_eq", "b == (self.raw_archetypes.count() == other.raw_archetypes.count() && forall|k: archetype::IdentifierRef<R>| self@.dom().contains(k) ==> vx_has_equal_partner(#[trigger] self@[k], other@))")],
           loops=[Loop(invariant=[
               ("eq.enum", "vx_keys1@.len() == vx_n1 && vx_i1 <= vx_n1 && self.raw_archetypes.enumerates(vx_keys1@)"),
               ("eq.wf", "self.wf() && other.wf() && vx_single_table(other@)"),
               ("eq.count", "self.raw_archetypes.count() == other.raw_archetypes.count()"),
               ("eq.done", "forall|j: int| 0 <= j < vx_i1 ==> vx_has_equal_partner(#[trigger] self@[vx_keys1@[j]], other@)"),
           ], decreases="vx_n1 - vx_i1")],
           hints=[Hint("start", "proof { other.lemma_single_table(); }"),
                  Hint("after", EQ_STEP, anchor=r"let archetype = self\.raw_archetypes\.vx_nth\(vx_i1, vx_keys1\)"),
                  Hint("before", EQ_END, anchor=r"return true;")],
           props=["C16"]),
    ])
    u.text(EQ_LEMMAS)
    u.for_rewrites += [
        (r"for (\w+) in source\.iter\(\)",
         "let vx_keys# = source.raw_archetypes.vx_keys(); let vx_n# = source.raw_archetypes.vx_len(vx_keys#); let mut vx_i#: usize = 0;",
         "vx_i# < vx_n#", r"let \1 = source.raw_archetypes.vx_nth(vx_i#, vx_keys#);", "vx_i# += 1;",
         "R14: `for t in source.iter()` over the hashbrown table -> index loop over a ghost enumeration of its keys"),
        (r"for \(&type_id, identifier\) in &source\.type_id_lookup",
         "let vx_keys# = source.type_id_lookup.vx_keys(); let vx_n# = source.type_id_lookup.vx_len(vx_keys#); let mut vx_i#: usize = 0;",
         "vx_i# < vx_n#", "let (type_id, identifier) = source.type_id_lookup.vx_nth_pair(vx_i#, vx_keys#);", "vx_i# += 1;",
         "R14: iteration over the TypeId cache -> index loop over a ghost enumeration of its entries"),
    ]
    u.for_rewrites += [
        (r"for archetype_bucket in unsafe \{ self\.raw_archetypes\.iter\(\) \}",
         "let vx_keys# = self.raw_archetypes.vx_keys(); let vx_n# = self.raw_archetypes.vx_len(vx_keys#); let mut vx_i#: usize = 0;",
         "vx_i# < vx_n#", "let archetype_bucket = self.raw_archetypes.vx_nth_bucket(vx_i#, vx_keys#);", "vx_i# += 1;",
         "R14: the unsafe raw bucket iterator of the hashbrown table -> index loop over a ghost enumeration of its keys"),
        (r"for (\w+) in self\.iter_mut\(\)",
         "let vx_keys# = self.raw_archetypes.vx_keys(); let vx_n# = self.raw_archetypes.vx_len(vx_keys#); let mut vx_i#: usize = 0;",
         "vx_i# < vx_n#", r"let \1 = self.raw_archetypes.vx_nth_mut(vx_i#, vx_keys#);", "vx_i# += 1;",
         "R14: `for t in self.iter_mut()` over the hashbrown table -> index loop over a ghost enumeration of its keys (every element once, unspecified order)"),
    ]
    u.pre_rewrites += [
        (r"HashMap::with_capacity_and_hasher\(self\.raw_archetypes\.len\(\), FnvBuildHasher::default\(\)\)", "VxKeyMap::vx_with_capacity(self.raw_archetypes.len())", "R7: the key map is a hashbrown HashMap token -> token"),
        (r"archetype\.clone_from\(source_archetype\);", "vx_archetype_clone_from(archetype, source_archetype);", "R6: Archetype::clone_from (assumed contract, K-clone)"),
        (r"source_archetype\.clone\(\)", "vx_archetype_clone(source_archetype)", "R6: Archetype::clone (assumed contract, K-clone)"),
        (r"#\[allow\(unused_must_use\)\]", "", "attribute dropped"),
        (r"identifier_map\s*\.values\(\)\s*\.collect::<HashSet<_, FnvBuildHasher>>\(\)", "identifier_map.vx_values()", "R7: set of the key map's values"),
        (r"drop\(cloned_archetype_identifiers\);", "", "explicit drop of the value set dropped (scope end)"),
        (r"TypeId::of::<E>\(\)", "vx_type_id::<E>()", "R8: TypeId of the canonical entity type"),
        (r"R::create_archetype_identifier\(\)", "vx_create_archetype_identifier::<R, E>()", "R6/R8: canonical identifier of the entity type (K-bits / type-level)"),
        (r"\braw_archetypes\s*\.find\(hash, Self::equivalent_identifier\(\*identifier\)\)\s*\{\s*Some\(archetype_bucket\) => unsafe \{ archetype_bucket\.as_mut\(\) \},",
         "raw_archetypes.vx_get_mut(hash, *identifier) { Some(archetype_bucket) => archetype_bucket,",
         "R7b: RawTable::find followed by Bucket::as_mut is get_mut"),
        (r"Self::equivalent_identifier\(\*?(\w+)\)", r"\1", "R7: the equality closure passed to RawTable is replaced by the key it compares with"),
        (r",\s*Self::make_hasher\(&self\.hash_builder\),?\s*\)", ")", "R7: the re-hash closure passed to RawTable is dropped"),
        (r"Self::make_hash\(", "vx_make_hash(", "R7: FNV hash of the identifier token (assumed function)"),
        (r"\braw_archetypes\s*\.get\(", "raw_archetypes.vx_get(", "R7"),
        (r"\braw_archetypes\s*\.get_mut\(", "raw_archetypes.vx_get_mut(", "R7"),
        (r"\braw_archetypes\s*\.insert_entry\(", "raw_archetypes.vx_insert_entry(", "R7"),
        (r"\braw_archetypes\s*\.insert\(", "raw_archetypes.vx_insert(", "R7"),
        (r"RawTable::new\(\)", "VxRawTable::new()", "R7"),
        (r"type_id_lookup: HashMap::default\(\)", "type_id_lookup: VxTypeMap::default()", "R7"),
        (r"foreign_identifier_lookup: HashMap::default\(\)", "foreign_identifier_lookup: VxBytesMap::default()", "R7"),
        (r"unsafe \{ identifier_buffer\.as_slice\(\) \}", r"vx_as_bytes(&identifier_buffer)", "R7: identifier bytes as the ghost key of the bytes lookup"),
        (r"unsafe \{ identifier\.as_slice\(\) \}", r"vx_as_bytes_ref(identifier)", "R7: identifier bytes as the ghost key of the bytes lookup"),
        (r"&\*\(identifier_buffer\.as_slice\(\) as \*const \[u8\]\)", r"vx_as_bytes(&identifier_buffer)", "R7: 'static slice of the identifier bytes as the ghost key"),
        (r"&\*\(identifier\.as_slice\(\) as \*const \[u8\]\)", r"vx_as_bytes_ref(identifier)", "R7: 'static slice of the identifier bytes as the ghost key"),
        (r"foreign_identifier_lookup\s*\.get\(", "foreign_identifier_lookup.vx_get(", "R7"),
        (r"foreign_identifier_lookup\s*\.insert_unique_unchecked\(", "foreign_identifier_lookup.vx_insert_unique_unchecked(", "R7"),
    ]
    if only:
        for part in u.parts:
            if part[0] == "impl":
                for f in part[2]:
                    if f.name not in only:
                        f.external_body = True
            elif part[0] == "fn" and part[1].name not in only:
                part[1].external_body = True
        u.contracts_from = "archs"
    return u
