"""Unit V-world: `World` operations over the allocator and the archetype tables
(src/world/mod.rs, src/world/impl_default.rs, src/entities/mod.rs Batch).

`Archetypes<R>` (hashbrown tables, src/archetypes/mod.rs) is an external type here: its abstract
value is a map key -> Archetype, and the lookup functions carry *assumed* contracts (A3, listed
in evidence as assumed_contracts).  Everything in `World` itself is extracted and verified
against the reference-map semantics of C01 / C13 / C15 / C18.
"""
from ..vxlib import Unit, Fn, Loop, Hint
from . import arch

W = "src/world/mod.rs"
WD = "src/world/impl_default.rs"
EN = "src/entities/mod.rs"
WIMPL = r"^impl<Registry, Resources> World<Registry, Resources>\s*where\s*Registry: registry::Registry,\s*\{"

WORLD_PRELUDE = r'''
pub mod resource {
    pub struct Null;
}

// ---- abstract component set of an entity type / of an archetype key (R8: type-level selection)
/// the component set of a table / entity type: the bytes of its archetype identifier
pub type VxBits = Seq<u8>;
pub uninterp spec fn vx_bits_of<E>() -> VxBits;
pub uninterp spec fn vx_key_bits<R: Registry>(k: archetype::IdentifierRef<R>) -> VxBits;
pub uninterp spec fn vx_no_duplicates<R: Registry>() -> bool;
/// the key under which the table for `bits` is found -- or, if there is none, the key the new
/// table will get (a fresh buffer address: an uninterpreted function of the table state)
pub uninterp spec fn vx_selected_key<R: Registry>(m: IMap<archetype::IdentifierRef<R>, archetype::Archetype<R>>, bits: VxBits) -> archetype::IdentifierRef<R>;

#[verifier::external_body]
pub fn vx_canonical<E>(e: E) -> (c: E)
    ensures archetype::vx_entity_row(c) == archetype::vx_entity_row(e) { unimplemented!() }
#[verifier::external_body]
pub fn vx_canonical_batch<E>(e: E) -> (c: E)
    ensures archetype::vx_batch_rows(c) == archetype::vx_batch_rows(e) { unimplemented!() }
/// A4: returns iff the registry lists no component type twice (panics otherwise)
#[verifier::external_body]
pub fn vx_assert_no_duplicates<R: Registry>()
    ensures vx_no_duplicates::<R>() { unimplemented!() }

// ---- R7: identifier bytes (K-bits checks these accessors on the real code) --------------------
pub open spec fn vx_bit(bytes: Seq<u8>, i: int) -> bool { (bytes[i / 8] >> ((i % 8) as u8)) & 1u8 == 1u8 }
#[verifier::external_body]
pub unsafe fn vx_ref_get_unchecked<R: Registry>(id: archetype::IdentifierRef<R>, index: usize) -> (b: bool)
    requires index / 8 < vx_key_bits(id).len(),
    ensures b == vx_bit(vx_key_bits(id), index as int) { unimplemented!() }
#[verifier::external_body]
pub fn vx_ref_as_vec<R: Registry>(id: archetype::IdentifierRef<R>) -> (v: Vec<u8>)
    ensures v@ == vx_key_bits(id) { unimplemented!() }
/// registry position of component `C` counted from the front (R8: `LEN - INDEX - 1`)
pub uninterp spec fn vx_cidx<C>() -> usize;
#[verifier::external_body]
pub fn vx_component_index<C>() -> (r: usize) ensures r == vx_cidx::<C>() { unimplemented!() }

// ---- R7: the archetype tables.  Assumed contracts (A3): a map from key to table. -----------
#[verifier::external_body]
#[verifier::accept_recursive_types(R)]
pub struct Archetypes<R: Registry> { p: PhantomData<R> }

pub open spec fn vx_fresh_table<R: Registry>(a: archetype::Archetype<R>, k: archetype::IdentifierRef<R>, bits: VxBits) -> bool {
    a.wf() && a.length == 0 && a.key() == k && vx_key_bits(k) == bits
}

impl<R: Registry> Archetypes<R> {
    pub uninterp spec fn view(&self) -> IMap<archetype::IdentifierRef<R>, archetype::Archetype<R>>;

    #[verifier::external_body]
    pub fn new() -> (r: Self)
        ensures r@ == IMap::<archetype::IdentifierRef<R>, archetype::Archetype<R>>::empty() { unimplemented!() }

    #[verifier::external_body]
    pub unsafe fn vx_get_unchecked_mut(&mut self, identifier: archetype::IdentifierRef<R>) -> (r: &mut archetype::Archetype<R>)
        requires old(self)@.dom().contains(identifier),
        ensures *r == old(self)@[identifier],
                final(self)@ == old(self)@.insert(identifier, *final(r)) { unimplemented!() }

    /// lookup by component set: the existing table with these bits if there is one (single table
    /// per component set, C13), else a fresh empty table under a key not used before
    #[verifier::external_body]
    pub unsafe fn vx_get_mut_or_insert_new_for_entity(&mut self, bits: Ghost<VxBits>) -> (r: &mut archetype::Archetype<R>)
        ensures
            r.key() == vx_selected_key(old(self)@, bits@),
            (exists|k: archetype::IdentifierRef<R>| old(self)@.dom().contains(k) && vx_key_bits(k) == bits@)
                ==> old(self)@.dom().contains(r.key()) && *r == old(self)@[r.key()] && vx_key_bits(r.key()) == bits@,
            !(exists|k: archetype::IdentifierRef<R>| old(self)@.dom().contains(k) && vx_key_bits(k) == bits@)
                ==> !old(self)@.dom().contains(r.key()) && vx_fresh_table(*r, r.key(), bits@),
            final(self)@ == old(self)@.insert(r.key(), *final(r)),
    { unimplemented!() }

    /// same lookup, by an owned identifier buffer (Entry::add / Entry::remove)
    #[verifier::external_body]
    pub fn vx_get_mut_or_insert_new(&mut self, identifier_buffer: archetype::Identifier<R>) -> (r: &mut archetype::Archetype<R>)
        ensures
            r.key() == vx_selected_key(old(self)@, identifier_buffer.spec_bits()),
            (exists|k: archetype::IdentifierRef<R>| old(self)@.dom().contains(k) && vx_key_bits(k) == identifier_buffer.spec_bits())
                ==> old(self)@.dom().contains(r.key()) && *r == old(self)@[r.key()] && vx_key_bits(r.key()) == identifier_buffer.spec_bits(),
            !(exists|k: archetype::IdentifierRef<R>| old(self)@.dom().contains(k) && vx_key_bits(k) == identifier_buffer.spec_bits())
                ==> !old(self)@.dom().contains(r.key()) && vx_fresh_table(*r, r.key(), identifier_buffer.spec_bits()),
            final(self)@ == old(self)@.insert(r.key(), *final(r)),
    { unimplemented!() }

    /// clears every table, releasing every stored identifier
    #[verifier::external_body]
    pub unsafe fn clear(&mut self, entity_allocator: &mut Allocator<R>)
        requires vx_tables_ok(old(self)@, old(entity_allocator)), old(entity_allocator).wf(),
        ensures
            final(self)@.dom() == old(self)@.dom(),
            forall|k: archetype::IdentifierRef<R>| final(self)@.dom().contains(k) ==>
                (#[trigger] final(self)@[k]).wf() && final(self)@[k].length == 0 && final(self)@[k].key() == k,
            final(entity_allocator).wf(),
            forall|i: entity::Identifier| final(entity_allocator).resolves(i) ==
                (old(entity_allocator).resolves(i) && !vx_stored(old(self)@, i)),
            final(entity_allocator).slots@.len() == old(entity_allocator).slots@.len(),
    { unimplemented!() }

    /// drops empty tables and their lookup entries; keeps every non-empty table unchanged
    #[verifier::external_body]
    pub fn shrink_to_fit(&mut self)
        ensures
            forall|k: archetype::IdentifierRef<R>| #![trigger final(self)@.dom().contains(k)] #![trigger old(self)@[k]]
                final(self)@.dom().contains(k) == (old(self)@.dom().contains(k) && old(self)@[k].length > 0),
            forall|k: archetype::IdentifierRef<R>| final(self)@.dom().contains(k) ==> {
                &&& (#[trigger] final(self)@[k]).length == old(self)@[k].length
                &&& final(self)@[k].ids() == old(self)@[k].ids()
                &&& final(self)@[k].rows() == old(self)@[k].rows()
                &&& final(self)@[k].key() == k
                &&& final(self)@[k].wf()
            },
    { unimplemented!() }
}

/// `c` is a value copy of table `t` under key `k2` (C10): same identifiers, same rows, same
/// component set
pub open spec fn vx_table_copy<R: Registry>(c: archetype::Archetype<R>, t: archetype::Archetype<R>, k2: archetype::IdentifierRef<R>) -> bool {
    c.wf() && c.key() == k2 && c.length == t.length && c.ids() == t.ids() && c.rows() == t.rows() && vx_key_bits(k2) == vx_key_bits(t.key())
}
/// the old-key -> new-key map returned by Archetypes::clone / clone_from
pub open spec fn vx_is_key_map<R: Registry>(
    map: IMap<archetype::IdentifierRef<R>, archetype::IdentifierRef<R>>,
    src: IMap<archetype::IdentifierRef<R>, archetype::Archetype<R>>,
    dst: IMap<archetype::IdentifierRef<R>, archetype::Archetype<R>>) -> bool {
    &&& forall|k: archetype::IdentifierRef<R>| src.dom().contains(k) ==>
            #[trigger] map.dom().contains(k) && dst.dom().contains(map[k]) && vx_table_copy(dst[map[k]], src[k], map[k])
    &&& forall|k1: archetype::IdentifierRef<R>, k2: archetype::IdentifierRef<R>|
            src.dom().contains(k1) && src.dom().contains(k2) && #[trigger] map[k1] == #[trigger] map[k2] ==> k1 == k2
    &&& forall|k2: archetype::IdentifierRef<R>| #[trigger] dst.dom().contains(k2) ==>
            dst[k2].wf() && dst[k2].key() == k2 &&
            ((exists|k: archetype::IdentifierRef<R>| src.dom().contains(k) && map[k] == k2) || dst[k2].length == 0)
}

impl<R: Registry> Archetypes<R> {
    /// A3 (assumed): clones every table under a fresh key and returns the key map
    #[verifier::external_body]
    pub unsafe fn clone(&self) -> (r: (Self, HashMap<archetype::IdentifierRef<R>, archetype::IdentifierRef<R>, FnvBuildHasher>))
        requires vx_single_table(self@),
        ensures vx_is_key_map(r.1@, self@, r.0@), vx_single_table(r.0@),
    { unimplemented!() }
    /// A3 (assumed): makes `self` hold a copy of every table of `source` (reusing the table with
    /// the same component set where there is one) and clears every other table
    #[verifier::external_body]
    pub unsafe fn clone_from(&mut self, source: &Self) -> (r: HashMap<archetype::IdentifierRef<R>, archetype::IdentifierRef<R>, FnvBuildHasher>)
        requires vx_single_table(old(self)@), vx_single_table(source@),
        ensures vx_is_key_map(r@, source@, final(self)@), vx_single_table(final(self)@),
    { unimplemented!() }
}

/// A8 (assumed): the user's `Clone` for the resource list is a faithful copy
#[verifier::external_body]
pub fn vx_clone<T>(x: &T) -> (r: T) ensures r == *x { unimplemented!() }
#[verifier::external_body]
pub fn vx_clone_from<T>(dst: &mut T, src: &T) ensures *final(dst) == *src { unimplemented!() }
#[verifier::external_body]
pub fn vx_default<T>() -> (r: T) { unimplemented!() }

/// W2: every identifier the allocator accepts is attached to the stored row it points at
pub open spec fn vx_ids_stored<R: Registry>(m: IMap<archetype::IdentifierRef<R>, archetype::Archetype<R>>, a: &Allocator<R>) -> bool {
    forall|i: entity::Identifier| a.resolves(i) ==> {
        let l = #[trigger] a.view()[i];
        m.dom().contains(l.identifier) && l.index < m[l.identifier].length && m[l.identifier].ids()[l.index as int] == i
    }
}
/// W5: entities with the same component set are kept in a single table
pub open spec fn vx_single_table<R: Registry>(m: IMap<archetype::IdentifierRef<R>, archetype::Archetype<R>>) -> bool {
    forall|k1: archetype::IdentifierRef<R>, k2: archetype::IdentifierRef<R>|
        m.dom().contains(k1) && m.dom().contains(k2) && vx_key_bits(k1) == vx_key_bits(k2) ==> k1 == k2
}
'''

WORLD_SPEC = r'''
impl<Registry: crate::Registry, Resources> World<Registry, Resources> {
    pub open spec fn wf(&self) -> bool {
        &&& self.entity_allocator.wf()
        &&& vx_tables_ok(self.archetypes@, &self.entity_allocator)
        &&& vx_ids_stored(self.archetypes@, &self.entity_allocator)
        &&& vx_single_table(self.archetypes@)
        &&& self.len == self.entity_allocator.active_count()
        &&& vx_no_duplicates::<Registry>()
    }
    /// C01: the world as a map from live identifiers to (component set, component values)
    pub open spec fn view(&self) -> IMap<entity::Identifier, (VxBits, archetype::VxRow)> {
        IMap::new(
            |i: entity::Identifier| self.entity_allocator.resolves(i),
            |i: entity::Identifier| {
                let l = self.entity_allocator.view()[i];
                (vx_key_bits(l.identifier), self.archetypes@[l.identifier].rows()[l.index as int])
            },
        )
    }
}
'''


PUSH_PROOF = r'''proof {
            let id = vx_r;
            let a0 = vx_w0.entity_allocator;
            let a1 = self.entity_allocator;
            let m0 = vx_w0.archetypes@;
            let m1 = self.archetypes@;
            let k = a1.view()[id].identifier;
            let t1 = m1[k];
            assert(a1.view().dom().contains(id));
            assert(m1.dom().contains(k));
            assert forall|i: entity::Identifier| a0.resolves(i) implies a1.resolves(i) && a1.view()[i] == a0.view()[i] && i != id by {
                assert(a0.view().dom().contains(i));
                assert(a1.view().dom().contains(i));
            }
            assert forall|i: entity::Identifier| a1.resolves(i) && i != id implies a0.resolves(i) by {
                assert(a1.view().dom().contains(i));
                assert(a0.view().dom().contains(i));
            }
            // W1
            assert forall|k2: archetype::IdentifierRef<Registry>| m1.dom().contains(k2) implies
                (#[trigger] m1[k2]).wf() && m1[k2].key() == k2 && m1[k2].agrees(&a1) by {
                if k2 != k {
                    assert(m0.dom().contains(k2) && m1[k2] == m0[k2]);
                    assert(m0[k2].agrees(&a0));
                    assert forall|r: int| 0 <= r < m1[k2].length implies a1.resolves(#[trigger] m1[k2].ids()[r])
                        && a1.view()[m1[k2].ids()[r]] == (Location { identifier: m1[k2].key(), index: r as usize }) by {
                        assert(a0.resolves(m0[k2].ids()[r]));
                    }
                }
            }
            // W2
            assert forall|i: entity::Identifier| a1.resolves(i) implies ({
                let l = #[trigger] a1.view()[i];
                m1.dom().contains(l.identifier) && l.index < m1[l.identifier].length && m1[l.identifier].ids()[l.index as int] == i
            }) by {
                if i != id {
                    assert(a0.resolves(i));
                    let l = a0.view()[i];
                    assert(m0.dom().contains(l.identifier));
                    if l.identifier == k {
                        assert(t1.ids()[l.index as int] == m0[k].ids()[l.index as int]);
                    } else {
                        assert(m1[l.identifier] == m0[l.identifier]);
                    }
                }
            }
            // the map view
            assert(self.view() =~= vx_w0.view().insert(id, (BITS, ROW))) by {
                assert forall|i: entity::Identifier| self.view().dom().contains(i) == vx_w0.view().insert(id, (BITS, ROW)).dom().contains(i) by { }
                assert forall|i: entity::Identifier| self.view().dom().contains(i) implies
                    #[trigger] self.view()[i] == vx_w0.view().insert(id, (BITS, ROW))[i] by {
                    if i != id {
                        assert(a0.resolves(i));
                        let l = a0.view()[i];
                        assert(m0.dom().contains(l.identifier));
                        if l.identifier == k {
                            assert(t1.rows()[l.index as int] == m0[k].rows()[l.index as int]);
                        } else {
                            assert(m1[l.identifier] == m0[l.identifier]);
                        }
                    }
                }
            }
        }'''


EXTEND_PROOF = r'''proof {
            let ids = vx_r@;
            let bits = vx_bits_of::<Entities>();
            let rows = archetype::vx_batch_rows(entities.entities);
            let a0 = vx_w0.entity_allocator;
            let a1 = self.entity_allocator;
            let m0 = vx_w0.archetypes@;
            let m1 = self.archetypes@;
            let k = vx_selected_key(m0, bits);
            let t1 = m1[k];
            let n0 = if m0.dom().contains(k) { m0[k].length as int } else { 0 };
            assert(rows.len() == entities.len);
            assert(m1.dom().contains(k));
            assert(t1.length == n0 + ids.len());
            assert forall|j: int| 0 <= j < ids.len() implies t1.ids()[n0 + j] == ids[j] && t1.rows()[n0 + j] == rows[j] by { }
            assert forall|r: int| 0 <= r < n0 implies t1.ids()[r] == m0[k].ids()[r] && t1.rows()[r] == m0[k].rows()[r] by { }
            // W1
            assert forall|k2: archetype::IdentifierRef<Registry>| m1.dom().contains(k2) implies
                (#[trigger] m1[k2]).wf() && m1[k2].key() == k2 && m1[k2].agrees(&a1) by {
                if k2 != k {
                    assert(m0.dom().contains(k2) && m1[k2] == m0[k2]);
                    assert(m0[k2].agrees(&a0));
                    assert forall|r: int| 0 <= r < m1[k2].length implies a1.resolves(#[trigger] m1[k2].ids()[r])
                        && a1.view()[m1[k2].ids()[r]] == (Location { identifier: m1[k2].key(), index: r as usize }) by {
                        assert(a0.resolves(m0[k2].ids()[r]));
                    }
                }
            }
            // W2
            assert forall|i: entity::Identifier| a1.resolves(i) implies ({
                let l = #[trigger] a1.view()[i];
                m1.dom().contains(l.identifier) && l.index < m1[l.identifier].length && m1[l.identifier].ids()[l.index as int] == i
            }) by {
                if ids.contains(i) {
                    let j = choose|j: int| 0 <= j < ids.len() && ids[j] == i;
                    assert(t1.ids()[n0 + j] == i);
                    assert(a1.view()[t1.ids()[n0 + j]] == (Location { identifier: t1.key(), index: (n0 + j) as usize }));
                } else {
                    assert(a0.resolves(i));
                    let l = a0.view()[i];
                    assert(m0.dom().contains(l.identifier));
                    if l.identifier == k {
                        assert(t1.ids()[l.index as int] == m0[k].ids()[l.index as int]);
                    } else {
                        assert(m1[l.identifier] == m0[l.identifier]);
                    }
                }
            }
            // rows in batch order
            assert forall|j: int| 0 <= j < ids.len() implies self.view().dom().contains(#[trigger] ids[j])
                && self.view()[ids[j]] == (bits, rows[j]) by {
                assert(t1.ids()[n0 + j] == ids[j]);
                assert(a1.view()[t1.ids()[n0 + j]] == (Location { identifier: t1.key(), index: (n0 + j) as usize }));
            }
            assert forall|i: entity::Identifier| vx_w0.view().dom().contains(i) implies self.view().dom().contains(i) && self.view()[i] == vx_w0.view()[i] by {
                assert(a0.resolves(i));
                let l = a0.view()[i];
                assert(m0.dom().contains(l.identifier));
                if l.identifier == k {
                    assert(t1.rows()[l.index as int] == m0[k].rows()[l.index as int]);
                } else {
                    assert(m1[l.identifier] == m0[l.identifier]);
                }
            }
        }'''


REMOVE_PROOF = r'''proof {
            let id = entity_identifier;
            let a0 = vx_w0.entity_allocator;
            let am = vx_mid.entity_allocator;
            let a1 = self.entity_allocator;
            let m0 = vx_w0.archetypes@;
            let m1 = self.archetypes@;
            let k = location.identifier;
            let idx = location.index as int;
            let t0 = m0[k];
            let t1 = m1[k];
            let last = t0.length - 1;
            let moved = t0.ids()[last];
            assert(m1 == vx_mid.archetypes@);
            assert(t0.ids()[idx] == id);
            t0.lemma_ids_distinct(&a0);
            assert(a0.resolves(moved)) by { assert(t0.agrees(&a0)); }
            // identifiers stored in other tables are neither `id` nor `moved`
            assert forall|k2: archetype::IdentifierRef<Registry>, r: int| m0.dom().contains(k2) && k2 != k && 0 <= r < m0[k2].length
                implies (#[trigger] m0[k2].ids()[r]) != id && m0[k2].ids()[r] != moved by {
                assert(m0[k2].agrees(&a0));
                assert(a0.view()[m0[k2].ids()[r]].identifier == k2);
                assert(a0.view()[id].identifier == k);
                assert(a0.view()[moved].identifier == k);
            }
            // W1
            assert forall|k2: archetype::IdentifierRef<Registry>| m1.dom().contains(k2) implies
                (#[trigger] m1[k2]).wf() && m1[k2].key() == k2 && m1[k2].agrees(&a1) by {
                if k2 != k {
                    assert(m0.dom().contains(k2) && m1[k2] == m0[k2]);
                    assert(m0[k2].agrees(&a0));
                    assert forall|r: int| 0 <= r < m1[k2].length implies a1.resolves(#[trigger] m1[k2].ids()[r])
                        && a1.view()[m1[k2].ids()[r]] == (Location { identifier: m1[k2].key(), index: r as usize }) by {
                        let i = m0[k2].ids()[r];
                        assert(i != id && i != moved);
                        assert(a0.resolves(i));
                        assert(am.resolves(i));
                    }
                } else {
                    assert(t1.agrees(&am));
                    assert forall|r: int| 0 <= r < t1.length implies a1.resolves(#[trigger] t1.ids()[r])
                        && a1.view()[t1.ids()[r]] == (Location { identifier: t1.key(), index: r as usize }) by {
                        let i = t1.ids()[r];
                        assert(am.resolves(i));
                        assert(i != id) by {
                            if r == idx { assert(i == t0.ids()[last]); } else { assert(i == t0.ids()[r]); }
                        }
                    }
                }
            }
            // W2
            assert forall|i: entity::Identifier| a1.resolves(i) implies ({
                let l = #[trigger] a1.view()[i];
                m1.dom().contains(l.identifier) && l.index < m1[l.identifier].length && m1[l.identifier].ids()[l.index as int] == i
            }) by {
                assert(am.resolves(i) && i != id);
                assert(a0.resolves(i));
                let l0 = a0.view()[i];
                assert(m0.dom().contains(l0.identifier));
                if idx < last && i == moved {
                    assert(t1.ids()[idx] == moved);
                } else {
                    assert(am.view()[i] == l0);
                    if l0.identifier == k {
                        assert(t0.ids()[l0.index as int] == i);
                        assert(l0.index as int != idx);
                        if l0.index as int == last { assert(i == moved); }
                        assert(t1.ids()[l0.index as int] == i);
                    } else {
                        assert(m1[l0.identifier] == m0[l0.identifier]);
                    }
                }
            }
            // the map view
            assert(self.view() =~= vx_w0.view().remove(id)) by {
                assert forall|i: entity::Identifier| self.view().dom().contains(i) == vx_w0.view().remove(id).dom().contains(i) by {
                    assert(a1.resolves(i) == (am.resolves(i) && i != id));
                    assert(am.resolves(i) == a0.resolves(i));
                }
                assert forall|i: entity::Identifier| self.view().dom().contains(i) implies
                    #[trigger] self.view()[i] == vx_w0.view().remove(id)[i] by {
                    assert(am.resolves(i) && i != id);
                    assert(a0.resolves(i));
                    let l0 = a0.view()[i];
                    assert(m0.dom().contains(l0.identifier));
                    if idx < last && i == moved {
                        assert(t1.rows()[idx] == t0.rows()[last]);
                        assert(l0 == (Location { identifier: k, index: last as usize }));
                    } else {
                        assert(am.view()[i] == l0);
                        if l0.identifier == k {
                            assert(t0.ids()[l0.index as int] == i);
                            assert(l0.index as int != idx);
                            if l0.index as int == last { assert(i == moved); }
                            assert(t1.rows()[l0.index as int] == t0.rows()[l0.index as int]);
                        } else {
                            assert(m1[l0.identifier] == m0[l0.identifier]);
                        }
                    }
                }
            }
        }'''

CLEAR_PROOF = r'''proof {
            let a0 = vx_w0.entity_allocator;
            let a1 = self.entity_allocator;
            let m0 = vx_w0.archetypes@;
            let m1 = self.archetypes@;
            assert forall|i: entity::Identifier| !a1.resolves(i) by {
                if a0.resolves(i) {
                    let l = a0.view()[i];
                    assert(m0.dom().contains(l.identifier) && 0 <= l.index < m0[l.identifier].length && m0[l.identifier].ids()[l.index as int] == i);
                    assert(vx_stored(m0, i));
                }
            }
            assert forall|s: int| 0 <= s < a1.slots@.len() implies (#[trigger] a1.slots@[s]).location is None by {
                a1.lemma_slots_len_fits();
                let i = entity::Identifier { index: s as usize, generation: a1.slots@[s].generation };
                assert(!a1.resolves(i));
            }
            lemma_count_zero(a1.slots@);
            assert(self.view() =~= IMap::<entity::Identifier, (VxBits, archetype::VxRow)>::empty());
        }'''

SHRINK_PROOF = r'''proof {
            let a0 = vx_w0.entity_allocator;
            let a1 = self.entity_allocator;
            let m0 = vx_w0.archetypes@;
            let m1 = self.archetypes@;
            assert forall|i: entity::Identifier| a1.resolves(i) == a0.resolves(i) by { }
            assert forall|i: entity::Identifier| a0.resolves(i) implies a1.view()[i] == a0.view()[i] by { }
            assert forall|k2: archetype::IdentifierRef<Registry>| m1.dom().contains(k2) implies
                (#[trigger] m1[k2]).wf() && m1[k2].key() == k2 && m1[k2].agrees(&a1) by {
                assert(m0.dom().contains(k2));
                assert(m0[k2].agrees(&a0));
                assert forall|r: int| 0 <= r < m1[k2].length implies a1.resolves(#[trigger] m1[k2].ids()[r])
                    && a1.view()[m1[k2].ids()[r]] == (Location { identifier: m1[k2].key(), index: r as usize }) by {
                    assert(a0.resolves(m0[k2].ids()[r]));
                }
            }
            assert forall|i: entity::Identifier| a1.resolves(i) implies ({
                let l = #[trigger] a1.view()[i];
                m1.dom().contains(l.identifier) && l.index < m1[l.identifier].length && m1[l.identifier].ids()[l.index as int] == i
            }) by {
                let l = a0.view()[i];
                assert(m0.dom().contains(l.identifier) && l.index < m0[l.identifier].length);
                assert(m0[l.identifier].length > 0);
            }
            assert(self.view() =~= vx_w0.view()) by {
                assert forall|i: entity::Identifier| self.view().dom().contains(i) implies #[trigger] self.view()[i] == vx_w0.view()[i] by {
                    let l = a0.view()[i];
                    assert(m0.dom().contains(l.identifier) && l.index < m0[l.identifier].length);
                    assert(m1.dom().contains(l.identifier));
                }
            }
        }'''

RESERVE_PROOF = r'''proof {
            let bits = vx_bits_of::<Entity>();
            let a0 = vx_w0.entity_allocator;
            let m0 = vx_w0.archetypes@;
            let m1 = self.archetypes@;
            let k = vx_selected_key(m0, bits);
            assert(self.entity_allocator == a0);
            assert forall|k2: archetype::IdentifierRef<Registry>| m1.dom().contains(k2) implies
                (#[trigger] m1[k2]).wf() && m1[k2].key() == k2 && m1[k2].agrees(&a0) by {
                if k2 != k {
                    assert(m0.dom().contains(k2) && m1[k2] == m0[k2]);
                } else if m0.dom().contains(k) {
                    assert(m0[k].agrees(&a0));
                    assert forall|r: int| 0 <= r < m1[k].length implies a0.resolves(#[trigger] m1[k].ids()[r])
                        && a0.view()[m1[k].ids()[r]] == (Location { identifier: m1[k].key(), index: r as usize }) by {
                        assert(m1[k].ids()[r] == m0[k].ids()[r]);
                    }
                }
            }
            assert forall|i: entity::Identifier| a0.resolves(i) implies ({
                let l = #[trigger] a0.view()[i];
                m1.dom().contains(l.identifier) && l.index < m1[l.identifier].length && m1[l.identifier].ids()[l.index as int] == i
            }) by {
                let l = a0.view()[i];
                assert(m0.dom().contains(l.identifier));
                if l.identifier != k { assert(m1[l.identifier] == m0[l.identifier]); }
            }
            assert(self.view() =~= vx_w0.view()) by {
                assert forall|i: entity::Identifier| self.view().dom().contains(i) implies #[trigger] self.view()[i] == vx_w0.view()[i] by {
                    let l = a0.view()[i];
                    assert(m0.dom().contains(l.identifier));
                    if l.identifier != k { assert(m1[l.identifier] == m0[l.identifier]); }
                }
            }
        }'''


COVER_PROOF = r'''proof {
            let a0 = SRC.entity_allocator;
            let m0 = SRC.archetypes@;
            a0.lemma_slots_len_fits();
            assert forall|s: int| 0 <= s < a0.slots@.len() && (#[trigger] a0.slots@[s]).location is Some
                implies identifier_map@.dom().contains(a0.slots@[s].location->0.identifier) by {
                let i = entity::Identifier { index: s as usize, generation: a0.slots@[s].generation };
                assert(a0.resolves(i));
                assert(m0.dom().contains(a0.view()[i].identifier));
            }
        }'''

CLONE_PROOF = r'''proof {
            let a0 = SRC.entity_allocator;
            let a1 = DST.entity_allocator;
            let m0 = SRC.archetypes@;
            let m1 = DST.archetypes@;
            let map = identifier_map@;
            // the key map covers every archetype a source slot refers to (safety precondition of Allocator::clone*)
            a1.lemma_remapped_copy_wf(&a0, map);
            lemma_count_same_activity(a1.slots@, a0.slots@);
            assert forall|i: entity::Identifier| a1.resolves(i) implies a0.resolves(i)
                && a1.view()[i] == (Location { identifier: map[a0.view()[i].identifier], index: a0.view()[i].index }) by { }
            // W1
            assert forall|k2: archetype::IdentifierRef<Registry>| m1.dom().contains(k2) implies
                (#[trigger] m1[k2]).wf() && m1[k2].key() == k2 && m1[k2].agrees(&a1) by {
                if exists|k: archetype::IdentifierRef<Registry>| m0.dom().contains(k) && map[k] == k2 {
                    let k = choose|k: archetype::IdentifierRef<Registry>| m0.dom().contains(k) && map[k] == k2;
                    assert(map.dom().contains(k));
                    assert(m0[k].agrees(&a0));
                    assert forall|r: int| 0 <= r < m1[k2].length implies a1.resolves(#[trigger] m1[k2].ids()[r])
                        && a1.view()[m1[k2].ids()[r]] == (Location { identifier: m1[k2].key(), index: r as usize }) by {
                        assert(a0.resolves(m0[k].ids()[r]));
                    }
                }
            }
            // W2
            assert forall|i: entity::Identifier| a1.resolves(i) implies ({
                let l = #[trigger] a1.view()[i];
                m1.dom().contains(l.identifier) && l.index < m1[l.identifier].length && m1[l.identifier].ids()[l.index as int] == i
            }) by {
                let l0 = a0.view()[i];
                assert(m0.dom().contains(l0.identifier));
                assert(map.dom().contains(l0.identifier));
            }
            assert(DST.view() =~= SRC.view()) by {
                assert forall|i: entity::Identifier| DST.view().dom().contains(i) implies #[trigger] DST.view()[i] == SRC.view()[i] by {
                    let l0 = a0.view()[i];
                    assert(m0.dom().contains(l0.identifier));
                    assert(map.dom().contains(l0.identifier));
                    assert(m0[l0.identifier].key() == l0.identifier);
                }
            }
        }'''


SERDE_PRELUDE = r'''
// ---- R7/A10: the serde SeqAccess the world visitor reads from.  The three element
// deserializers (DeserializeArchetypes, DeserializeAllocator, resource::Deserializer) are
// assumed-contract calls: what each yields is an uninterpreted function of the stream state, so
// the visitor's contract says the world is built from exactly those three values.
#[verifier::external_body]
pub struct VxSeq { _p: () }
// ---- R15: `a == b` on non-primitive operands is the PartialEq::eq call of the operand type.
// Archetypes::eq is verified in unit archs, Allocator::eq / component_eq are decided by K-eq,
// the resource list's PartialEq is user code (A8).
pub uninterp spec fn vx_archetypes_eq<R: Registry>(a: Archetypes<R>, b: Archetypes<R>) -> bool;
pub uninterp spec fn vx_allocator_eq<R: Registry>(a: Allocator<R>, b: Allocator<R>) -> bool;
pub uninterp spec fn vx_values_eq<T>(a: T, b: T) -> bool;
#[verifier::external_body]
pub fn vx_eq_archetypes<R: Registry>(a: &Archetypes<R>, b: &Archetypes<R>) -> (r: bool) ensures r == vx_archetypes_eq(*a, *b) { unimplemented!() }
#[verifier::external_body]
pub fn vx_eq_allocator<R: Registry>(a: &Allocator<R>, b: &Allocator<R>) -> (r: bool) ensures r == vx_allocator_eq(*a, *b) { unimplemented!() }
#[verifier::external_body]
pub fn vx_eq_values<T>(a: &T, b: &T) -> (r: bool) ensures r == vx_values_eq(*a, *b) { unimplemented!() }
#[verifier::external_body]
pub struct VxErr { _p: () }
pub struct VxResDe<T>(pub T);
pub uninterp spec fn vx_seq_next(s: VxSeq) -> VxSeq;
pub uninterp spec fn vx_seq_archs<R: Registry>(s: VxSeq) -> Archetypes<R>;
pub uninterp spec fn vx_seq_len(s: VxSeq) -> usize;
pub uninterp spec fn vx_seq_alloc<R: Registry>(s: VxSeq) -> Allocator<R>;
pub uninterp spec fn vx_seq_res<T>(s: VxSeq) -> T;
#[verifier::external_body]
pub fn vx_next_archetypes<R: Registry>(seq: &mut VxSeq, len: &mut usize) -> (r: Result<Option<Archetypes<R>>, VxErr>)
    ensures *final(seq) == vx_seq_next(*old(seq)),
            r is Ok && r->Ok_0 is Some ==> r->Ok_0->0 == vx_seq_archs::<R>(*old(seq)) && *final(len) == vx_seq_len(*old(seq)),
            // proved of the real ArchetypesVisitor::visit_seq in unit archs (C13.deserialize.wf): the table
            // set is well formed -- every table under its own key, one table per component set
            r is Ok && r->Ok_0 is Some ==> vx_single_table(r->Ok_0->0@)
                && (forall|k: archetype::IdentifierRef<R>| r->Ok_0->0@.dom().contains(k) ==> (#[trigger] r->Ok_0->0@[k]).wf() && r->Ok_0->0@[k].key() == k),
            // proved there as C13.deserialize.len_is_row_count (the counter starts at 0): the entity
            // count handed to the world is the number of rows of all tables read
            *old(len) == 0 && r is Ok && r->Ok_0 is Some ==> *final(len) == vx_total_rows(r->Ok_0->0@) { unimplemented!() }
#[verifier::external_body]
pub fn vx_next_allocator<R: Registry>(seq: &mut VxSeq, archetypes: &Archetypes<R>) -> (r: Result<Option<Allocator<R>>, VxErr>)
    ensures *final(seq) == vx_seq_next(*old(seq)),
            r is Ok && r->Ok_0 is Some ==> r->Ok_0->0 == vx_seq_alloc::<R>(*old(seq)),
            // proved of the real Allocator::from_serialized_parts in unit allocde (given a table set that
            // is keyed and whose tables are well formed): the allocator is well formed, agrees with
            // every stored row and accepts nothing else
            (forall|k: archetype::IdentifierRef<R>| archetypes@.dom().contains(k) ==> (#[trigger] archetypes@[k]).wf() && archetypes@[k].key() == k)
                && r is Ok && r->Ok_0 is Some ==> r->Ok_0->0.wf() && vx_tables_ok(archetypes@, &r->Ok_0->0) && vx_ids_stored(archetypes@, &r->Ok_0->0)
                    // C13.deserialize.count: as many active slots as stored rows
                    && r->Ok_0->0.active_count() == vx_total_rows(archetypes@) { unimplemented!() }
#[verifier::external_body]
pub fn vx_next_resources<T>(seq: &mut VxSeq) -> (r: Result<Option<VxResDe<T>>, VxErr>)
    ensures *final(seq) == vx_seq_next(*old(seq)),
            r is Ok && r->Ok_0 is Some ==> (r->Ok_0->0).0 == vx_seq_res::<T>(*old(seq)) { unimplemented!() }
// ---- R9/A10: the serde Serializer World::serialize writes to.  Ghost state: the elements
// written so far, each as an abstract token of the value handed to `serialize_element`.
#[verifier::external_body]
pub struct VxSerializer { _p: () }
#[verifier::external_body]
pub struct VxTuple { _p: () }
#[verifier::external_body]
pub struct VxSerOk { _p: () }
pub struct VxTok { pub id: int }
pub struct VxResSer<'a, T>(pub &'a T);
pub uninterp spec fn vx_ser_of<T>(v: T) -> VxTok;
impl VxSerializer {
    #[verifier::external_body]
    pub fn serialize_tuple(self, n: usize) -> (r: Result<VxTuple, VxErr>)
        ensures r is Ok ==> r->Ok_0.declared() == n && r->Ok_0.elems() == Seq::<VxTok>::empty() { unimplemented!() }
}
impl VxTuple {
    pub uninterp spec fn declared(&self) -> usize;
    pub uninterp spec fn elems(&self) -> Seq<VxTok>;
    #[verifier::external_body]
    pub fn serialize_element<T>(&mut self, v: &T) -> (r: Result<(), VxErr>)
        ensures final(self).declared() == old(self).declared(),
                r is Ok ==> final(self).elems() == old(self).elems().push(vx_ser_of(*v)) { unimplemented!() }
    #[verifier::external_body]
    pub fn end(self) -> (r: Result<VxSerOk, VxErr>)
        ensures r is Ok ==> r->Ok_0.elems() == self.elems() && r->Ok_0.declared() == self.declared() { unimplemented!() }
}
impl VxSerOk {
    pub uninterp spec fn declared(&self) -> usize;
    pub uninterp spec fn elems(&self) -> Seq<VxTok>;
}
/// `Option::ok_or_else(|| de::Error::invalid_length(n, &self))`
#[verifier::external_body]
pub fn vx_some_or_invalid_length<T>(o: Option<T>, n: usize) -> (r: Result<T, VxErr>)
    ensures o is Some ==> r == Result::<T, VxErr>::Ok(o->0),
            o is None ==> r is Err { unimplemented!() }
'''


def build():
    u = arch.build()
    u.name = "world"
    u.text(WORLD_PRELUDE)
    u.struct(W, "World")
    u.text(WORLD_SPEC)

    FRAME = [("C15.resources_untouched", "final(self).resources == old(self).resources")]
    PRE = [("pre.world_wf", "old(self).wf()")]
    WF = [("C13.world_wf.alloc", "final(self).entity_allocator.wf()"),
          ("C13.world_wf.tables", "vx_tables_ok(final(self).archetypes@, &final(self).entity_allocator)"),
          ("C13.world_wf.ids_stored", "vx_ids_stored(final(self).archetypes@, &final(self).entity_allocator)"),
          ("C13.world_wf.single_table", "vx_single_table(final(self).archetypes@)"),
          ("C13.world_wf.len", "final(self).len == final(self).entity_allocator.active_count()")]

    u.impl("impl<Registry> World<Registry, resource::Null> where Registry: crate::Registry", [
        Fn(W, r"^impl<Registry> World<Registry, resource::Null>", "new", ret="r",
           ensures=[("C18.new_checked", "r.wf()"), ("C01.new_empty", "r.len == 0")], props=["C18", "C01", "C13"]),
    ])
    u.impl("impl<Registry, Resources> World<Registry, Resources> where Registry: crate::Registry", [
        Fn(W, WIMPL, "from_raw_parts", ret="r",
           ensures=[("C18.no_duplicates_checked", "vx_no_duplicates::<Registry>()"),
                    ("world.from_raw_parts", "r.archetypes == archetypes && r.entity_allocator == entity_allocator && r.len == len && r.resources == resources")],
           props=["C18"]),
        Fn(W, WIMPL, "with_resources", ret="r",
           ensures=[("C18.with_resources_checked", "r.wf()"), ("C01.new_empty", "r.len == 0"),
                    ("C15.resources_stored", "r.resources == resources")],
           hints=[Hint("start", "proof { lemma_count_zero(Seq::<Slot<Registry>>::empty()); }")],
           props=["C18", "C01", "C13", "C15"]),
        Fn(W, WIMPL, "insert", ret="id", generics="<Entity, Indices>", where="",
           rewrites=[(r"\.get_mut_or_insert_new_for_entity::<.*?>\(\)", ".vx_get_mut_or_insert_new_for_entity(Ghost(vx_bits_of::<Entity>()))",
                      "R8: type-level selection of the archetype (turbofish of canonical entity type) replaced by its abstract component set"),
                     ],
           requires=PRE + [("pre.A5_len", "old(self).len < usize::MAX"),
                           ("pre.A5_table_len", "forall|k: archetype::IdentifierRef<Registry>| old(self).archetypes@.dom().contains(k) ==> (#[trigger] old(self).archetypes@[k]).length < usize::MAX")],
           ensures=WF + FRAME + [
               ("C01.insert.fresh", "!old(self).view().dom().contains(id)"),
               ("C01.insert.view", "final(self).view() == old(self).view().insert(id, (vx_bits_of::<Entity>(), archetype::vx_entity_row(entity)))"),
               ("C01.insert.len", "final(self).len == old(self).len + 1"),
           ],
           hints=[Hint("start", "let ghost vx_w0 = *self;"),
                  Hint("end", PUSH_PROOF.replace("ROW", "archetype::vx_entity_row(entity)").replace("BITS", "vx_bits_of::<Entity>()"))],
           bind_tail=True,
           props=["C01", "C02", "C13", "C15"]),
        Fn(W, WIMPL, "extend", ret="ids", generics="<Entities, Indices>", where="",
           rewrites=[(r"\.get_mut_or_insert_new_for_entity::<.*?>\(\)", ".vx_get_mut_or_insert_new_for_entity(Ghost(vx_bits_of::<Entities>()))",
                      "R8: type-level selection of the archetype replaced by its abstract component set"),
                     ],
           requires=PRE + [("pre.batch_wf", "entities.wf()"),
                           ("pre.A5_len", "old(self).len + entities.len <= usize::MAX"),
                           ("pre.A5_slots", "old(self).entity_allocator.slots@.len() + entities.len <= usize::MAX"),
                           ("pre.A5_table_len", "forall|k: archetype::IdentifierRef<Registry>| old(self).archetypes@.dom().contains(k) ==> (#[trigger] old(self).archetypes@[k]).length + entities.len <= usize::MAX")],
           ensures=WF + FRAME + [
               ("C01.extend.one_id_per_row", "ids@.len() == archetype::vx_batch_rows(entities.entities).len()"),
               ("C01.extend.fresh", "forall|j: int| 0 <= j < ids@.len() ==> !old(self).view().dom().contains(#[trigger] ids@[j])"),
               ("C01.extend.rows_in_order", "forall|j: int| 0 <= j < ids@.len() ==> final(self).view().dom().contains(#[trigger] ids@[j]) && final(self).view()[ids@[j]] == (vx_bits_of::<Entities>(), archetype::vx_batch_rows(entities.entities)[j])"),
               ("C01.extend.others", "forall|i: entity::Identifier| old(self).view().dom().contains(i) ==> final(self).view().dom().contains(i) && final(self).view()[i] == old(self).view()[i]"),
               ("C01.extend.dom", "forall|i: entity::Identifier| final(self).view().dom().contains(i) == (old(self).view().dom().contains(i) || ids@.contains(i))"),
               ("C01.extend.len", "final(self).len == old(self).len + ids@.len()"),
           ],
           hints=[Hint("start", "let ghost vx_w0 = *self;"),
                  Hint("end", EXTEND_PROOF)],
           bind_tail=True,
           props=["C01", "C02", "C13", "C15"]),
        Fn(W, WIMPL, "remove",
           requires=PRE,
           ensures=WF + FRAME + [
               ("C01.remove.view", "final(self).view() == old(self).view().remove(entity_identifier)"),
               ("C02.remove.dead", "!final(self).view().dom().contains(entity_identifier)"),
               ("C01.remove.len", "final(self).len + (if old(self).view().dom().contains(entity_identifier) { 1int } else { 0int }) == old(self).len"),
               ("C02.remove.generations", "final(self).entity_allocator.slots@.len() == old(self).entity_allocator.slots@.len() && forall|s: int| 0 <= s < old(self).entity_allocator.slots@.len() ==> (#[trigger] final(self).entity_allocator.slots@[s]).generation == old(self).entity_allocator.slots@[s].generation"),
           ],
           hints=[Hint("start", "let ghost vx_w0 = *self; proof { lemma_count_bound(self.entity_allocator.slots@); if self.entity_allocator.resolves(entity_identifier) { lemma_count_positive(self.entity_allocator.slots@, entity_identifier.index as int); } }"),
                  Hint("before", "let ghost vx_mid = *self;", anchor=r"unsafe \{\s*self\.entity_allocator\.free_unchecked\(entity_identifier\)"),
                  Hint("after", REMOVE_PROOF, anchor=r"self\.entity_allocator\.free_unchecked\(entity_identifier\)"),
                  Hint("end", "proof { if !vx_w0.entity_allocator.resolves(entity_identifier) { assert(self.view() =~= vx_w0.view().remove(entity_identifier)); } }")],
           props=["C01", "C02", "C13", "C15"]),
        Fn(W, WIMPL, "clear",
           requires=PRE,
           ensures=WF + FRAME + [
               ("C01.clear.view", "final(self).view() == IMap::<entity::Identifier, (VxBits, archetype::VxRow)>::empty()"),
               ("C01.clear.len", "final(self).len == 0"),
           ],
           hints=[Hint("start", "let ghost vx_w0 = *self;"),
                  Hint("end", CLEAR_PROOF)],
           props=["C01", "C02", "C13", "C15"]),
        Fn(W, WIMPL, "shrink_to_fit",
           requires=PRE,
           ensures=WF + FRAME + [
               ("C01.shrink.view", "final(self).view() == old(self).view()"),
               ("C01.shrink.len", "final(self).len == old(self).len"),
               ("C02.shrink.slots", "final(self).entity_allocator.slots@ == old(self).entity_allocator.slots@"),
           ],
           hints=[Hint("start", "let ghost vx_w0 = *self;"),
                  Hint("end", SHRINK_PROOF)],
           props=["C01", "C02", "C13", "C15"]),
        Fn(W, WIMPL, "reserve", generics="<Entity, Indices>", where="",
           rewrites=[(r"\.get_mut_or_insert_new_for_entity::<.*?>\(\)", ".vx_get_mut_or_insert_new_for_entity(Ghost(vx_bits_of::<Entity>()))",
                      "R8: type-level selection of the archetype replaced by its abstract component set"),
                     (r"\.reserve::<.*?>\(additional\)", ".reserve::<Entity>(additional)", "R8: type argument of Archetype::reserve (unused by the abstract column store)")],
           requires=PRE,
           ensures=WF + FRAME + [
               ("C01.reserve.view", "final(self).view() == old(self).view()"),
               ("C01.reserve.len", "final(self).len == old(self).len"),
           ],
           hints=[Hint("start", "let ghost vx_w0 = *self;"),
                  Hint("end", RESERVE_PROOF)],
           props=["C01", "C13", "C15"]),
        Fn(W, WIMPL, "contains", ret="b",
           ensures=[("C01.contains", "b == self.view().dom().contains(entity_identifier)")], props=["C01", "C02"]),
        Fn(W, WIMPL, "len", ret="n", ensures=[("C01.len", "n == self.len")], props=["C01", "C13"]),
        Fn(W, WIMPL, "is_empty", ret="b", ensures=[("C01.is_empty", "b == (self.len == 0)")], props=["C01"]),
    ])
    WC = "src/world/impl_clone.rs"
    CLONE_ENS = lambda res, src: [
        ("C10.clone.alloc_wf", f"{res}.entity_allocator.wf()"),
        ("C10.clone.tables", f"vx_tables_ok({res}.archetypes@, &{res}.entity_allocator)"),
        ("C10.clone.ids_stored", f"vx_ids_stored({res}.archetypes@, &{res}.entity_allocator)"),
        ("C10.clone.single_table", f"vx_single_table({res}.archetypes@)"),
        ("C10.clone.len", f"{res}.len == {res}.entity_allocator.active_count() && {res}.len == {src}.len"),
        ("C10.clone.view", f"{res}.view() == {src}.view()"),
        ("C15.clone.resources", f"{res}.resources == {src}.resources"),
    ]
    u.impl("impl<Registry, Resources> World<Registry, Resources> where Registry: crate::Registry", [
        Fn(WC, r"^impl<Registry, Resources> Clone for World<Registry, Resources>", "clone", ret="r", vis="pub",
           rewrites=[(r"self\.resources\.clone\(\)", "vx_clone(&self.resources)", "A8: user Clone of the resource list is an assumed faithful copy")],
           requires=[("pre.world_wf", "self.wf()")],
           ensures=CLONE_ENS("r", "self") + [("C18.clone_keeps_check", "vx_no_duplicates::<Registry>()")],
           hints=[Hint("after", COVER_PROOF.replace("SRC", "self"), anchor=r"self\.archetypes\.clone\(\)"),
                  Hint("end", CLONE_PROOF.replace("DST", "vx_r").replace("SRC", "self"))],
           bind_tail=True,
           props=["C10", "C13", "C15", "C02", "C01", "C16"]),
        Fn(WC, r"^impl<Registry, Resources> Clone for World<Registry, Resources>", "clone_from", vis="pub",
           rewrites=[(r"self\.resources\.clone_from\(&source\.resources\);", "vx_clone_from(&mut self.resources, &source.resources);", "A8: user Clone of the resource list is an assumed faithful copy")],
           requires=[("pre.world_wf", "old(self).wf()"), ("pre.source_wf", "source.wf()")],
           ensures=CLONE_ENS("final(self)", "source"),
           hints=[Hint("after", COVER_PROOF.replace("SRC", "source"), anchor=r"self\.archetypes\.clone_from\(&source\.archetypes\)"),
                  Hint("end", CLONE_PROOF.replace("DST", "self").replace("SRC", "source"))],
           props=["C10", "C13", "C15", "C02", "C01", "C16"]),
    ])
    u.impl("impl<Registry, Resources> World<Registry, Resources> where Registry: crate::Registry", [
        Fn(WD, r"^impl<Registry, Resources> Default for World<Registry, Resources>", "default", ret="r", vis="pub", emit_name="default",
           rewrites=[(r"Resources::default\(\)", "vx_default::<Resources>()", "generic Default of the resource list is an external call")],
           ensures=[("C18.default_checked", "r.wf()"), ("C01.new_empty", "r.len == 0")],
           props=["C18", "C01"]),
    ])
    WE = "src/world/entry.rs"
    EIMPL = r"^impl<'a, Registry, Resources> Entry<'a, Registry, Resources>\s*where\s*Registry: registry::Registry,\s*\{"
    u.struct(WE, "Entry")
    u.text(ENTRY_SPEC)
    EWF = [("C13.entry.world_wf.alloc", "final(self).world.entity_allocator.wf()"),
           ("C13.entry.world_wf.tables", "vx_tables_ok(final(self).world.archetypes@, &final(self).world.entity_allocator)"),
           ("C13.entry.world_wf.ids_stored", "vx_ids_stored(final(self).world.archetypes@, &final(self).world.entity_allocator)"),
           ("C13.entry.world_wf.single_table", "vx_single_table(final(self).world.archetypes@)"),
           ("C13.entry.world_wf.len", "final(self).world.len == final(self).world.entity_allocator.active_count() && final(self).world.len == old(self).world.len"),
           ("C15.entry.resources_untouched", "final(self).world.resources == old(self).world.resources"),
           ("C02.entry.location_tracks", "final(self).wf() && final(self).id() == old(self).id()")]
    u.impl("impl<'a, Registry, Resources> Entry<'a, Registry, Resources> where Registry: crate::Registry", [
        Fn(WE, EIMPL, "new", ret="r",
           ensures=[("entry.new", "r.location == location && *r.world == *old(world)")], props=["C01"]),
        Fn(WE, EIMPL, "add", generics="<Component, Index>", where="",
           requires=[("pre.entry_wf", "old(self).wf()"),
                     ("pre.R8_component_in_registry", "vx_cidx::<Component>() / 8 < vx_key_bits(old(self).location.identifier).len()"),
                     ("pre.A5_table_len", "forall|k: archetype::IdentifierRef<Registry>| old(self).world.archetypes@.dom().contains(k) ==> (#[trigger] old(self).world.archetypes@[k]).length < usize::MAX")],
           ensures=EWF + [
               ("C01.entry.add.view", "final(self).world.view() == old(self).world.view().insert(old(self).id(), vx_added::<Registry, Component>(old(self).world.view()[old(self).id()], component))"),
           ],
           hints=[Hint("start", "let ghost vx_e0 = *self; let ghost vx_w0 = *self.world;")],
           props=["C01", "C02", "C13", "C15"]),
        Fn(WE, EIMPL, "remove", generics="<Component, Index>", where="",
           requires=[("pre.entry_wf", "old(self).wf()"),
                     ("pre.R8_component_in_registry", "vx_cidx::<Component>() / 8 < vx_key_bits(old(self).location.identifier).len()"),
                     ("pre.A5_table_len", "forall|k: archetype::IdentifierRef<Registry>| old(self).world.archetypes@.dom().contains(k) ==> (#[trigger] old(self).world.archetypes@[k]).length < usize::MAX")],
           ensures=EWF + [
               ("C01.entry.remove.view", "final(self).world.view() == old(self).world.view().insert(old(self).id(), vx_removed::<Registry, Component>(old(self).world.view()[old(self).id()]))"),
           ],
           hints=[Hint("start", "let ghost vx_e0 = *self; let ghost vx_w0 = *self.world;")],
           props=["C01", "C02", "C13", "C15"]),
    ])
    u.impl("impl<Registry, Resources> World<Registry, Resources> where Registry: crate::Registry", [
        Fn(W, WIMPL, "entry", ret="r", ret_type="Option<Entry<Registry, Resources>>",
           rewrites=[(r"self\.entity_allocator\s*\.get\(entity_identifier\)\s*\.map\(\|location\| Entry::new\(self, location\)\)",
                      "match self.entity_allocator.get(entity_identifier) { Some(location) => Some(Entry::new(self, location)), None => None }",
                      "R5c: Option::map(closure) written as the match it is defined to be", True)],
           requires=PRE,
           ensures=[("C02.entry.some_iff_live", "r is Some == old(self).view().dom().contains(entity_identifier)"),
                    ("C03.entry.that_entity", "r is Some ==> r->0.wf() && r->0.id() == entity_identifier && *r->0.world == *old(self)")],
           props=["C02", "C03", "C01"]),
    ])

    WS = "src/world/impl_serde.rs"
    u.text(SERDE_PRELUDE)
    SEQ = lambda n, call: (r"seq\s*\.next_element(?:_seed)?\(%s\)\?\s*\.ok_or_else\(\|\| de::Error::invalid_length\(%d, &self\)\)\?" % (call[0], n),
                           "vx_some_or_invalid_length(%s?, %d)?" % (call[1], n),
                           "R9: SeqAccess::next_element[_seed] + Option::ok_or_else(closure) as assumed-contract calls (A10)")
    u.impl("impl<Registry, Resources> World<Registry, Resources> where Registry: crate::Registry", [
        Fn(WS, r"^\s*impl<'de, Registry, Resources> Visitor<'de> for WorldVisitor<'de, Registry, Resources>", "visit_seq", ret="r",
           emit_name="vx_visit_seq", vis="pub", generics="", where="",
           params="mut seq: VxSeq", ret_type="Result<World<Registry, Resources>, VxErr>",
           rewrites=[SEQ(0, (r"DeserializeArchetypes::new\(&mut len\)", "vx_next_archetypes::<Registry>(&mut seq, &mut len)")),
                     SEQ(1, (r"DeserializeAllocator::new\(&archetypes\)", "vx_next_allocator::<Registry>(&mut seq, &archetypes)")),
                     SEQ(2, (r"", "vx_next_resources::<Resources>(&mut seq)")),
                     (r"resource::Deserializer<Resources>", "VxResDe<Resources>", "R7: the resource-list deserializer wrapper")],
           ensures=[("C18.deserialize_checked", "r is Ok ==> vx_no_duplicates::<Registry>()"),
                    ("C06.world.built_from_stream", "r is Ok ==> r->Ok_0.archetypes == vx_seq_archs::<Registry>(seq) && r->Ok_0.len == vx_seq_len(seq)"),
                    ("C11.world.allocator_from_stream", "r is Ok ==> r->Ok_0.entity_allocator == vx_seq_alloc::<Registry>(vx_seq_next(seq))"),
                    ("C15.deserialize.resources", "r is Ok ==> r->Ok_0.resources == vx_seq_res::<Resources>(vx_seq_next(vx_seq_next(seq)))"),
                    ("C13.deserialize.world_wf", "r is Ok ==> r->Ok_0.wf()"),
                    ("C13.deserialize.len", "r is Ok ==> r->Ok_0.len == r->Ok_0.entity_allocator.active_count() && r->Ok_0.len == vx_total_rows(r->Ok_0.archetypes@)")],
           props=["C18", "C06", "C11", "C15", "C13"]),
    ])

    WQ = "src/world/impl_eq.rs"
    u.impl("impl<Registry, Resources> World<Registry, Resources> where Registry: crate::Registry", [
        Fn(WQ, r"^impl<Registry, Resources> cmp::PartialEq for World<Registry, Resources>", "eq", ret="b", vis="pub",
           rewrites=[(r"self\.archetypes == other\.archetypes", "vx_eq_archetypes(&self.archetypes, &other.archetypes)", "R15: == on Archetypes is Archetypes::eq (unit archs)"),
                     (r"self\.entity_allocator == other\.entity_allocator", "vx_eq_allocator(&self.entity_allocator, &other.entity_allocator)", "R15: == on Allocator is Allocator::eq (K-eq)"),
                     (r"self\.resources == other\.resources", "vx_eq_values(&self.resources, &other.resources)", "R15: == on the resource list is user PartialEq (A8)")],
           ensures=[("C16.world_eq", "b == (self.len == other.len && vx_archetypes_eq(self.archetypes, other.archetypes) && vx_allocator_eq(self.entity_allocator, other.entity_allocator) && vx_values_eq(self.resources, other.resources))")],
           props=["C16"]),
    ])

    u.impl("impl<Registry, Resources> World<Registry, Resources> where Registry: crate::Registry", [
        Fn(WS, r"^impl<Registry, Resources> serde::Serialize for World<Registry, Resources>", "serialize", ret="r",
           vis="pub", generics="", where="",
           params="&self, serializer: VxSerializer", ret_type="Result<VxSerOk, VxErr>",
           rewrites=[(r"resource::Serializer\(", "VxResSer(", "R7: the resource-list serializer wrapper")],
           ensures=[("C06.world.serialized_parts", "r is Ok ==> r->Ok_0.declared() == 3 && r->Ok_0.elems() == seq![vx_ser_of(self.archetypes), vx_ser_of(self.entity_allocator), vx_ser_of(VxResSer(&self.resources))]")],
           props=["C06", "C15", "C01"]),
    ])
    u.text(WORLD_LEMMAS)
    u.type_rewrites += [
        (r"\bregistry::Registry\b", "crate::Registry", "path of the Registry trait"),
        (r"\bself::Entities\b", "crate::EntitiesMarker", "path"),
    ]
    u.pre_rewrites += [
        (r"Registry::LEN - Registry::INDEX - 1", "vx_component_index::<Component>()", "R8: registry position of the component (associated consts of a type-level list)"),
        (r"self\.location\.identifier\.get_unchecked\(component_index\)", "vx_ref_get_unchecked(self.location.identifier, component_index)", "R7: IdentifierRef::get_unchecked (K-bits)"),
        (r"self\.location\.identifier\.as_vec\(\)", "vx_ref_as_vec(self.location.identifier)", "R7: IdentifierRef::as_vec (K-bits)"),
        (r"archetype::Identifier::<Registry>::new\(", "archetype::Identifier::<Registry>::new(", "R7"),
        (r"\barchetypes\s*\.get_mut_or_insert_new\(", "archetypes.vx_get_mut_or_insert_new(", "R7: lookup-or-insert by identifier bytes (assumed contract)"),
        (r"current_component_bytes\.as_ptr\(\)", "archetype::vx_as_ptr(&current_component_bytes)", "R6b: packed row buffer pointer"),
        (r"Registry::assert_no_duplicates\(&mut HashSet::with_capacity_and_hasher\(\s*Registry::LEN,\s*FnvBuildHasher::default\(\),\s*\)\);",
         "vx_assert_no_duplicates::<Registry>();",
         "R6/A4: the duplicate-component assertion (hashbrown HashSet of TypeIds) is an assumed-contract call, wherever it appears"),
        (r"Registry::canonical\(entity\)", "vx_canonical(entity)", "R6: canonical reordering is an assumed-contract call (K-bits)"),
        (r"Registry::canonical\(entities\.entities\)", "vx_canonical_batch(entities.entities)", "R6: canonical reordering is an assumed-contract call"),
        (r"\barchetypes\s*\.get_unchecked_mut\(", "archetypes.vx_get_unchecked_mut(",
         "R7: Archetypes::get_unchecked_mut is a method of the external table type, not slice::get_unchecked_mut"),
    ]
    u.label_props.update({
        "C13.world_wf": ["C13", "C01", "C02"],
        "C15": ["C15"],
        "C18": ["C18"],
        "world": ["C13"],
        "batch": ["C01"],
    })
    return u


ENTRY_SPEC = r'''
impl<'a, Registry: crate::Registry, Resources> Entry<'a, Registry, Resources> {
    /// the entry points at a stored row of a well-formed world
    pub open spec fn wf(&self) -> bool {
        &&& self.world.wf()
        &&& self.world.archetypes@.dom().contains(self.location.identifier)
        &&& self.location.index < self.world.archetypes@[self.location.identifier].length
    }
    /// the identifier of the entity this entry refers to
    pub open spec fn id(&self) -> entity::Identifier {
        self.world.archetypes@[self.location.identifier].ids()[self.location.index as int]
    }
}
/// byte buffer with bit `i` set
pub open spec fn vx_bytes_set(bytes: Seq<u8>, i: int) -> Seq<u8> {
    bytes.update(i / 8, bytes[i / 8] | (1u8 << ((i % 8) as u8)))
}
/// (component set, row) of an entity after `Entry::add(component)`: the cell is overwritten if
/// the component is present, else the component joins the set
pub open spec fn vx_added<R: Registry, C>(e: (VxBits, archetype::VxRow), c: C) -> (VxBits, archetype::VxRow) {
    if vx_bit(e.0, vx_cidx::<C>() as int) { (e.0, archetype::vx_row_set(e.1, c)) }
    else { (vx_bytes_set(e.0, vx_cidx::<C>() as int), archetype::vx_row_add(e.1, c)) }
}
/// byte buffer with bit `i` flipped (Entry::remove flips a bit it has just seen set)
pub open spec fn vx_bytes_flip(bytes: Seq<u8>, i: int) -> Seq<u8> {
    bytes.update(i / 8, bytes[i / 8] ^ (1u8 << ((i % 8) as u8)))
}
/// (component set, row) after `Entry::remove::<C>()`: unchanged if absent, else C leaves the set
pub open spec fn vx_removed<R: Registry, C>(e: (VxBits, archetype::VxRow)) -> (VxBits, archetype::VxRow) {
    if vx_bit(e.0, vx_cidx::<C>() as int) { (vx_bytes_flip(e.0, vx_cidx::<C>() as int), archetype::vx_row_remove(e.1, PhantomData::<C>)) }
    else { e }
}
'''

WORLD_LEMMAS = r'''
/// after `table.push(entity, allocator)` on the table selected for `bits`
pub proof fn lemma_world_after_push<Registry: crate::Registry, Resources>(
    w0: &World<Registry, Resources>, w1: &World<Registry, Resources>, id: entity::Identifier, bits: VxBits, row: archetype::VxRow)
    requires true,
    ensures true,
{
}
'''
