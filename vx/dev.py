"""dev helper: python3 -m vx.dev <unit>  -> emits /verif/work/<unit>.rs and runs verus, prints failures"""
import importlib, sys, os, json
from . import vxlib

def main():
    name = sys.argv[1]
    mod = importlib.import_module(f"vx.specs.{name}")
    u = mod.build()
    em = vxlib.Emitter(u)
    text = em.run()
    os.makedirs("/verif/work", exist_ok=True)
    path = f"/verif/work/{name}.rs"
    open(path, "w").write(text)
    if "--emit-only" in sys.argv:
        return
    extra = []
    for a in sys.argv[2:]:
        if a.startswith("--fn="):
            extra += ["--verify-root", "--verify-function", a[5:]]
    res = vxlib.run_verus(path, extra=extra)
    fails, hard = vxlib.classify(em, res)
    vr = (res["json"] or {}).get("verification-results")
    print("verus rc", res["rc"], vr, "wall %.1fs" % res["wall_s"])
    for h in hard:
        print("HARD:", h)
    if hard and "-v" in sys.argv or (res["json"] is None):
        for d in res["diags"]:
            if d.get("level") == "error":
                print(d.get("rendered"))
        if not res["diags"]: print(res["stderr"][-3000:])
    for f in fails:
        print("FAIL:", f["fn"], "|", f["message"], "| label:", f["label"], "| kind:", f["kind"], "| site:", f["site"])
        if "-v" in sys.argv: print(f["rendered"])
    print("rules:", em.rule_counts)

main()
