"""Engine V: mechanical extraction of real brood functions into a Verus file.

Nothing here contains brood code.  A *unit* (see vx/specs/*.py) names the real items to
extract (file, impl header, fn name) and carries the contracts (labelled requires / ensures /
loop invariants / proof hints).  On every run the text of each item is read from the current
working tree of the repository, rewritten by the global rules RULES below (each rule states what
it drops), the contract clauses are spliced in, and the result is handed to `verus`.

Exit conventions are implemented by the caller (../check): a lost anchor or an unsupported
construct raises Inconclusive -> exit 2, never a violation.
"""
import json
import os
import re
import subprocess
import time

REPO = os.environ.get("VERIF_REPO", "/repo")


class Inconclusive(Exception):
    pass


# --------------------------------------------------------------------------- lexical helpers

def strip_comments(text):
    """Remove // and /* */ comments (incl. doc comments); keep strings, chars, lifetimes."""
    out = []
    i, n = 0, len(text)
    while i < n:
        c = text[i]
        if text.startswith("//", i):
            j = text.find("\n", i)
            if j < 0:
                j = n
            i = j
            continue
        if text.startswith("/*", i):
            depth, j = 1, i + 2
            while j < n and depth:
                if text.startswith("/*", j):
                    depth += 1
                    j += 2
                elif text.startswith("*/", j):
                    depth -= 1
                    j += 2
                else:
                    j += 1
            i = j
            continue
        if c == '"':
            j = i + 1
            while j < n and text[j] != '"':
                j += 2 if text[j] == "\\" else 1
            out.append(text[i:j + 1])
            i = j + 1
            continue
        if c == "'":
            # char literal or lifetime
            m = re.match(r"'(\\.[^']*|[^'\\])'", text[i:])
            if m:
                out.append(m.group(0))
                i += len(m.group(0))
                continue
        out.append(c)
        i += 1
    res = "".join(out)
    # drop lines that became empty
    res = re.sub(r"[ \t]+\n", "\n", res)
    res = re.sub(r"\n{3,}", "\n\n", res)
    return res


OPEN = {"{": "}", "(": ")", "[": "]"}


def match_close(text, i):
    """text[i] is an opening bracket; return index of its partner."""
    stack = []
    n = len(text)
    j = i
    while j < n:
        c = text[j]
        if c == '"':
            j += 1
            while j < n and text[j] != '"':
                j += 2 if text[j] == "\\" else 1
        elif c == "'":
            m = re.match(r"'(\\.[^']*|[^'\\])'", text[j:])
            if m:
                j += len(m.group(0)) - 1
        elif c in OPEN:
            stack.append(OPEN[c])
        elif c in "})]":
            if not stack or stack[-1] != c:
                raise Inconclusive("unbalanced brackets while extracting")
            stack.pop()
            if not stack:
                return j
        j += 1
    raise Inconclusive("unterminated block while extracting")


def match_angle(text, i):
    """text[i] == '<' (generic list). Return index of matching '>' (ignores '->')."""
    depth = 0
    j = i
    while j < len(text):
        c = text[j]
        if c == "<":
            depth += 1
        elif c == ">" and text[j - 1] != "-":
            depth -= 1
            if depth == 0:
                return j
        elif c in "({[":
            j = match_close(text, j)
        j += 1
    raise Inconclusive("unterminated generic list")


def first_brace_at_depth0(text, i):
    """Index of first '{' after i that is not nested in () or []."""
    j = i
    while j < len(text):
        c = text[j]
        if c in "([":
            j = match_close(text, j)
        elif c == "{":
            return j
        j += 1
    raise Inconclusive("no block found")


_SRC_CACHE = {}


def source(rel):
    p = os.path.join(REPO, rel)
    if p not in _SRC_CACHE:
        if not os.path.exists(p):
            raise Inconclusive(f"lost anchor: file {rel} not found")
        _SRC_CACHE[p] = strip_comments(open(p).read())
    return _SRC_CACHE[p]


def find_unique(pattern, text, what):
    ms = list(re.finditer(pattern, text, re.M))
    if len(ms) != 1:
        raise Inconclusive(f"lost anchor: {what}: {len(ms)} matches for /{pattern}/")
    return ms[0]


def impl_block(rel, header_re):
    """Return the text between the braces of the (unique) impl whose header matches."""
    text = source(rel)
    m = find_unique(header_re, text, f"impl in {rel}")
    b = first_brace_at_depth0(text, m.end() - 1 if text[m.end() - 1] == "{" else m.end())
    e = match_close(text, b)
    return text[b + 1:e]


ATTR_RE = re.compile(r"(\s*#\[[^\]]*\]\s*)+$")


class FnText:
    def __init__(self, vis, unsafe, name, generics, params, ret, where, body, const=False):
        self.vis, self.unsafe, self.name, self.generics = vis, unsafe, name, generics
        self.params, self.ret, self.where, self.body = params, ret, where, body
        self.const = const


def find_fn(block, name, what):
    """Find `fn name` at nesting depth 0 of `block` (an impl body or a whole file)."""
    pat = re.compile(r"(?P<vis>pub(?:\([^)]*\))?\s+)?(?P<const>const\s+)?(?P<unsafe>unsafe\s+)?fn\s+" + re.escape(name) + r"\b")
    cands = []
    for m in pat.finditer(block):
        # depth-0 check
        depth = 0
        k = 0
        ok = True
        # cheap depth computation: count braces before m.start() (strings are rare in prefixes)
        pre = block[:m.start()]
        depth = pre.count("{") - pre.count("}")
        if depth == 0:
            cands.append(m)
    if len(cands) != 1:
        raise Inconclusive(f"lost anchor: fn {name} in {what}: {len(cands)} candidates")
    m = cands[0]
    i = m.end()
    generics = ""
    while block[i].isspace():
        i += 1
    if block[i] == "<":
        j = match_angle(block, i)
        generics = block[i:j + 1]
        i = j + 1
    while block[i].isspace():
        i += 1
    if block[i] != "(":
        raise Inconclusive(f"unsupported construct: fn {name}: parameter list not found")
    j = match_close(block, i)
    params = block[i + 1:j]
    i = j + 1
    b = first_brace_at_depth0(block, i)
    tail = block[i:b]
    ret, where = "", ""
    mw = re.search(r"\bwhere\b", tail)
    if mw:
        where = tail[mw.end():].strip()
        tail = tail[:mw.start()]
    mr = re.search(r"->\s*(.+)", tail, re.S)
    if mr:
        ret = mr.group(1).strip()
    e = match_close(block, b)
    body = block[b + 1:e]
    return FnText((m.group("vis") or "").strip(), bool(m.group("unsafe")), name, generics,
                  params.strip(), ret, where, body, const=bool(m.group("const")))


def find_struct(rel, name):
    text = source(rel)
    m = find_unique(r"^\s*(pub(?:\([^)]*\))?\s+)?struct\s+" + re.escape(name) + r"\b", text, f"struct {name} in {rel}")
    b = first_brace_at_depth0(text, m.end())
    e = match_close(text, b)
    head = text[m.start():b]
    return head.strip(), text[b + 1:e]


# --------------------------------------------------------------------------- rewrite rules
# (name, regex, replacement, what-it-drops).  Applied to every extracted body, in order.

RULES = [
    ("R3a", r"unsafe\s*\{\s*([^{};]*?)\s*\}\s*\.(?=\w)", r"(\1).",
     "`unsafe { PLACE }.field` -> `(PLACE).field` (the unsafe keyword; needed because the inner get_unchecked_mut becomes an index place)"),
    ("R1a", r"unsafe\s*\{\s*([\w\.]+?)\.get_unchecked_mut\(([^()]*(?:\([^()]*\))?[^()]*)\)\s*\}(?!\s*\.)", r"&mut \1[\2]",
     "unsafe marker of get_unchecked_mut; the bound becomes a proof obligation"),
    ("R1b", r"unsafe\s*\{\s*([\w\.]+?)\.get_unchecked\(([^()]*(?:\([^()]*\))?[^()]*)\)\s*\}(?!\s*\.)", r"&\1[\2]",
     "unsafe marker of get_unchecked; the bound becomes a proof obligation"),
    ("R1e", r"\*\s*([\w\.]+?)\s*\.get_unchecked(?:_mut)?\(([^()]*(?:\([^()]*\))?[^()]*)\)", r"\1[\2]",
     "`*X.get_unchecked(i)` -> `X[i]` (bound is a proof obligation)"),
    ("R1c", r"([\w\.]+?)\s*\.get_unchecked_mut\(([^()]*(?:\([^()]*\))?[^()]*)\)", r"\1[\2]",
     "get_unchecked_mut in a place expression -> checked index (bound is a proof obligation)"),
    ("R1d", r"([\w\.]+?)\s*\.get_unchecked\(([^()]*(?:\([^()]*\))?[^()]*)\)", r"\1[\2]",
     "get_unchecked in a place expression -> checked index (bound is a proof obligation)"),
    ("R2a", r"\.unwrap_unchecked\(\)", r".unwrap()",
     "unwrap_unchecked -> unwrap whose precondition `is Some` is a proof obligation"),
    ("R2b", r"\bunreachable_unchecked\(\)", r"vx_unreachable()",
     "unreachable_unchecked -> call with `requires false`"),
    ("R10a", r"\bdebug_assert!\(", r"assert(",
     "debug_assert! -> static assert obligation"),
]


def rule_extend_map(body, counts):
    """R5: `X.extend(I.map(|p| E));` -> push loop.  I is `(a..b)` (-> for loop) or a plain
    iterator variable (-> while-let over I.next()).  Assumes std's Extend = push in order (A1)."""
    pos = 0
    while True:
        m = re.compile(r"([\w\.]+?)\s*\.extend\(").search(body, pos)
        if not m:
            return body
        o = m.end() - 1
        c = match_close(body, o)
        arg = body[o + 1:c].strip().rstrip(",").strip()
        mm = re.match(r"^(\((?P<a>[^()]*?)\.\.(?P<b>[^()]*?)\)|(?P<it>[\w\.]+))\s*\.map\(", arg, re.S)
        end = c + 1
        while end < len(body) and body[end].isspace():
            end += 1
        if not mm or end >= len(body) or body[end] != ";":
            pos = m.end()
            continue
        mo = mm.end() - 1
        mc = match_close(arg, mo)
        if arg[mc + 1:].strip():
            pos = m.end()
            continue
        clo = arg[mo + 1:mc].strip()
        mc2 = re.match(r"^\|\s*(\w+)\s*\|\s*(.*)$", clo, re.S)
        if not mc2:
            pos = m.end()
            continue
        p, e = mc2.group(1), mc2.group(2).strip()
        x = m.group(1)
        if mm.group("it"):
            rep = f"while let Some({p}) = {mm.group('it')}.next() {{\n {x}.push({e});\n }}"
            counts["R5a"] = counts.get("R5a", 0) + 1
        else:
            rep = f"for {p} in {mm.group('a').strip()}..{mm.group('b').strip()} {{\n {x}.push({e});\n }}"
            counts["R5b"] = counts.get("R5b", 0) + 1
        body = body[:m.start()] + rep + body[end + 1:]
        pos = m.start() + len(rep)


def rule_iter_map(body, counts):
    """R5d: `Y.iter().map(|p| E).collect()` -> block building a fresh Vec with an index loop;
    R5e: `X.extend(Y.iter().map(|p| E));` -> index loop pushing onto X.
    Y must be a plain place expression.  Assumes slice::Iter yields &Y[0], &Y[1], ... (A1)."""
    pat = re.compile(r"(\w+(?:\s*\.\s*\w+)*?)\s*\.iter\(\)\s*\.map\(")
    pos = 0
    while True:
        m = pat.search(body, pos)
        if not m:
            return body
        y = re.sub(r"\s+", "", m.group(1))
        mo = m.end() - 1
        mc = match_close(body, mo)
        clo = body[mo + 1:mc].strip()
        mc2 = re.match(r"^\|\s*(\w+)\s*\|\s*(.*)$", clo, re.S)
        if not mc2:
            pos = m.end()
            continue
        p, e = mc2.group(1), mc2.group(2).strip()
        rest = body[mc + 1:]
        mcol = re.match(r"\s*\.collect\(\)", rest)
        if mcol:
            rep = (f"{{ let mut vx_v = Vec::new(); let mut vx_i: usize = 0; while vx_i < {y}.len() "
                   f"{{\n let {p} = &{y}[vx_i];\n vx_v.push({e});\n vx_i += 1;\n }} vx_v }}")
            body = body[:m.start()] + rep + rest[mcol.end():]
            counts["R5d"] = counts.get("R5d", 0) + 1
            pos = m.start() + len(rep)
            continue
        # extend form: look backwards for `X.extend(` directly before the match
        pre = body[:m.start()]
        mx = re.search(r"(\w+(?:\s*\.\s*\w+)*?)\s*\.extend\(\s*$", pre)
        mend = re.match(r"\s*,?\s*\)\s*;", rest)
        if mx and mend:
            x = re.sub(r"\s+", "", mx.group(1))
            rep = (f"{{ let mut vx_i: usize = 0; while vx_i < {y}.len() "
                   f"{{\n let {p} = &{y}[vx_i];\n {x}.push({e});\n vx_i += 1;\n }} }}")
            body = pre[:mx.start()] + rep + rest[mend.end():]
            counts["R5e"] = counts.get("R5e", 0) + 1
            pos = mx.start() + len(rep)
            continue
        pos = m.end()


def rule_raw_vec(body, counts):
    """R4: `let mut V = ManuallyDrop::new(unsafe { Vec::from_raw_parts(self.F.0, L, self.F.1) });`
    The field F is re-typed `Vec<T>` in the emitted struct; the reconstruction becomes the proof
    obligation `F@.len() == L` (from_raw_parts' length precondition), every later use of the local
    V becomes `self.F`, and the write-back `self.F = (V.as_mut_ptr(), V.capacity());` is deleted.
    Drops: pointer identity, capacity and the write-back after growth (picked up by engine K)."""
    pat = re.compile(r"let\s+mut\s+(\w+)\s*=\s*ManuallyDrop::new\(\s*unsafe\s*\{\s*Vec::from_raw_parts\(\s*"
                     r"self\.(\w+)\.0\s*,\s*([^,]+?)\s*,\s*self\.(\w+)\.1\s*,?\s*\)\s*\}\s*,?\s*\)\s*;", re.S)
    while True:
        m = pat.search(body)
        if not m:
            return body
        v, f, length, f2 = m.group(1), m.group(2), m.group(3), m.group(4)
        if f != f2:
            raise Inconclusive("unsupported construct: from_raw_parts mixes two fields")
        head = body[:m.start()] + f"vx_raw_vec_len(&mut self.{f}, {length});"
        tail = body[m.end():]
        tail = re.sub(r"(?<![\w\.])" + re.escape(v) + r"\b", f"self.{f}", tail)
        tail, k = re.subn(r"self\." + f + r"\s*=\s*\(\s*self\." + f + r"\.as_mut_ptr\(\)\s*,\s*self\." + f
                          + r"\.capacity\(\)\s*,?\s*\)\s*;", f"/* R4: write-back of self.{f} dropped */", tail)
        counts["R4"] = counts.get("R4", 0) + 1
        counts["R4.writeback_dropped"] = counts.get("R4.writeback_dropped", 0) + k
        body = head + tail


def rule_extend_iter(body, counts):
    """R5f: `X.extend(Y.iter());` (Extend<&T> for Vec<T: Copy>) -> index loop pushing Y[i]."""
    pat = re.compile(r"(\w+(?:\s*\.\s*\w+)*?)\s*\.extend\(\s*(\w+(?:\s*\.\s*\w+)*?)\s*\.iter\(\)\s*\)\s*;")
    def rep(m):
        counts["R5f"] = counts.get("R5f", 0) + 1
        x = re.sub(r"\s+", "", m.group(1)); y = re.sub(r"\s+", "", m.group(2))
        return (f"{{ let mut vx_i: usize = 0; while vx_i < {y}.len() "
                f"{{\n {x}.push({y}[vx_i]);\n vx_i += 1;\n }} }}")
    return pat.sub(rep, body)


def rule_ref_pattern(body, counts):
    """R13: `if let Some(&x) = E {` -> `if let Some(vx_ref_x) = E { let x = *vx_ref_x;` (Verus has
    no reference patterns; the binding is the same copy)."""
    pat = re.compile(r"if let Some\(&(\w+)\) = ")
    pos = 0
    while True:
        m = pat.search(body, pos)
        if not m:
            return body
        x = m.group(1)
        b = first_brace_at_depth0(body, m.end())
        body = body[:m.start()] + f"if let Some(vx_ref_{x}) = " + body[m.end():b + 1] + f" let {x} = *vx_ref_{x};" + body[b + 1:]
        counts["R13"] = counts.get("R13", 0) + 1
        pos = m.start() + 10


FUNC_RULES = [
    ("R13", rule_ref_pattern, "reference pattern `Some(&x)` -> bind the reference and copy out of it"),
    ("R5f", rule_extend_iter, "X.extend(Y.iter()) -> explicit index loop pushing copies (assumes slice iteration order)"),
    ("R4", rule_raw_vec, "raw-parts encoding of a Vec field (pointer, capacity, write-back); the from_raw_parts length precondition becomes a proof obligation"),
    ("R5d/e", rule_iter_map, "iterator adapter Y.iter().map(f) in collect()/extend() -> explicit index loop (assumes slice iteration order)"),
    ("R5", rule_extend_map, "iterator adapter in Vec::extend(iter.map(f)) -> explicit push loop (assumes Extend pushes in iteration order)"),
]


def apply_rules(body, counts):
    for name, fn, _ in FUNC_RULES:
        body = fn(body, counts)
    for name, pat, repl, _ in RULES:
        body, k = re.subn(pat, repl, body, flags=re.S)
        counts[name] = counts.get(name, 0) + k
    return body


def apply_for_rewrites(body, for_rewrites, counts):
    counts.pop("R14.fn", None)
    # loops are numbered in textual order within the function: process the earliest match first
    while True:
        best = None
        for fr in for_rewrites:
            m = re.compile(fr[0] + r"\s*\{").search(body)
            if m and (best is None or m.start() < best[1].start()):
                best = (fr, m)
        if best is None:
            counts.pop("R14.fn", None)
            return body
        body = _apply_one_for(body, best[0], best[1], counts)


def _apply_one_for(body, fr, m, counts):
    (hdr, init, cond, bind, step, _why) = fr
    if True:
        if True:
            b = m.end() - 1
            e = match_close(body, b)
            inner = body[b + 1:e]
            ex = lambda t: m.expand(t)
            counts["R14"] = counts.get("R14", 0) + 1
            nth = str(counts["R14.fn"] + 1) if "R14.fn" in counts else "1"
            counts["R14.fn"] = int(nth)
            rep = (ex(init) + "\n while " + ex(cond) + " {\n " + ex(bind) + "\n" + inner + "\n " + ex(step) + "\n }").replace("#", nth)
            return body[:m.start()] + rep + body[e + 1:]


def _old_apply_for_rewrites(body, for_rewrites, counts):
    for (hdr, init, cond, bind, step, _why) in for_rewrites:
        pat = re.compile(hdr + r"\s*\{")
        pos = 0
        while True:
            m = pat.search(body, pos)
            if not m:
                break
            b = m.end() - 1
            e = match_close(body, b)
            inner = body[b + 1:e]
            ex = lambda t: m.expand(t)
            counts["R14"] = counts.get("R14", 0) + 1
            nth = str(counts["R14.fn"] + 1) if "R14.fn" in counts else "1"
            counts["R14.fn"] = int(nth)
            rep = (ex(init) + "\n while " + ex(cond) + " {\n " + ex(bind) + "\n" + inner + "\n " + ex(step) + "\n }").replace("#", nth)
            body = body[:m.start()] + rep + body[e + 1:]
            pos = m.start() + len(ex(init)) + 10
    return body



def inline_assoc_consts(body, block, counts):
    """R17: `Self::NAME`, where `const NAME: T = EXPR;` is an associated constant of the same impl
    block, is replaced by `(EXPR)` (a constant expression is its value; Verus has no associated
    constants)."""
    for name in sorted(set(re.findall(r"\bSelf::([A-Z][A-Z0-9_]*)\b", body))):
        m = re.search(r"\bconst\s+" + name + r"\s*:\s*[^=;]+=", block)
        if not m:
            continue
        i = m.end()
        j = i
        while j < len(block) and block[j] != ";":
            if block[j] in "({[":
                j = match_close(block, j)
            j += 1
        expr = block[i:j].strip()
        if re.search(r"\bSelf::[A-Z][A-Z0-9_]*\b", expr):
            continue  # a constant defined through another one: left alone (Verus will refuse it)
        body, k = re.subn(r"\bSelf::" + name + r"\b", "(" + expr + ")", body)
        counts["R17"] = counts.get("R17", 0) + k
    return body


INVENTORY_FILE = os.path.join(os.path.dirname(os.path.abspath(__file__)), "inventory.json")


def fn_names_at_depth0(block):
    """names of the functions declared directly in `block` (an impl body)"""
    names = []
    for m in re.finditer(r"\bfn\s+(\w+)\b", block):
        pre = block[:m.start()]
        if pre.count("{") - pre.count("}") == 0:
            names.append(m.group(1))
    return sorted(set(names))


def check_inventory(unit_name, seen):
    """Contract inventory: every impl block a unit takes a function from is listed, with the names
    of all its functions, in vx/inventory.json (written from the pinned tree by `python3 -m
    vx.inventory`).  A function that appears in such a block later -- e.g. an override of a trait
    method whose default is derived from a function under contract -- has no contract: the unit
    answers INCONCLUSIVE instead of silently ignoring it."""
    try:
        base = json.load(open(INVENTORY_FILE))
    except (OSError, ValueError):
        return
    for key, names in seen.items():
        known = base.get(f"{unit_name}|{key}")
        if known is None:
            continue
        extra = [n for n in names if n not in known]
        if extra:
            raise Inconclusive(f"needs a contract: {key} gained function(s) {extra} that no contract covers")

def bind_tail_expr(body, fnq):
    """`...; TAIL` -> `...; let vx_r = TAIL; vx_r` so that proof hints can follow the computation
    of the result (annotation plumbing only: evaluation order and value are unchanged)."""
    b = body.rstrip()
    depth = 0
    last = -1
    i = 0
    while i < len(b):
        c = b[i]
        if c in "({[":
            i = match_close(b, i)
        elif c == ";":
            last = i
        i += 1
    tail = b[last + 1:]
    if not tail.strip():
        raise Inconclusive(f"unsupported construct: {fnq}: no tail expression to bind")
    return b[:last + 1] + "\n        let vx_r = " + tail.strip() + ";\n        vx_r\n"


# --------------------------------------------------------------------------- unit description

class Clause:
    def __init__(self, label, text):
        self.label, self.text = label, text


def clauses(lst):
    return [Clause(l, t) for (l, t) in (lst or [])]


class Loop:
    def __init__(self, invariant=None, decreases=None, ensures=None, invariant_except_break=None):
        self.invariant = clauses(invariant)
        self.invariant_except_break = clauses(invariant_except_break)
        self.ensures = clauses(ensures)
        self.decreases = decreases


class Hint:
    """A proof hint spliced in relative to the first statement matching `anchor` (regex on the
    rewritten body).  where: 'start' | 'end' | 'after' | 'before'."""

    def __init__(self, where, text, anchor=None, nth=0):
        self.where, self.text, self.anchor, self.nth = where, text, anchor, nth


class Fn:
    def __init__(self, rel, impl, name, ret=None, requires=None, ensures=None, loops=None, hints=None,
                 rewrites=None, sig=None, props=None, external_body=False, no_unwind=False,
                 params=None, generics=None, where=None, ret_type=None, emit_name=None, decreases=None, vis=None, bind_tail=False, attrs=None):
        self.rel, self.impl, self.name = rel, impl, name
        self.ret = ret
        self.requires, self.ensures = clauses(requires), clauses(ensures)
        self.loops = loops or []
        self.hints = hints or []
        self.rewrites = rewrites or []  # unit-local (regex, repl, why) -- reported in evidence
        self.props = props or []
        self.external_body = external_body
        self.params, self.generics, self.where, self.ret_type = params, generics, where, ret_type
        self.emit_name = emit_name
        self.decreases = decreases
        self.vis = vis
        self.no_unwind = no_unwind
        self.bind_tail = bind_tail
        self.attrs = attrs or []  # verifier attributes that only affect proof search (e.g. loop_isolation)


class Unit:
    def __init__(self, name):
        self.name = name
        self.parts = []  # ('text', str) | ('struct', rel, name, kw) | ('impl', header, [Fn]) | ('fn', Fn)
        self.type_rewrites = []  # (regex, repl, why) applied to every extracted signature/body/struct
        self.witnesses = []  # names of proof fns that are reachability witnesses
        self.pre_rewrites = []  # (regex, repl, why) applied to every extracted body BEFORE the global rules
        # R14: (header regex `for PAT in EXPR`, init, cond, bind, step, why): a `for` over an
        # external (hashbrown) iterator becomes an index loop over a ghost enumeration of the table
        self.for_rewrites = []
        self.label_props = {}  # label prefix -> [property ids] (longest prefix wins)
        self.rlimit = 90  # allocate_batch needs 10-25 rlimit units depending on the solver seed and on unrelated text in the file (measured 31-70M = 10-23 units); >3x headroom

    def text(self, s):
        self.parts.append(("text", s))

    def struct(self, rel, name, **kw):
        self.parts.append(("struct", rel, name, kw))

    def impl(self, header, fns, trait=None):
        self.parts.append(("impl", header, fns, trait))


# --------------------------------------------------------------------------- emission

class Emitter:
    def __init__(self, unit):
        self.unit = unit
        self.lines = []
        self.labels = {}  # line number (1-based) -> (fn, kind, label)
        self.fn_ranges = []  # (start_line, end_line, qualified name)
        self.rule_counts = {}
        self.local_rewrites = []
        self.functions = []
        self.hint_lines = {}
        self.seen_blocks = {}

    def emit(self, s):
        for l in s.split("\n"):
            self.lines.append(l)

    def emit_clause(self, fnq, kind, c, indent="        "):
        self.lines.append(f"{indent}{c.text},")
        self.labels[len(self.lines)] = (fnq, kind, c.label)

    def type_rw(self, s):
        for pat, repl, _ in self.unit.type_rewrites:
            s = re.sub(pat, repl, s, flags=re.S)
        return s

    def emit_struct(self, rel, name, kw):
        head, fields = find_struct(rel, name)
        head = re.sub(r"pub\([^)]*\)", "pub", head)
        if not head.startswith("pub"):
            head = "pub " + head
        fields = re.sub(r"pub\([^)]*\)", "pub", fields)
        fields = re.sub(r"#\[[^\]]*\]", "", fields)
        # make private fields public (spec functions live outside the impl's module otherwise)
        fields = re.sub(r"(?m)^(\s*)(?!pub\b)(\w+\s*:)", r"\1pub \2", fields)
        for pat, repl, _ in kw.get("field_rewrites", []):
            fields = re.sub(pat, repl, fields, flags=re.S)
        s = self.type_rw(head + " {" + fields + "}")
        for a in kw.get("attrs", []):
            self.emit(a)
        self.emit(s)
        self.emit("")

    def splice_loops(self, fnq, body, loops):
        if not loops:
            return body
        # find loop headers in textual order
        out = []
        pos = 0
        idx = 0
        for m in re.finditer(r"\b(while|for|loop)\b", body):
            if m.start() < pos:
                continue
            if idx >= len(loops):
                break
            b = first_brace_at_depth0(body, m.end())
            lp = loops[idx]
            idx += 1
            if lp is None:
                continue
            out.append(body[pos:b])
            pos = b
            out.append(("LOOP", lp))
        out.append(body[pos:])
        if idx < len([l for l in loops]):
            raise Inconclusive(f"lost anchor: {fnq}: expected {len(loops)} loops, found {idx}")
        return out

    def splice_hints(self, fnq, body, hints):
        for h in hints:
            if h.where == "start":
                body = "\n" + h.text + "\n" + body
                continue
            if h.where == "end":
                # before trailing expression is impossible in general; put before the last line
                body = body.rstrip()
                if body.endswith(";") or body.endswith("}"):
                    # no trailing expression (unit function, or a block statement): append
                    body = body + "\n" + h.text + "\n"
                else:
                    k = body.rfind("\n")
                    body = body[:k] + "\n" + h.text + body[k:] + "\n"
                continue
            ms = list(re.finditer(h.anchor, body, re.S))
            if len(ms) <= h.nth:
                raise Inconclusive(f"lost anchor: {fnq}: hint anchor /{h.anchor}/ not found")
            m = ms[h.nth]
            if h.where == "after":
                j = m.end()
                depth = 0
                while j < len(body):
                    c = body[j]
                    if c in "({[":
                        j = match_close(body, j)
                    elif c == ";":
                        break
                    elif c == "}":
                        k = j + 1
                        while k < len(body) and body[k].isspace():
                            k += 1
                        if k < len(body) and body[k] == ";":
                            j = k  # `unsafe { stmt };`
                        break
                    j += 1
                if j >= len(body) or body[j] != ";":
                    raise Inconclusive(f"lost anchor: {fnq}: statement end after /{h.anchor}/ not found")
                body = body[:j + 1] + "\n" + h.text + "\n" + body[j + 1:]
            elif h.where == "after_block":
                # after the `{ .. }` block that follows the anchor (an `if` / `if let` statement
                # without `else`)
                j = body.find("{", m.end())
                if j < 0:
                    raise Inconclusive(f"lost anchor: {fnq}: block after /{h.anchor}/ not found")
                j = match_close(body, j)
                body = body[:j + 1] + "\n" + h.text + "\n" + body[j + 1:]
            elif h.where == "before":
                j = body.rfind("\n", 0, m.start())
                body = body[:j + 1] + h.text + "\n" + body[j + 1:]
            else:
                raise Inconclusive("bad hint")
        return body

    def emit_fn(self, f, implname):
        if f.impl is not None:
            block = impl_block(f.rel, f.impl)
            what = f"{f.rel}::{implname}"
            self.seen_blocks[f"{f.rel}|{f.impl}"] = fn_names_at_depth0(block)
        else:
            block = source(f.rel)
            what = f.rel
        ft = find_fn(block, f.name, what)
        fnq = f"{implname}::{f.name}" if implname else f.name
        counts = {}
        body0 = inline_assoc_consts(ft.body, block, counts)
        for pat, repl, _ in self.unit.pre_rewrites:
            body0 = re.sub(pat, repl, body0, flags=re.S)
        body0 = apply_for_rewrites(body0, self.unit.for_rewrites, counts)
        body = apply_rules(body0, counts)
        for k, v in counts.items():
            self.rule_counts[k] = self.rule_counts.get(k, 0) + v
        for pat, repl, why, *opt in f.rewrites:
            if callable(pat):
                # a bracket-aware idiom rewrite (python function body -> (body, count)); `repl` is its
                # human-readable description for the evidence
                body, k = pat(body)
                if k == 0 and opt and opt[0]:
                    continue  # an idiom that need not be present (pure desugaring)
                if k == 0:
                    raise Inconclusive(f"lost anchor: {fnq}: idiom rewrite `{repl}` matched nothing")
                self.local_rewrites.append({"fn": fnq, "pattern": repl, "replacement": "(see vx/specs)", "why": why, "count": k})
                continue
            body, k = re.subn(pat, repl, body, flags=re.S)
            if k == 0 and opt and opt[0]:
                # a pure desugaring (e.g. Option::map(closure) -> match): code that is already
                # in the desugared form needs no rewrite
                continue
            if k == 0:
                raise Inconclusive(f"lost anchor: {fnq}: local rewrite /{pat}/ matched nothing")
            self.local_rewrites.append({"fn": fnq, "pattern": pat, "replacement": repl, "why": why, "count": k})
        body = self.type_rw(body)
        if f.bind_tail:
            body = bind_tail_expr(body, fnq)
        body = self.splice_hints(fnq, body, f.hints)
        pieces = self.splice_loops(fnq, body, f.loops)
        params = self.type_rw(f.params if f.params is not None else ft.params)
        params = re.sub(r"\s+", " ", params)
        generics = f.generics if f.generics is not None else self.type_rw(ft.generics)
        where = f.where if f.where is not None else self.type_rw(ft.where)
        ret = f.ret_type if f.ret_type is not None else self.type_rw(ft.ret)
        vis = "pub" if (ft.vis or f.vis) else ""
        if f.vis is not None:
            vis = f.vis
        start = len(self.lines) + 1
        for a in f.attrs:
            self.emit("    " + a)
        if f.external_body:
            self.emit("    #[verifier::external_body]")
        head = f"    {vis} {'unsafe ' if ft.unsafe else ''}fn {f.emit_name or f.name}{generics}({params})"
        if ret:
            head += f" -> ({f.ret or 'vx_r'}: {ret})"
        self.emit(head)
        if where:
            self.emit("        where " + re.sub(r"\s+", " ", where))
        if f.requires:
            self.emit("        requires")
            for c in f.requires:
                self.emit_clause(fnq, "requires", c, "            ")
        if f.ensures:
            self.emit("        ensures")
            for c in f.ensures:
                self.emit_clause(fnq, "ensures", c, "            ")
        if f.decreases:
            self.emit(f"        decreases {f.decreases}")
        if f.no_unwind:
            self.emit("        no_unwind")
        self.emit("    {")
        if f.external_body:
            self.emit("        unimplemented!()")
        elif isinstance(pieces, str):
            self.emit(pieces)
        else:
            li = 0
            for p in pieces:
                if isinstance(p, str):
                    self.emit(p)
                else:
                    lp = p[1]
                    li += 1
                    if lp.invariant_except_break:
                        self.emit("            invariant_except_break")
                        for c in lp.invariant_except_break:
                            self.emit_clause(fnq, f"loop{li}.invariant_except_break", c, "                ")
                    if lp.invariant:
                        self.emit("            invariant")
                        for c in lp.invariant:
                            self.emit_clause(fnq, f"loop{li}.invariant", c, "                ")
                    if lp.ensures:
                        self.emit("            ensures")
                        for c in lp.ensures:
                            self.emit_clause(fnq, f"loop{li}.ensures", c, "                ")
                    if lp.decreases:
                        self.emit(f"            decreases {lp.decreases}")
        self.emit("    }")
        self.emit("")
        self.fn_ranges.append((start, len(self.lines), fnq))
        self.functions.append({"fn": fnq, "source": f.rel, "labels": [c.label for c in f.requires + f.ensures],
                               "props": f.props, "external_body": f.external_body})

    def run(self):
        u = self.unit
        self.emit("// GENERATED on every run by /verif/vx from the working tree of the repository. Do not edit.")
        self.emit("#![feature(allocator_api)]")
        self.emit("#![allow(unused_imports, unused_variables, unused_mut, dead_code, unused_unsafe, unused_parens, unused_braces)]")
        self.emit("use vstd::prelude::*;")
        self.emit("verus! {")
        for p in u.parts:
            if p[0] == "text":
                self.emit(p[1])
            elif p[0] == "struct":
                self.emit_struct(p[1], p[2], p[3])
            elif p[0] == "impl":
                header, fns, trait = p[1], p[2], p[3]
                self.emit(header + " {")
                implname = re.sub(r"^impl(<[^>]*>)?\s*", "", header)
                implname = re.sub(r"\s*where.*$", "", implname, flags=re.S)
                implname = re.sub(r"<.*$", "", implname).strip()
                if trait:
                    implname = trait
                for f in fns:
                    if isinstance(f, str):
                        self.emit(f)
                    else:
                        self.emit_fn(f, implname)
                self.emit("}")
                self.emit("")
        self.emit("} // verus!")
        self.emit("fn main() {}")
        if not getattr(self, "skip_inventory", False):
            check_inventory(u.name, self.seen_blocks)
        return "\n".join(self.lines) + "\n"


# --------------------------------------------------------------------------- running verus

CHEATS = ["assume(", "admit(", "external_body", "assume_specification", "external_fn_specification",
          "#[verifier::external", "uninterp"]


def scan_assumptions(text):
    """every assume / admit / external_body / assume_specification / uninterp / axiom in the emitted
    file; an `external_body` attribute is reported with the item it is attached to (the next
    `fn` / `struct` line), so that the evidence names the assumed contract, not the attribute"""
    found = []
    lines = text.split("\n")
    for i, l in enumerate(lines, 1):
        if l.strip().startswith("//"):
            continue
        for c in CHEATS:
            if c in l:
                shown = l.strip()
                if c == "external_body" and "fn " not in l and "struct " not in l:
                    for k in range(i, min(i + 4, len(lines))):
                        if re.search(r"\b(fn|struct)\s+\w+", lines[k]):
                            shown = "#[verifier::external_body] " + lines[k].strip()
                            break
                found.append((i, c, shown))
                break
    return found


def run_verus(path, rlimit=20, extra=None, timeout=600):
    cmd = ["verus", path, "--output-json", "--time", "--multiple-errors", "20", "--rlimit", str(rlimit),
           "--error-format=json", "--num-threads", "8"] + (extra or [])
    t0 = time.time()
    try:
        p = subprocess.run(cmd, capture_output=True, text=True, timeout=timeout, cwd=os.path.dirname(path))
    except subprocess.TimeoutExpired:
        raise Inconclusive(f"verus timeout after {timeout}s on {path}")
    wall = time.time() - t0
    try:
        js = json.loads(p.stdout)
    except Exception:
        js = None
    diags = []
    for l in p.stderr.split("\n"):
        l = l.strip()
        if l.startswith("{"):
            try:
                diags.append(json.loads(l))
            except Exception:
                pass
    return {"cmd": " ".join(cmd), "rc": p.returncode, "json": js, "diags": diags, "wall_s": wall, "stderr": p.stderr}


VERIF_FAIL = ("postcondition not satisfied", "precondition not satisfied", "invariant not satisfied",
              "assertion failed", "possible arithmetic underflow/overflow", "possible division by zero",
              "loop invariant", "could not prove termination", "recommendation not met",
              "decreases not satisfied", "rlimit", "Resource limit", "possible bit shift underflow/overflow",
              "index out of bounds", "failed precondition", "cannot show invariant holds",
              "unwrap", "break", "assert")


def classify(em, res):
    """Map verus diagnostics to (fn, kind, label) failures.  Returns (failures, hard_errors)."""
    failures, hard = [], []
    for d in res["diags"]:
        if d.get("level") != "error":
            continue
        msg = d.get("message", "")
        if msg.startswith("aborting due to"):
            continue
        spans = d.get("spans", [])
        if not spans:
            hard.append(msg)
            continue
        is_verif = any(k in msg for k in VERIF_FAIL)
        if not is_verif:
            hard.append(msg + " @ " + ",".join(str(s["line_start"]) for s in spans))
            continue
        lab = None
        fnq = None
        site = None
        for s in spans:
            for ln in range(s["line_start"], s["line_end"] + 1):
                if ln in em.labels and (s["line_end"] - s["line_start"]) < 3:
                    lab = em.labels[ln]
        # the function containing the primary / any span
        for s in sorted(spans, key=lambda s: not s.get("is_primary")):
            for (a, b, q) in em.fn_ranges:
                if a <= s["line_start"] <= b:
                    fnq = fnq or q
                    if not (s["line_start"] in em.labels):
                        site = site or (s["line_start"], (s.get("text") or [{}])[0].get("text", "").strip())
        failures.append({"message": msg, "fn": fnq, "label": lab[2] if lab else None,
                         "label_fn": lab[0] if lab else None, "kind": lab[1] if lab else None,
                         "site": site, "rendered": d.get("rendered", "")})
    return failures, hard
