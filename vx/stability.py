"""Proof-stability probe: re-verify an emitted unit under several Z3 random seeds and report which
functions fail under any of them.  A function that fails under some seed is a brittle proof (a
false-alarm risk on harmless edits) and needs more explicit proof steps.
usage: python3 -m vx.stability <unit> [nseeds]"""
import importlib, os, re, subprocess, sys
from . import vxlib


def main():
    name = sys.argv[1]
    n = int(sys.argv[2]) if len(sys.argv) > 2 else 6
    unit = importlib.import_module(f"vx.specs.{name}").build()
    em = vxlib.Emitter(unit)
    text = em.run()
    path = f"/tmp/vx_stab_{name}.rs"
    open(path, "w").write(text)
    bad = {}
    for seed in range(n):
        opts = [] if seed == 0 else ["--smt-option", f"smt.random_seed={seed}", "--smt-option", f"sat.random_seed={seed}"]
        r = subprocess.run(["verus", path, "--rlimit", str(getattr(unit, "rlimit", 30))] + opts, capture_output=True, text=True)
        out = r.stdout + r.stderr
        res = re.findall(r"verification results:: (\d+) verified, (\d+) errors", out)
        fails = []
        for m in re.finditer(r"^error: ([^\n]+)\n\s+--> [^:]+:(\d+):", out, re.M):
            ln = int(m.group(2))
            fn = next((q for (a, b, q) in em.fn_ranges if a <= ln <= b), "?")
            fails.append((fn, m.group(1), ln))
            bad.setdefault(fn, set()).add(seed)
        print(f"seed {seed}: {res} {fails}", flush=True)
    print("BRITTLE:", {k: sorted(v) for k, v in bad.items()} if bad else "none")
    os.remove(path)


if __name__ == "__main__":
    main()
