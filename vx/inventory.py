"""python3 -m vx.inventory  -- (re)writes vx/inventory.json from the current working tree: for every
unit, the function names of every impl block the unit takes a function from.  Run on the pinned
tree only; the file is committed and read-only at check time."""
import importlib, json
from . import vxlib

UNITS = ["alloc", "arch", "world", "archs", "archs_shrink", "allocde", "alloceq", "qiter", "stage", "bits"]


def main():
    out = {}
    for name in UNITS:
        u = importlib.import_module(f"vx.specs.{name}").build()
        em = vxlib.Emitter(u)
        em.skip_inventory = True
        em.run()
        for key, names in em.seen_blocks.items():
            out[f"{u.name}|{key}"] = names
    json.dump(out, open(vxlib.INVENTORY_FILE, "w"), indent=1, sort_keys=True)
    print("wrote", vxlib.INVENTORY_FILE, len(out), "impl blocks")


main()
