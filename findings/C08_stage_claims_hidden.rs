//! Demonstration: --features rayon
//! Two tasks of one stage (A: &mut Foo, B: &mut Bar) match the same archetype {Foo, Bar}; a third
//! task N (&mut Bar) conflicts with B and is therefore staged later. The run-time optimisation
//! that starts next-stage tasks early consults a claim table in which B's claims on that
//! archetype are hidden behind A's (duplicate key), so N is started while B is still running:
//! both hold `&mut Bar` of the same entity.
#![cfg(feature = "rayon")]
use brood::{
    entity,
    query::{filter, result, Result, Views},
    registry,
    system::{schedule, schedule::task, System},
    Registry, World,
};
use std::sync::atomic::{AtomicBool, AtomicUsize, Ordering};
use std::time::Duration;

struct Foo(usize);
struct Bar(usize);
type Registry = Registry!(Foo, Bar);

static B_RUNNING: AtomicBool = AtomicBool::new(false);
static N_RUNNING: AtomicBool = AtomicBool::new(false);
static OVERLAPS: AtomicUsize = AtomicUsize::new(0);

struct A;
struct B;
struct N;

impl System for A {
    type Views<'a> = Views!(&'a mut Foo);
    type Filter = filter::None;
    type ResourceViews<'a> = Views!();
    type EntryViews<'a> = Views!();
    fn run<'a, R, S, I, E>(&mut self, query_results: Result<R, S, I, Self::ResourceViews<'a>, Self::EntryViews<'a>, E>)
    where R: registry::Registry, I: Iterator<Item = Self::Views<'a>> {
        eprintln!("A start {:?}", std::time::Instant::now());
        for result!(foo) in query_results.iter { foo.0 += 1; }
        std::thread::sleep(Duration::from_millis(300));
    }
}
impl System for B {
    type Views<'a> = Views!(&'a mut Bar);
    type Filter = filter::None;
    type ResourceViews<'a> = Views!();
    type EntryViews<'a> = Views!();
    fn run<'a, R, S, I, E>(&mut self, query_results: Result<R, S, I, Self::ResourceViews<'a>, Self::EntryViews<'a>, E>)
    where R: registry::Registry, I: Iterator<Item = Self::Views<'a>> {
        eprintln!("B start {:?}", std::time::Instant::now());
        for result!(bar) in query_results.iter {
            B_RUNNING.store(true, Ordering::SeqCst);
            if N_RUNNING.load(Ordering::SeqCst) { OVERLAPS.fetch_add(1, Ordering::SeqCst); }
            std::thread::sleep(Duration::from_millis(300));
            if N_RUNNING.load(Ordering::SeqCst) { OVERLAPS.fetch_add(1, Ordering::SeqCst); }
            bar.0 += 1;
            B_RUNNING.store(false, Ordering::SeqCst);
        }
    }
}
impl System for N {
    type Views<'a> = Views!(&'a mut Bar);
    type Filter = filter::None;
    type ResourceViews<'a> = Views!();
    type EntryViews<'a> = Views!();
    fn run<'a, R, S, I, E>(&mut self, query_results: Result<R, S, I, Self::ResourceViews<'a>, Self::EntryViews<'a>, E>)
    where R: registry::Registry, I: Iterator<Item = Self::Views<'a>> {
        eprintln!("N start {:?}", std::time::Instant::now());
        for result!(bar) in query_results.iter {
            N_RUNNING.store(true, Ordering::SeqCst);
            if B_RUNNING.load(Ordering::SeqCst) { OVERLAPS.fetch_add(1, Ordering::SeqCst); }
            std::thread::sleep(Duration::from_millis(300));
            if B_RUNNING.load(Ordering::SeqCst) { OVERLAPS.fetch_add(1, Ordering::SeqCst); }
            bar.0 += 100;
            N_RUNNING.store(false, Ordering::SeqCst);
        }
    }
}

#[test]
fn conflicting_tasks_never_overlap() {
    let pool = rayon::ThreadPoolBuilder::new().num_threads(4).build().unwrap();
    pool.install(|| {
        let mut schedule = schedule!(task::System(A), task::System(B), task::System(N));
        let mut world = World::<Registry>::new();
        world.insert(entity!(Foo(0), Bar(0)));
        world.run_schedule(&mut schedule);
    });
    assert_eq!(OVERLAPS.load(Ordering::SeqCst), 0, "task N (&mut Bar) ran while task B (&mut Bar) was still running on the same entity");
}
