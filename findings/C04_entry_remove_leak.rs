// Replay for the genuine defect "Entry::remove::<C>() never drops the removed component" (C04).
// Put at tests/finding_c04.rs of the crate and run `cargo test --offline --test finding_c04`.
// Fails on the pinned commit, passes with the `fix:` commit.
use brood::{entity, Registry, World};
use std::sync::atomic::{AtomicUsize, Ordering};

static T_DROPS: AtomicUsize = AtomicUsize::new(0);
static U_DROPS: AtomicUsize = AtomicUsize::new(0);
struct T(u32);
struct U(u32);
impl Drop for T { fn drop(&mut self) { T_DROPS.fetch_add(1, Ordering::SeqCst); } }
impl Drop for U { fn drop(&mut self) { U_DROPS.fetch_add(1, Ordering::SeqCst); } }
type R = Registry!(T, U);

#[test]
fn removed_component_is_dropped_exactly_once() {
    let mut world = World::<R>::new();
    let id = world.insert(entity!(T(0), U(1)));
    world.entry(id).unwrap().remove::<U, _>();
    assert_eq!(U_DROPS.load(Ordering::SeqCst), 1, "the detached component must be dropped at that moment");
    drop(world);
    assert_eq!(U_DROPS.load(Ordering::SeqCst), 1);
    assert_eq!(T_DROPS.load(Ordering::SeqCst), 1);
}
