// Replay for the genuine defect "Allocator::allocate_batch loses one free slot whenever the free
// list is longer than the batch" (C13: a released identifier slot is lost; C06: the world no
// longer round-trips).  Put at tests/finding_c13.rs of the crate and run
//   cargo test --offline --features serde --test finding_c13
// Fails on the pinned commit, passes with the `fix:` commit.
use brood::{entities, entity, Registry, World};

#[derive(Clone, Debug, PartialEq)]
struct A(u32);
type R = Registry!(A);

#[test]
fn released_slot_is_reused_after_a_smaller_batch() {
    let mut world = World::<R>::new();
    let a = world.insert(entity!(A(0)));
    let b = world.insert(entity!(A(1)));
    let _c = world.insert(entity!(A(2)));
    world.remove(a);
    world.remove(b);
    // free list = [0, 1]; batch of one row
    let ids = world.extend(entities!((A(9)); 1));
    assert_eq!(ids.len(), 1);
    // slot 1 must still be available: the next insert must not grow the slot table
    let d = world.insert(entity!(A(3)));
    let e = world.insert(entity!(A(4)));
    // with 3 slots ever created and 2 live before these inserts, exactly one of d / e reuses a
    // released slot and the other is the fourth slot.  Identifiers are opaque, so observe through
    // Debug: "index: 1" must have been handed out again.
    let shown = format!("{:?} {:?}", d, e);
    assert!(shown.contains("index: 1,"), "released slot 1 was lost: {}", shown);
}
