#!/usr/bin/env python3
"""Regenerates /verif/MANIFEST.json from props.py (claimed checks) and the texts below."""
import json
import os
import sys

HERE = os.path.dirname(os.path.abspath(__file__))
sys.path.insert(0, HERE)
import props as P  # noqa: E402

ALL = ["C%02d" % i for i in range(1, 19)]

NA = {
    "C07": "equivalence of a parallel schedule run with sequential execution quantifies over interleavings of rayon::join tasks: Kani has no thread support, Verus would need the scheduler rewritten over its permission types (a model, not the code), and the staging is decided by rustc's trait solver at compile time, which has no function body to put a contract on",
    "C12": "which tasks share a stage is computed by rustc's trait solver from type-level impls (no run-time code to specify) and termination on every pool size is a liveness property of rayon; contracts on one call cannot express either",
    "C14": "'does not compile' is a verdict of rustc's type checker; a contract verifier only ever sees programs that compiled",
    "C17": "the property speaks about the state after unwinding out of user code; Kani treats a panic as a failed assertion with no continuation and Verus has no panics, so no contract within reach can express it (a panic in a component Drop during World::clear or remove leading to double drops was seen by dynamic replay during the design phase; it is described in DESIGN.md section 8.3 as an out-of-family observation)",
}

PENDING = "check not built yet in this session (planned engine and contracts: see DESIGN.md section 5); not claimed until its quick command exists"


def main():
    checks = []
    for pid in ALL:
        if pid not in P.PROPS:
            continue
        c = P.PROPS[pid]
        checks.append({
            "property_id": pid,
            "quick_cmd": f"./check {pid} quick",
            "thorough_cmd": f"./check {pid} thorough",
            "evidence_file": f"/verif/evidence/{pid}.json",
            "replay_cmd_template": "cat {path}",
            "engine": "+".join((["verus"] if c["v"] else []) + (["kani"] if c["k"] or c.get("k_thorough") else [])),
            "level_claimed": {"category": c["level"], "text": c["level_text"], "design_ref": c.get("design_ref", "DESIGN.md section 5")},
            "level_note": c["level_note"],
            "technique": c["technique"],
        })
    na = []
    for pid in ALL:
        if pid in P.PROPS:
            continue
        na.append({"property_id": pid, "reason": NA.get(pid, PENDING)})
    m = {
        "version": 1,
        "setup_cmd": "python3 -c \"import os; [os.makedirs(d, exist_ok=True) for d in ('/verif/work','/verif/evidence','/verif/replays')]\"",
        "hooks": {
            "guard": "cfg(kani)",
            "enable": "no source hooks in /repo: contracts and harness modules are injected into a scratch copy of the working tree on every run (kx/kxlib.py) and are compiled only under cargo-kani's cfg(kani); Verus reads functions extracted from the working tree (vx/vxlib.py)",
            "baseline_off_cmd": "cd /repo && cargo test --workspace --no-fail-fast --offline",
            "source_commits": [],
            "add_only": True,
        },
        "engines": [
            {"name": "V", "path": "/verif/vx", "serves_properties": [p for p in ALL if p in P.PROPS and P.PROPS[p]["v"]],
             "kind_free_text": "Verus 0.2026.09.13 on functions extracted mechanically from /repo on every run, contracts spliced in from vx/specs/*.py"},
            {"name": "K", "path": "/verif/kx", "serves_properties": [p for p in ALL if p in P.PROPS and (P.PROPS[p]["k"] or P.PROPS[p].get("k_thorough"))],
             "kind_free_text": "Kani 0.68 function contracts and contract harnesses injected into a scratch copy of the real crate"},
        ],
        "checks": checks,
        "not_applicable": na,
        "notes": "Exit codes of ./check: 0 held, 1 VIOLATION, 2 INCONCLUSIVE (lost anchor / unsupported construct / solver limit; never an alarm). known_findings.txt lists fixed and known findings.",
    }
    json.dump(m, open(os.path.join(HERE, "MANIFEST.json"), "w"), indent=1)
    print("wrote MANIFEST.json with", len(checks), "checks,", len(na), "not_applicable")


if __name__ == "__main__":
    main()
