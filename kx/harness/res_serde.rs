//! K-res-serde: the resource list survives serialize -> deserialize (C15 / C06).  Child module of
//! `crate::resource` (ser.rs / de.rs are type-recursive over the resource list).  A harness-local
//! token Serializer records what `resource::Serializer` writes; a harness-local token Deserializer
//! replays exactly those tokens into `resource::Deserializer`.  Values symbolic; list of 3 with a
//! zero-sized resource in the middle whose own Deserialize insists on its own token (it does not
//! accept a unit), so a format that drops or guesses zero-sized resources does not round-trip.
use super::*;
use crate::resources;
use core::fmt;
use serde::{
    de::{self, DeserializeSeed, SeqAccess, Visitor},
    ser::{self, SerializeTuple},
};

#[derive(Clone, Copy, PartialEq)]
enum Tok {
    Empty,
    Tuple(usize),
    U64(u64),
    Struct0,
}
static mut TOKS: [Tok; 8] = [Tok::Empty; 8];
static mut NTOK: usize = 0;
fn put(t: Tok) -> Result<(), E> {
    unsafe {
        if NTOK >= 8 {
            return Err(E);
        }
        TOKS[NTOK] = t;
        NTOK += 1;
    }
    Ok(())
}

#[derive(Debug)]
struct E;
impl fmt::Display for E {
    fn fmt(&self, _f: &mut fmt::Formatter) -> fmt::Result {
        Ok(())
    }
}
impl ser::StdError for E {}
impl ser::Error for E {
    fn custom<T: fmt::Display>(_msg: T) -> Self {
        E
    }
}
impl de::Error for E {
    fn custom<T: fmt::Display>(_msg: T) -> Self {
        E
    }
}

// ------------------------------------------------------------------ resources
#[derive(PartialEq)]
struct RA(u64);
#[derive(PartialEq)]
struct RZ; // zero-sized
#[derive(PartialEq)]
struct RB(u64);

impl serde::Serialize for RA {
    fn serialize<S: serde::Serializer>(&self, s: S) -> Result<S::Ok, S::Error> {
        s.serialize_u64(self.0)
    }
}
impl serde::Serialize for RB {
    fn serialize<S: serde::Serializer>(&self, s: S) -> Result<S::Ok, S::Error> {
        s.serialize_u64(self.0)
    }
}
impl serde::Serialize for RZ {
    fn serialize<S: serde::Serializer>(&self, s: S) -> Result<S::Ok, S::Error> {
        use ser::SerializeStruct;
        s.serialize_struct("RZ", 0)?.end()
    }
}
struct U64V;
impl<'de> Visitor<'de> for U64V {
    type Value = u64;
    fn expecting(&self, _f: &mut fmt::Formatter) -> fmt::Result {
        Ok(())
    }
    fn visit_u64<Er: de::Error>(self, v: u64) -> Result<u64, Er> {
        Ok(v)
    }
}
impl<'de> serde::Deserialize<'de> for RA {
    fn deserialize<D: serde::Deserializer<'de>>(d: D) -> Result<Self, D::Error> {
        d.deserialize_u64(U64V).map(RA)
    }
}
impl<'de> serde::Deserialize<'de> for RB {
    fn deserialize<D: serde::Deserializer<'de>>(d: D) -> Result<Self, D::Error> {
        d.deserialize_u64(U64V).map(RB)
    }
}
struct RZV;
impl<'de> Visitor<'de> for RZV {
    type Value = RZ;
    fn expecting(&self, _f: &mut fmt::Formatter) -> fmt::Result {
        Ok(())
    }
    // an empty struct arrives as an empty sequence; a unit is NOT accepted (serde's default)
    fn visit_seq<A: SeqAccess<'de>>(self, _seq: A) -> Result<RZ, A::Error> {
        Ok(RZ)
    }
}
impl<'de> serde::Deserialize<'de> for RZ {
    fn deserialize<D: serde::Deserializer<'de>>(d: D) -> Result<Self, D::Error> {
        d.deserialize_struct("RZ", &[], RZV)
    }
}

// ------------------------------------------------------------------ token serializer
struct TS;
struct TSTuple;
struct TSStruct;
macro_rules! no {
    ($($name:ident($ty:ty)),*) => { $( fn $name(self, _v: $ty) -> Result<(), E> { Err(E) } )* };
}
impl ser::Serializer for TS {
    type Ok = ();
    type Error = E;
    type SerializeSeq = ser::Impossible<(), E>;
    type SerializeTuple = TSTuple;
    type SerializeTupleStruct = ser::Impossible<(), E>;
    type SerializeTupleVariant = ser::Impossible<(), E>;
    type SerializeMap = ser::Impossible<(), E>;
    type SerializeStruct = TSStruct;
    type SerializeStructVariant = ser::Impossible<(), E>;
    fn serialize_u64(self, v: u64) -> Result<(), E> {
        put(Tok::U64(v))
    }
    no!(serialize_bool(bool), serialize_i8(i8), serialize_i16(i16), serialize_i32(i32), serialize_i64(i64), serialize_u8(u8),
        serialize_u16(u16), serialize_u32(u32), serialize_f32(f32), serialize_f64(f64), serialize_char(char), serialize_str(&str),
        serialize_bytes(&[u8]));
    fn serialize_none(self) -> Result<(), E> { Err(E) }
    fn serialize_some<T: ?Sized + serde::Serialize>(self, _v: &T) -> Result<(), E> { Err(E) }
    fn serialize_unit(self) -> Result<(), E> { Err(E) }
    fn serialize_unit_struct(self, _n: &'static str) -> Result<(), E> { Err(E) }
    fn serialize_unit_variant(self, _n: &'static str, _i: u32, _v: &'static str) -> Result<(), E> { Err(E) }
    fn serialize_newtype_struct<T: ?Sized + serde::Serialize>(self, _n: &'static str, _v: &T) -> Result<(), E> { Err(E) }
    fn serialize_newtype_variant<T: ?Sized + serde::Serialize>(self, _n: &'static str, _i: u32, _v: &'static str, _t: &T) -> Result<(), E> { Err(E) }
    fn serialize_seq(self, _len: Option<usize>) -> Result<Self::SerializeSeq, E> { Err(E) }
    fn serialize_tuple(self, len: usize) -> Result<TSTuple, E> {
        put(Tok::Tuple(len))?;
        Ok(TSTuple)
    }
    fn serialize_tuple_struct(self, _n: &'static str, _len: usize) -> Result<Self::SerializeTupleStruct, E> { Err(E) }
    fn serialize_tuple_variant(self, _n: &'static str, _i: u32, _v: &'static str, _len: usize) -> Result<Self::SerializeTupleVariant, E> { Err(E) }
    fn serialize_map(self, _len: Option<usize>) -> Result<Self::SerializeMap, E> { Err(E) }
    fn serialize_struct(self, _n: &'static str, len: usize) -> Result<TSStruct, E> {
        if len != 0 {
            return Err(E);
        }
        put(Tok::Struct0)?;
        Ok(TSStruct)
    }
    fn serialize_struct_variant(self, _n: &'static str, _i: u32, _v: &'static str, _len: usize) -> Result<Self::SerializeStructVariant, E> { Err(E) }
}
impl ser::SerializeTuple for TSTuple {
    type Ok = ();
    type Error = E;
    fn serialize_element<T: ?Sized + serde::Serialize>(&mut self, v: &T) -> Result<(), E> {
        v.serialize(TS)
    }
    fn end(self) -> Result<(), E> {
        Ok(())
    }
}
impl ser::SerializeStruct for TSStruct {
    type Ok = ();
    type Error = E;
    fn serialize_field<T: ?Sized + serde::Serialize>(&mut self, _k: &'static str, _v: &T) -> Result<(), E> {
        Err(E)
    }
    fn end(self) -> Result<(), E> {
        Ok(())
    }
}

// ------------------------------------------------------------------ token deserializer
static mut POS: usize = 0;
fn next_tok() -> Tok {
    unsafe {
        if POS >= NTOK {
            return Tok::Empty;
        }
        let t = TOKS[POS];
        POS += 1;
        t
    }
}
struct TD;
struct TDSeq(usize);
impl<'de> SeqAccess<'de> for TDSeq {
    type Error = E;
    fn next_element_seed<T: DeserializeSeed<'de>>(&mut self, seed: T) -> Result<Option<T::Value>, E> {
        if self.0 == 0 {
            return Ok(None);
        }
        self.0 -= 1;
        seed.deserialize(TD).map(Some)
    }
}
macro_rules! no_de {
    ($($name:ident),*) => { $( fn $name<V: Visitor<'de>>(self, _v: V) -> Result<V::Value, E> { Err(E) } )* };
}
impl<'de> serde::Deserializer<'de> for TD {
    type Error = E;
    no_de!(deserialize_any, deserialize_bool, deserialize_i8, deserialize_i16, deserialize_i32, deserialize_i64, deserialize_u8,
        deserialize_u16, deserialize_u32, deserialize_f32, deserialize_f64, deserialize_char, deserialize_str, deserialize_string,
        deserialize_bytes, deserialize_byte_buf, deserialize_option, deserialize_unit, deserialize_seq, deserialize_map,
        deserialize_identifier, deserialize_ignored_any);
    fn deserialize_u64<V: Visitor<'de>>(self, v: V) -> Result<V::Value, E> {
        match next_tok() {
            Tok::U64(x) => v.visit_u64(x),
            _ => Err(E),
        }
    }
    fn deserialize_unit_struct<V: Visitor<'de>>(self, _n: &'static str, _v: V) -> Result<V::Value, E> { Err(E) }
    fn deserialize_newtype_struct<V: Visitor<'de>>(self, _n: &'static str, _v: V) -> Result<V::Value, E> { Err(E) }
    fn deserialize_tuple<V: Visitor<'de>>(self, len: usize, v: V) -> Result<V::Value, E> {
        match next_tok() {
            Tok::Tuple(n) if n == len => v.visit_seq(TDSeq(n)),
            _ => Err(E),
        }
    }
    fn deserialize_tuple_struct<V: Visitor<'de>>(self, _n: &'static str, _len: usize, _v: V) -> Result<V::Value, E> { Err(E) }
    fn deserialize_struct<V: Visitor<'de>>(self, _n: &'static str, fields: &'static [&'static str], v: V) -> Result<V::Value, E> {
        match next_tok() {
            Tok::Struct0 if fields.is_empty() => v.visit_seq(TDSeq(0)),
            _ => Err(E),
        }
    }
    fn deserialize_enum<V: Visitor<'de>>(self, _n: &'static str, _vs: &'static [&'static str], _v: V) -> Result<V::Value, E> { Err(E) }
}

type Res = crate::Resources!(RA, RZ, RB);

/// serialize then deserialize the resource list: same resources, each exactly once, in order
#[kani::proof]
#[kani::unwind(10)]
fn res_serde_round_trip() {
    let (a, b): (u64, u64) = (kani::any(), kani::any());
    let r: Res = resources!(RA(a), RZ, RB(b));
    let s = serde::Serialize::serialize(&Serializer(&r), TS);
    assert!(s.is_ok(), "C15: the resource list serializes");
    unsafe {
        assert!(NTOK >= 1 && TOKS[0] == Tok::Tuple(3), "C15: one tuple of as many elements as there are resources");
    }
    let d = <Deserializer<Res> as serde::Deserialize>::deserialize(TD);
    assert!(d.is_ok(), "C15: what was written can be read back (also zero-sized resources)");
    let back = d.unwrap().0;
    assert!(back.0 .0 == a && back.1 .1 .0 .0 == b, "C15: no resource altered or swapped by the round trip");
    unsafe {
        assert!(POS == NTOK, "C15: every written element is consumed exactly once");
    }
}

/// a stream that ends early is an error, not a defaulted resource
#[kani::proof]
#[kani::unwind(10)]
fn res_serde_missing_element_is_error() {
    let a: u64 = kani::any();
    let _ = put(Tok::Tuple(3));
    let _ = put(Tok::U64(a));
    let d = <Deserializer<Res> as serde::Deserialize>::deserialize(TD);
    assert!(d.is_err(), "C15/C11: a missing resource is an error");
}
