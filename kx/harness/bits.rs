//! K-bits: archetype identifier bit sets (child module of `crate::archetype::identifier`).
//! Registries of 2, 3, 8, 9 and 16 components: the identifier crosses a byte boundary, has
//! padding bits, or fills its last byte exactly.  Bytes are symbolic (full domain per registry).
use super::*;
use crate::Registry;
use alloc::{vec, vec::Vec};
use serde::{
    de::{value::Error as DeError, DeserializeSeed, Deserializer, IntoDeserializer, SeqAccess, Visitor},
    forward_to_deserialize_any, Deserialize,
};

macro_rules! comps { ($($n:ident),*) => { $( pub struct $n(u8); )* } }
comps!(C0, C1, C2, C3, C4, C5, C6, C7, C8, C9, C10, C11, C12, C13, C14, C15);
type R2 = Registry!(C0, C1);
type R3 = Registry!(C0, C1, C2);
type R8 = Registry!(C0, C1, C2, C3, C4, C5, C6, C7);
type R9 = Registry!(C0, C1, C2, C3, C4, C5, C6, C7, C8);
type R16 = Registry!(C0, C1, C2, C3, C4, C5, C6, C7, C8, C9, C10, C11, C12, C13, C14, C15);

fn check_iter<R: Registry>(bytes: Vec<u8>) {
    let copy = bytes.clone();
    let id = unsafe { Identifier::<R>::new(bytes) };
    let mut it = unsafe { id.iter() };
    let mut k = 0;
    let mut ones = 0;
    while k < R::LEN {
        let bit = (copy[k / 8] >> (k % 8)) & 1 != 0;
        assert!(it.next() == Some(bit), "C03/C05: the k-th item of the identifier iterator is bit k of the buffer");
        assert!(unsafe { id.as_ref().get_unchecked(k) } == bit, "C05: get_unchecked(k) is bit k");
        if bit {
            ones += 1;
        }
        k += 1;
    }
    assert!(it.next().is_none(), "C05: the iterator stops after R::LEN bits");
    assert!(it.next().is_none());
    assert!(unsafe { id.as_slice() } == &copy[..], "C06: as_slice is the buffer");
    assert!(id.count() == ones, "C05: count() is the number of set bits below R::LEN");
    let c = id.clone();
    assert!(c == id && unsafe { c.as_slice() }.as_ptr() != unsafe { id.as_slice() }.as_ptr(), "C10: a cloned identifier owns its own buffer");
}

#[kani::proof]
#[kani::unwind(18)]
fn bits_iter_3() {
    let b: u8 = kani::any();
    kani::assume(b >> 3 == 0);
    check_iter::<R3>(vec![b]);
}

#[kani::proof]
#[kani::unwind(18)]
fn bits_iter_8() {
    check_iter::<R8>(vec![kani::any()]);
}

#[kani::proof]
#[kani::unwind(18)]
fn bits_iter_9() {
    let b1: u8 = kani::any();
    kani::assume(b1 >> 1 == 0);
    check_iter::<R9>(vec![kani::any(), b1]);
}

#[kani::proof]
#[kani::unwind(18)]
fn bits_iter_16() {
    check_iter::<R16>(vec![kani::any(), kani::any()]);
}

// ------------------------------------------------------------------ deserialization of untrusted bytes
struct Bytes<'a> {
    data: &'a [u8],
    pos: usize,
}

impl<'de, 'a> SeqAccess<'de> for Bytes<'a> {
    type Error = DeError;
    fn next_element_seed<T>(&mut self, seed: T) -> Result<Option<T::Value>, DeError>
    where
        T: DeserializeSeed<'de>,
    {
        if self.pos < self.data.len() {
            let b = self.data[self.pos];
            self.pos += 1;
            seed.deserialize(b.into_deserializer()).map(Some)
        } else {
            Ok(None)
        }
    }
}

struct TupleDe<'a>(&'a [u8]);

impl<'de, 'a> Deserializer<'de> for TupleDe<'a> {
    type Error = DeError;
    fn deserialize_any<V>(self, visitor: V) -> Result<V::Value, DeError>
    where
        V: Visitor<'de>,
    {
        visitor.visit_seq(Bytes { data: self.0, pos: 0 })
    }
    fn deserialize_tuple<V>(self, _len: usize, visitor: V) -> Result<V::Value, DeError>
    where
        V: Visitor<'de>,
    {
        visitor.visit_seq(Bytes { data: self.0, pos: 0 })
    }
    forward_to_deserialize_any! {
        bool i8 i16 i32 i64 i128 u8 u16 u32 u64 u128 f32 f64 char str string bytes byte_buf option
        unit unit_struct newtype_struct seq tuple_struct map struct enum identifier ignored_any
    }
}

fn stub_format(_args: core::fmt::Arguments<'_>) -> alloc::string::String {
    alloc::string::String::new()
}

/// Ok exactly when the input has (LEN+7)/8 bytes and no padding bit is set; Ok reproduces the bytes
fn check_deserialize<R: Registry>(data: &[u8]) {
    let n = (R::LEN + 7) / 8;
    let pad_ok = if R::LEN % 8 == 0 || data.len() < n { true } else { data[n - 1] >> (R::LEN % 8) == 0 };
    let r = Identifier::<R>::deserialize(TupleDe(data));
    match r {
        Ok(id) => {
            assert!(data.len() >= n && pad_ok, "C11: too-short input or set padding bits must be rejected");
            assert!(unsafe { id.as_slice() } == &data[..n], "C06: deserialized identifier has the serialized bytes");
        }
        Err(_) => {
            assert!(data.len() < n || !pad_ok, "C06: every valid identifier (incl. registries whose length is a multiple of 8) must deserialize");
        }
    }
}

macro_rules! deser_harness {
    ($name:ident, $reg:ty, $bytes:expr) => {
        #[kani::proof]
        #[kani::unwind(6)]
        #[kani::stub(alloc::fmt::format, stub_format)]
        fn $name() {
            let data: [u8; $bytes] = kani::any();
            check_deserialize::<$reg>(&data);
        }
    };
}
deser_harness!(bits_deserialize_2, R2, 1);
deser_harness!(bits_deserialize_3, R3, 1);
deser_harness!(bits_deserialize_8, R8, 1);
deser_harness!(bits_deserialize_9, R9, 2);
deser_harness!(bits_deserialize_16, R16, 2);
deser_harness!(bits_deserialize_9_short, R9, 1);
