//! K-arch / K-col: contract harnesses of the real column store, driven through the real
//! `Archetype` operations (child module of `crate::archetype`).
//!
//! Registry K3 = Registry!(Z, S, T): Z zero-sized with a destructor, S one byte, T 16 bytes,
//! 16-aligned, `Drop`/`Clone`-tracked through a ghost ledger.  CBMC's memory model checks every
//! pointer dereference, bounds, double free and dealloc-size on the way; the ledger checks that
//! every value is dropped exactly once, at the moment the contract says (C04).
//! Bound: <= 3 rows per table, the archetype shapes listed per harness; payloads, row indices
//! are symbolic.
use super::*;
use crate::{
    entities,
    entity,
    Registry,
};
use alloc::{
    vec,
    vec::Vec,
};

// ------------------------------------------------------------------ ghost drop ledger
const M: usize = 16;
static mut LEDGER: [u8; M] = [0; M]; // 0 never constructed, 1 live, 2 dropped
static mut NEXT: usize = 0;
static mut Z_LIVE: isize = 0;
static mut Z_DROPS: usize = 0;

#[repr(align(16))]
pub struct T {
    id: usize,
    payload: u64,
}

impl T {
    fn new(payload: u64) -> Self {
        unsafe {
            let id = NEXT;
            assert!(id < M);
            NEXT += 1;
            LEDGER[id] = 1;
            T { id, payload }
        }
    }
}

impl Drop for T {
    fn drop(&mut self) {
        unsafe {
            assert!(self.id < M, "C05: dropped a T that was never constructed (garbage / wrong column)");
            assert!(LEDGER[self.id] == 1, "C04: value dropped twice (or dropped before construction)");
            LEDGER[self.id] = 2;
        }
    }
}

impl Clone for T {
    fn clone(&self) -> Self {
        unsafe {
            assert!(self.id < M && LEDGER[self.id] == 1, "C05: cloned a dead or garbage value");
        }
        T::new(self.payload)
    }
}

impl PartialEq for T {
    fn eq(&self, other: &Self) -> bool {
        self.payload == other.payload
    }
}

pub struct Z;
impl Z {
    fn new() -> Self {
        unsafe { Z_LIVE += 1 };
        Z
    }
}
impl Drop for Z {
    fn drop(&mut self) {
        unsafe {
            assert!(Z_LIVE > 0, "C04: zero-sized value dropped twice");
            Z_LIVE -= 1;
            Z_DROPS += 1;
        }
    }
}
impl Clone for Z {
    fn clone(&self) -> Self {
        Z::new()
    }
}
impl PartialEq for Z {
    fn eq(&self, _other: &Self) -> bool {
        true
    }
}

#[derive(Clone, PartialEq)]
pub struct S(u8);

type R = Registry!(Z, S, T);

fn live(id: usize) -> bool {
    unsafe { LEDGER[id] == 1 }
}
fn dead(id: usize) -> bool {
    unsafe { LEDGER[id] == 2 }
}
fn all_dead() -> bool {
    let mut ok = true;
    let mut i = 0;
    unsafe {
        while i < NEXT {
            ok = ok && LEDGER[i] == 2;
            i += 1;
        }
        ok && Z_LIVE == 0
    }
}
fn live_count() -> usize {
    let mut n = 0;
    let mut i = 0;
    unsafe {
        while i < NEXT {
            if LEDGER[i] == 1 {
                n += 1;
            }
            i += 1;
        }
    }
    n
}

fn arch(bits: u8) -> Archetype<R> {
    Archetype::<R>::new(unsafe { Identifier::<R>::new(vec![bits]) })
}

// ------------------------------------------------------------------ push / remove / drop
/// all three columns: push 3 rows, remove a symbolic row, drop the table
#[kani::proof]
#[kani::unwind(6)]
fn col_push_remove_drop_zst() {
    let mut alloc = entity::Allocator::<R>::new();
    let mut a = arch(0b111);
    let p: u64 = kani::any();
    let i0 = unsafe { a.push(entity!(Z::new(), S(kani::any()), T::new(p)), &mut alloc) };
    let i1 = unsafe { a.push(entity!(Z::new(), S(kani::any()), T::new(kani::any())), &mut alloc) };
    let i2 = unsafe { a.push(entity!(Z::new(), S(kani::any()), T::new(kani::any())), &mut alloc) };
    assert!(a.len() == 3 && live_count() == 3 && unsafe { Z_LIVE } == 3);
    let index: usize = kani::any();
    kani::assume(index < 3);
    unsafe { a.remove_row_unchecked(index, &mut alloc) };
    // C04: exactly the removed row's values are dropped, at that moment
    assert!(dead(index), "C04: removed row's T is dropped by remove");
    assert!(live_count() == 2, "C04: only the removed row's T is dropped");
    assert!(unsafe { Z_LIVE } == 2 && unsafe { Z_DROPS } == 1, "C04: the removed row's zero-sized component is dropped by remove");
    assert!(a.len() == 2);
    // C02/C13: the moved entity's location was fixed up
    let ids = [i0, i1, i2];
    let mut k = 0;
    while k < 3 {
        if k != index {
            let loc = alloc.get(ids[k]).unwrap();
            assert!(loc.index < 2);
            assert!(loc.index == if k == 2 && index < 2 { index } else { k }, "C02: moved row's location fixed up");
        }
        k += 1;
    }
    drop(a);
    assert!(all_dead(), "C04: dropping the table drops every remaining value exactly once");
}

/// T-only table (bit 2): symbolic payloads survive a swap-remove in the right cells (C01/C05)
#[kani::proof]
#[kani::unwind(6)]
fn col_values_survive_swap_remove() {
    let mut alloc = entity::Allocator::<R>::new();
    let mut a = arch(0b110);
    let p: [u64; 3] = kani::any();
    let s: [u8; 3] = kani::any();
    unsafe {
        a.push(entity!(S(s[0]), T::new(p[0])), &mut alloc);
        a.push(entity!(S(s[1]), T::new(p[1])), &mut alloc);
        a.push(entity!(S(s[2]), T::new(p[2])), &mut alloc);
    }
    let index: usize = kani::any();
    kani::assume(index < 3);
    unsafe { a.remove_row_unchecked(index, &mut alloc) };
    // read the columns back through their raw parts: column 0 = S (bit 1), column 1 = T (bit 2)
    let col_s = a.components[0].0 as *const S;
    let col_t = a.components[1].0 as *const T;
    let mut r = 0;
    while r < 2 {
        let src = if r == index { 2 } else { r };
        unsafe {
            assert!((*col_s.add(r)).0 == s[src], "C01: S cell of row r is the value pushed for that entity");
            assert!((*col_t.add(r)).payload == p[src], "C01: T cell of row r is the value pushed for that entity");
            assert!(live((*col_t.add(r)).id));
        }
        r += 1;
    }
    drop(a);
    assert!(all_dead());
}

// ------------------------------------------------------------------ set_component
#[kani::proof]
#[kani::unwind(6)]
fn col_set_component_drops_old_only() {
    let mut alloc = entity::Allocator::<R>::new();
    let mut a = arch(0b100);
    unsafe {
        a.push(entity!(T::new(1)), &mut alloc);
        a.push(entity!(T::new(2)), &mut alloc);
    }
    let index: usize = kani::any();
    kani::assume(index < 2);
    let newp: u64 = kani::any();
    unsafe { a.set_component_unchecked::<T, _>(index, T::new(newp)) };
    assert!(dead(index), "C04: overwritten value dropped at that moment");
    assert!(live(1 - index) && live(2), "C04: nothing else dropped");
    let col_t = a.components[0].0 as *const T;
    unsafe {
        assert!((*col_t.add(index)).payload == newp && (*col_t.add(index)).id == 2);
        assert!((*col_t.add(1 - index)).id == 1 - index, "C01: other entity untouched");
    }
    drop(a);
    assert!(all_dead());
}

// ------------------------------------------------------------------ shape change: add
/// pop a row from {S} and push it, plus a new T, into {S,T}: nothing is dropped, every value ends
/// up in exactly one place (C04), in the right cell (C01)
#[kani::proof]
#[kani::unwind(6)]
fn col_pop_then_push_with_component() {
    let mut alloc = entity::Allocator::<R>::new();
    let mut from = arch(0b011);
    let mut to = arch(0b111);
    let s: [u8; 2] = kani::any();
    let i0 = unsafe { from.push(entity!(Z::new(), S(s[0])), &mut alloc) };
    let _i1 = unsafe { from.push(entity!(Z::new(), S(s[1])), &mut alloc) };
    unsafe { to.push(entity!(Z::new(), S(9), T::new(7)), &mut alloc) };
    let index: usize = kani::any();
    kani::assume(index < 2);
    let (id, bytes) = unsafe { from.pop_row_unchecked(index, &mut alloc) };
    assert!(id == if index == 0 { i0 } else { _i1 });
    let newp: u64 = kani::any();
    let row = unsafe { to.push_from_buffer_and_component(id, bytes.as_ptr(), T::new(newp)) };
    assert!(row == 1 && to.len() == 2 && from.len() == 1);
    assert!(unsafe { Z_LIVE } == 3 && unsafe { Z_DROPS } == 0 && live_count() == 2, "C04: a shape change drops nothing");
    let col_s = to.components[1].0 as *const S;
    let col_t = to.components[2].0 as *const T;
    unsafe {
        assert!((*col_s.add(1)).0 == s[index], "C01: moved S value arrives in the moved entity's row");
        assert!((*col_t.add(1)).payload == newp, "C01: added component stored in that row");
        assert!((*col_s.add(0)).0 == 9 && (*col_t.add(0)).payload == 7, "C01: other entity untouched");
    }
    drop(bytes);
    drop(from);
    drop(to);
    assert!(all_dead(), "C04: every value dropped exactly once overall");
}

// ------------------------------------------------------------------ shape change: remove
/// pop a row from {Z,S,T} and push it into {Z,S} skipping T: exactly the detached T is dropped,
/// at that moment (C04, Entry::remove)
#[kani::proof]
#[kani::unwind(6)]
fn col_pop_then_push_skipping_component() {
    let mut alloc = entity::Allocator::<R>::new();
    let mut from = arch(0b111);
    let mut to = arch(0b011);
    let s: [u8; 2] = kani::any();
    unsafe {
        from.push(entity!(Z::new(), S(s[0]), T::new(10)), &mut alloc);
        from.push(entity!(Z::new(), S(s[1]), T::new(11)), &mut alloc);
    }
    let index: usize = kani::any();
    kani::assume(index < 2);
    let (id, bytes) = unsafe { from.pop_row_unchecked(index, &mut alloc) };
    let row = unsafe { to.push_from_buffer_skipping_component::<T>(id, bytes.as_ptr()) };
    drop(bytes);
    assert!(row == 0 && to.len() == 1 && from.len() == 1);
    assert!(dead(index), "C04: the component detached by Entry::remove is dropped at that moment");
    assert!(live(1 - index), "C04: the other entity's component stays live");
    assert!(unsafe { Z_LIVE } == 2 && unsafe { Z_DROPS } == 0);
    let col_s = to.components[1].0 as *const S;
    unsafe { assert!((*col_s).0 == s[index], "C01: kept components arrive in the target row") };
    drop(from);
    drop(to);
    assert!(all_dead());
}

/// same, skipping the *zero-sized* component
#[kani::proof]
#[kani::unwind(6)]
fn col_pop_then_push_skipping_zst() {
    let mut alloc = entity::Allocator::<R>::new();
    let mut from = arch(0b101);
    let mut to = arch(0b100);
    unsafe {
        from.push(entity!(Z::new(), T::new(10)), &mut alloc);
    }
    let (id, bytes) = unsafe { from.pop_row_unchecked(0, &mut alloc) };
    unsafe { to.push_from_buffer_skipping_component::<Z>(id, bytes.as_ptr()) };
    drop(bytes);
    assert!(unsafe { Z_LIVE } == 0 && unsafe { Z_DROPS } == 1, "C04: detached zero-sized component is dropped");
    assert!(live(0));
    drop(from);
    drop(to);
    assert!(all_dead());
}

// ------------------------------------------------------------------ clear
fn check_clear_then_reuse(detached: bool) {
    let mut alloc = entity::Allocator::<R>::new();
    let mut a = arch(0b101);
    let i0 = unsafe { a.push(entity!(Z::new(), T::new(1)), &mut alloc) };
    let i1 = unsafe { a.push(entity!(Z::new(), T::new(2)), &mut alloc) };
    if detached {
        a.clear_detached();
    } else {
        unsafe { a.clear(&mut alloc) };
        assert!(!alloc.is_active(i0) && !alloc.is_active(i1), "C02: cleared identifiers are dead");
    }
    assert!(a.len() == 0 && dead(0) && dead(1) && unsafe { Z_LIVE } == 0, "C04: clear drops every value");
    unsafe { a.push(entity!(Z::new(), T::new(3)), &mut alloc) };
    assert!(a.len() == 1 && live(2));
    drop(a);
    assert!(all_dead());
}

#[kani::proof]
#[kani::unwind(6)]
fn col_clear_then_reuse() {
    check_clear_then_reuse(false);
}

#[kani::proof]
#[kani::unwind(6)]
fn col_clear_detached_then_reuse() {
    check_clear_then_reuse(true);
}

/// the component-less table (entities that currently hold no component) is a table like any
/// other: rows, swap-remove with location fix-up, clear
#[kani::proof]
#[kani::unwind(6)]
fn col_componentless_table_remove_and_clear() {
    let mut alloc = entity::Allocator::<R>::new();
    let mut a = arch(0b000);
    let i0 = unsafe { a.push(entity!(), &mut alloc) };
    let i1 = unsafe { a.push(entity!(), &mut alloc) };
    let i2 = unsafe { a.push(entity!(), &mut alloc) };
    assert!(a.len() == 3, "C01: entities without components are stored rows");
    unsafe { a.remove_row_unchecked(0, &mut alloc) };
    unsafe { alloc.free_unchecked(i0) };
    assert!(a.len() == 2);
    assert!(alloc.get(i2).map(|l| l.index) == Some(0), "C02: the moved (last) entity's location is fixed up");
    assert!(alloc.get(i1).map(|l| l.index) == Some(1), "C02: other entities keep their location");
    unsafe { a.clear(&mut alloc) };
    assert!(a.len() == 0, "C01: clear empties the component-less table too");
    assert!(!alloc.is_active(i1) && !alloc.is_active(i2), "C02: cleared identifiers are dead");
}

// ------------------------------------------------------------------ extend (batch)
fn batch_t(n: usize) -> entities::Batch<(Vec<T>, entities::Null)> {
    let mut v = Vec::new();
    let mut i = 0;
    while i < n {
        v.push(T::new(kani::any()));
        i += 1;
    }
    entities::Batch::new((v, entities::Null))
}

/// extend into a fresh table (adopts the caller's Vec), then into the non-empty table (appends)
#[kani::proof]
#[kani::unwind(6)]
fn col_extend_adopt_then_append() {
    let mut alloc = entity::Allocator::<R>::new();
    let mut a = arch(0b100);
    let ids = unsafe { a.extend(batch_t(2), &mut alloc) };
    assert!(ids.len() == 2 && a.len() == 2, "C01: one identifier per batch row");
    assert!(alloc.get(ids[0]).unwrap().index == 0 && alloc.get(ids[1]).unwrap().index == 1, "C01: batch order");
    let ids2 = unsafe { a.extend(batch_t(1), &mut alloc) };
    assert!(ids2.len() == 1 && a.len() == 3 && alloc.get(ids2[0]).unwrap().index == 2);
    assert!(live_count() == 3);
    let col_t = a.components[0].0 as *const T;
    unsafe { assert!((*col_t.add(0)).id == 0 && (*col_t.add(1)).id == 1 && (*col_t.add(2)).id == 2, "C01: rows in batch order") };
    drop(a);
    assert!(all_dead());
}

/// extend into a table that was emptied but still owns its buffers (clear / remove-last / reserve)
#[kani::proof]
#[kani::unwind(6)]
fn col_extend_into_emptied_table() {
    let mut alloc = entity::Allocator::<R>::new();
    let mut a = arch(0b100);
    let how: u8 = kani::any();
    if how == 0 {
        unsafe { a.push(entity!(T::new(1)), &mut alloc) };
        unsafe { a.clear(&mut alloc) };
    } else if how == 1 {
        unsafe { a.push(entity!(T::new(1)), &mut alloc) };
        unsafe { a.remove_row_unchecked(0, &mut alloc) };
    } else {
        unsafe { a.reserve::<(T, entity::Null)>(2) };
    }
    let before = live_count();
    let ids = unsafe { a.extend(batch_t(2), &mut alloc) };
    assert!(ids.len() == 2 && a.len() == 2 && live_count() == before + 2);
    drop(a);
    assert!(all_dead());
    // C05 "all memory obtained is returned": checked by CBMC's --memory-leak-check in the
    // thorough tier (the harness ends with every owner dropped)
}

// ------------------------------------------------------------------ reserve / shrink
#[kani::proof]
#[kani::unwind(6)]
fn col_reserve_shrink_keep_contents() {
    let mut alloc = entity::Allocator::<R>::new();
    let mut a = arch(0b111);
    let p: u64 = kani::any();
    let s: u8 = kani::any();
    unsafe { a.push(entity!(Z::new(), S(s), T::new(p)), &mut alloc) };
    unsafe { a.reserve::<(Z, (S, (T, entity::Null)))>(3) };
    a.shrink_to_fit();
    assert!(a.len() == 1 && live(0) && unsafe { Z_LIVE } == 1);
    let col_s = a.components[1].0 as *const S;
    let col_t = a.components[2].0 as *const T;
    unsafe { assert!((*col_s).0 == s && (*col_t).payload == p, "C01: reserve/shrink_to_fit keep the values") };
    unsafe { a.push(entity!(Z::new(), S(1), T::new(2)), &mut alloc) };
    drop(a);
    assert!(all_dead());
}

// ------------------------------------------------------------------ clone / clone_from / eq
#[kani::proof]
#[kani::unwind(6)]
fn col_clone_is_independent() {
    let mut alloc = entity::Allocator::<R>::new();
    let mut a = arch(0b111);
    let p: [u64; 2] = kani::any();
    unsafe {
        a.push(entity!(Z::new(), S(kani::any()), T::new(p[0])), &mut alloc);
        a.push(entity!(Z::new(), S(kani::any()), T::new(p[1])), &mut alloc);
    }
    let b = a.clone();
    assert!(b.len() == 2 && live_count() == 4 && unsafe { Z_LIVE } == 4, "C10/C04: clone owns independent values");
    assert!(unsafe { a.component_eq(&b) }, "C16: a clone compares equal");
    assert!(a.components[2].0 != b.components[2].0 && a.entity_identifiers.0 != b.entity_identifiers.0, "C10: no shared allocation");
    let col_t = b.components[2].0 as *const T;
    unsafe { assert!((*col_t.add(0)).payload == p[0] && (*col_t.add(1)).payload == p[1], "C10: same values") };
    drop(a);
    assert!(live_count() == 2 && unsafe { Z_LIVE } == 2, "C10: dropping the original leaves the clone intact");
    drop(b);
    assert!(all_dead());
}

/// clone_from over a destination holding `n_dst` rows from a source holding `n_src` rows
/// (optionally a source emptied after having held a row): the destination's old values are
/// dropped, the source's values are cloned (C04, C10)
fn check_clone_from(n_src: usize, n_dst: usize, emptied: bool) {
    let mut alloc = entity::Allocator::<R>::new();
    let mut src = arch(0b101);
    let mut dst = arch(0b101);
    let mut i = 0;
    while i < n_src {
        unsafe { src.push(entity!(Z::new(), T::new(kani::any())), &mut alloc) };
        i += 1;
    }
    i = 0;
    while i < n_dst {
        unsafe { dst.push(entity!(Z::new(), T::new(kani::any())), &mut alloc) };
        i += 1;
    }
    if emptied {
        unsafe { src.remove_row_unchecked(0, &mut alloc) };
    }
    let src_len = src.len();
    let key_before = unsafe { dst.identifier() };
    dst.clone_from(&src);
    assert!(unsafe { dst.identifier() } == key_before, "C10/C13: clone_from keeps the destination table's own identifier buffer (the lookup tables and every location refer to it by address)");
    assert!(dst.len() == src_len, "C10: clone_from yields the source's rows");
    assert!(unsafe { dst.component_eq(&src) }, "C16/C10: equal to the source afterwards");
    assert!(live_count() == 2 * src_len, "C04: destination's previous values dropped, source's cloned");
    assert!(unsafe { Z_LIVE } == 2 * src_len as isize, "C04: same for zero-sized components");
    drop(src);
    drop(dst);
    assert!(all_dead());
}

#[kani::proof]
#[kani::unwind(6)]
fn col_clone_from_shorter_source() {
    check_clone_from(1, 2, false);
}

#[kani::proof]
#[kani::unwind(6)]
fn col_clone_from_longer_source() {
    check_clone_from(2, 1, false);
}

#[kani::proof]
#[kani::unwind(6)]
fn col_clone_from_empty_source() {
    check_clone_from(0, 2, false);
}

#[kani::proof]
#[kani::unwind(6)]
fn col_clone_from_emptied_source() {
    check_clone_from(1, 1, true);
}

#[kani::proof]
#[kani::unwind(6)]
fn col_clone_from_into_empty() {
    check_clone_from(2, 0, false);
}

/// equal cells but different entity identifiers in the rows: not equal (C16: "hold the same live
/// identifiers with the same component values")
#[kani::proof]
#[kani::unwind(6)]
fn col_component_eq_compares_identifiers() {
    let mut alloc_a = entity::Allocator::<R>::new();
    let mut alloc_b = entity::Allocator::<R>::new();
    let mut a = arch(0b010);
    let mut b = arch(0b010);
    let v: [u8; 2] = kani::any();
    unsafe {
        a.push(entity!(S(v[0])), &mut alloc_a);
        a.push(entity!(S(v[1])), &mut alloc_a);
        // b: same cells, but its rows belong to identifiers (1, 0) and (2, 0)
        b.push(entity!(S(0)), &mut alloc_b);
        b.push(entity!(S(v[0])), &mut alloc_b);
        b.push(entity!(S(v[1])), &mut alloc_b);
        b.remove_row_unchecked(0, &mut alloc_b);
    }
    // after the swap-remove b's rows are [(2,0): v1, (1,0): v0]
    assert!(!unsafe { a.component_eq(&b) }, "C16: tables whose rows carry different identifiers are not equal");
    assert!(!unsafe { b.component_eq(&a) }, "C16: symmetric");
    assert!(unsafe { a.component_eq(&a) } && unsafe { b.component_eq(&b) }, "C16: reflexive");
}

/// clone_from between tables whose columns have different capacities, followed by growth of the
/// destination: the destination must keep its OWN capacity bookkeeping (C05: no write past the
/// block, no release with a foreign size)
fn check_clone_from_keeps_own_capacity(big_src: bool) {
    let mut alloc = entity::Allocator::<R>::new();
    let mut src = arch(0b100);
    let mut dst = arch(0b100);
    // one side reserves a larger buffer
    if big_src {
        unsafe { src.reserve::<(T, entity::Null)>(4) };
    } else {
        unsafe { dst.reserve::<(T, entity::Null)>(4) };
    }
    unsafe { src.push(entity!(T::new(kani::any())), &mut alloc) };
    unsafe { dst.push(entity!(T::new(kani::any())), &mut alloc) };
    dst.clone_from(&src);
    // grow the destination beyond the smaller of the two capacities
    unsafe {
        dst.push(entity!(T::new(1)), &mut alloc);
        dst.push(entity!(T::new(2)), &mut alloc);
    }
    assert!(dst.len() == 3 && src.len() == 1);
    drop(src);
    drop(dst);
    assert!(all_dead());
}

#[kani::proof]
#[kani::unwind(8)]
fn col_clone_from_keeps_own_capacity_big_source() {
    check_clone_from_keeps_own_capacity(true);
}

#[kani::proof]
#[kani::unwind(8)]
fn col_clone_from_keeps_own_capacity_big_destination() {
    check_clone_from_keeps_own_capacity(false);
}

#[kani::proof]
#[kani::unwind(6)]
fn col_component_eq_is_pointwise() {
    let mut alloc = entity::Allocator::<R>::new();
    let mut a = arch(0b110);
    let mut b = arch(0b110);
    let pa: [u64; 2] = kani::any();
    let pb: [u64; 2] = kani::any();
    let sa: [u8; 2] = kani::any();
    let sb: [u8; 2] = kani::any();
    let ia0 = unsafe { a.push(entity!(S(sa[0]), T::new(pa[0])), &mut alloc) };
    let ia1 = unsafe { a.push(entity!(S(sa[1]), T::new(pa[1])), &mut alloc) };
    // same identifiers in b: write them directly (b is a table of another world)
    let mut alloc_b = entity::Allocator::<R>::new();
    let ib0 = unsafe { b.push(entity!(S(sb[0]), T::new(pb[0])), &mut alloc_b) };
    let ib1 = unsafe { b.push(entity!(S(sb[1]), T::new(pb[1])), &mut alloc_b) };
    assert!(ia0 == ib0 && ia1 == ib1);
    let eq = unsafe { a.component_eq(&b) };
    assert!(eq == (pa[0] == pb[0] && pa[1] == pb[1] && sa[0] == sb[0] && sa[1] == sb[1]), "C16: component_eq iff every cell equal");
    drop(a);
    drop(b);
    assert!(all_dead());
}

// ------------------------------------------------------------------ wide registry: identifier of two bytes
// Registry W10 = (W0 .. W7 one-byte, T tracked at position 8, W9 two-byte at position 9): the bit of
// T and W9 sits in the SECOND identifier byte, so column indices must count the set bits of the
// first byte too.
macro_rules! wide_comps { ($($n:ident),*) => { $( #[derive(Clone, Copy, PartialEq)] pub struct $n(u8); )* } }
wide_comps!(W0, W1, W2, W3, W4, W5, W6, W7);
#[derive(Clone, Copy, PartialEq)]
pub struct W9(u16);
type W10 = Registry!(W0, W1, W2, W3, W4, W5, W6, W7, T, W9);

/// `set_component_unchecked` on a component whose bit is in the second identifier byte, in a table
/// that also has components of the first byte: the new value lands in (and the old value is
/// dropped from) the column of THAT component; the other columns keep their bytes
#[kani::proof]
#[kani::unwind(12)]
fn col_set_component_second_identifier_byte() {
    let mut alloc = entity::Allocator::<W10>::new();
    // table {W1, W6, T, W9}
    let mut a = Archetype::<W10>::new(unsafe { Identifier::<W10>::new(vec![0b0100_0010, 0b11]) });
    let v: [u8; 4] = kani::any();
    let w: [u16; 2] = kani::any();
    unsafe {
        a.push(entity!(W1(v[0]), W6(v[1]), T::new(1), W9(w[0])), &mut alloc);
        a.push(entity!(W1(v[2]), W6(v[3]), T::new(2), W9(w[1])), &mut alloc);
    }
    let index: usize = kani::any();
    kani::assume(index < 2);
    let newp: u64 = kani::any();
    unsafe { a.set_component_unchecked::<T, _>(index, T::new(newp)) };
    assert!(dead(index), "C04: the overwritten T is dropped at that moment");
    assert!(live(1 - index) && live(2), "C04: nothing else dropped");
    let col_w1 = a.components[0].0 as *const W1;
    let col_w6 = a.components[1].0 as *const W6;
    let col_t = a.components[2].0 as *const T;
    let col_w9 = a.components[3].0 as *const W9;
    unsafe {
        assert!((*col_t.add(index)).payload == newp && (*col_t.add(index)).id == 2, "C01/C05: the value lands in T's column (third column of this table)");
        assert!((*col_t.add(1 - index)).id == 1 - index, "C01: the other entity's T untouched");
        assert!((*col_w1.add(0)).0 == v[0] && (*col_w1.add(1)).0 == v[2], "C05: W1's column keeps its bytes");
        assert!((*col_w6.add(0)).0 == v[1] && (*col_w6.add(1)).0 == v[3], "C05: W6's column keeps its bytes");
        assert!((*col_w9.add(0)).0 == w[0] && (*col_w9.add(1)).0 == w[1], "C05: W9's column keeps its bytes");
    }
    // the later component of the second byte as well
    let neww: u16 = kani::any();
    unsafe { a.set_component_unchecked::<W9, _>(index, W9(neww)) };
    unsafe {
        assert!((*col_w9.add(index)).0 == neww && (*col_w9.add(1 - index)).0 == w[1 - index], "C01/C05: W9's cell of that row only");
        assert!((*col_t.add(index)).payload == newp, "C05: T's column untouched by a W9 write");
    }
    drop(a);
    assert!(all_dead());
}

/// swap-remove in the same wide table: every column (both identifier bytes) moves the last row
/// into the hole and drops exactly the removed T
#[kani::proof]
#[kani::unwind(12)]
fn col_remove_row_second_identifier_byte() {
    let mut alloc = entity::Allocator::<W10>::new();
    let mut a = Archetype::<W10>::new(unsafe { Identifier::<W10>::new(vec![0b0100_0010, 0b11]) });
    let v: [u8; 4] = kani::any();
    let w: [u16; 2] = kani::any();
    unsafe {
        a.push(entity!(W1(v[0]), W6(v[1]), T::new(1), W9(w[0])), &mut alloc);
        a.push(entity!(W1(v[2]), W6(v[3]), T::new(2), W9(w[1])), &mut alloc);
    }
    unsafe { a.remove_row_unchecked(0, &mut alloc) };
    assert!(dead(0) && live(1), "C04: exactly the removed row's T is dropped");
    assert!(a.len() == 1);
    let col_w1 = a.components[0].0 as *const W1;
    let col_w6 = a.components[1].0 as *const W6;
    let col_t = a.components[2].0 as *const T;
    let col_w9 = a.components[3].0 as *const W9;
    unsafe {
        assert!((*col_w1).0 == v[2] && (*col_w6).0 == v[3] && (*col_t).id == 1 && (*col_w9).0 == w[1], "C01: the surviving row keeps all four of its values (columns of both identifier bytes)");
    }
    drop(a);
    assert!(all_dead());
}

/// the table of component-less entities has rows too: clone / clone_from copy its identifier
/// column and length (there is no component column to copy)
#[kani::proof]
#[kani::unwind(6)]
fn col_clone_componentless_table() {
    let mut alloc = entity::Allocator::<R>::new();
    let mut a = arch(0b000);
    let i0 = unsafe { a.push(entity!(), &mut alloc) };
    let i1 = unsafe { a.push(entity!(), &mut alloc) };
    let b = a.clone();
    assert!(b.len() == 2, "C10: the clone of the component-less table holds the same number of entities");
    let ids_b = b.entity_identifiers.0 as *const entity::Identifier;
    unsafe { assert!(*ids_b == i0 && *ids_b.add(1) == i1, "C10: same identifiers, same rows") };
    assert!(a.entity_identifiers.0 != b.entity_identifiers.0, "C10: no shared allocation");
    assert!(unsafe { a.component_eq(&b) }, "C16: a clone compares equal");
    let mut c = arch(0b000);
    unsafe { c.push(entity!(), &mut alloc) };
    c.clone_from(&a);
    assert!(c.len() == 2, "C10: clone_from into a component-less table that held one entity");
    let ids_c = c.entity_identifiers.0 as *const entity::Identifier;
    unsafe { assert!(*ids_c == i0 && *ids_c.add(1) == i1, "C10: same identifiers, same rows") };
}
