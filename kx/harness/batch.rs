//! K-batch: `Batch::new` refuses ragged columns (C18).  Child module of `crate::entities`.
//! Zero-sized columns make every `usize` length constructible, so lengths are full-domain.
use super::*;
use alloc::vec::Vec;

#[derive(Clone, Copy)]
pub struct P;
#[derive(Clone, Copy)]
pub struct Q;
#[derive(Clone, Copy)]
pub struct U;
#[derive(Clone, Copy)]
pub struct W;

fn check_len<E: Entities>(e: &E) -> bool {
    e.check_len()
}
fn component_len<E: Entities>(e: &E) -> usize {
    e.component_len()
}

fn col<T: Copy>(n: usize) -> Vec<T> {
    let mut v: Vec<T> = Vec::new();
    // a Vec of a zero-sized type has capacity usize::MAX and needs no initialisation
    unsafe { v.set_len(n) };
    v
}

/// check_len is exactly "all columns have the same length" (1 to 4 columns, all lengths)
#[kani::proof]
fn batch_check_len_is_equality() {
    let l: [usize; 4] = kani::any();
    let c1 = (col::<P>(l[0]), Null);
    assert!(check_len(&c1), "one column is never ragged");
    let c2 = (col::<P>(l[0]), (col::<Q>(l[1]), Null));
    assert!(check_len(&c2) == (l[0] == l[1]), "C18: two columns");
    let c3 = (col::<P>(l[0]), (col::<Q>(l[1]), (col::<U>(l[2]), Null)));
    assert!(check_len(&c3) == (l[0] == l[1] && l[1] == l[2]), "C18: three columns");
    let c4 = (col::<P>(l[0]), (col::<Q>(l[1]), (col::<U>(l[2]), (col::<W>(l[3]), Null))));
    assert!(check_len(&c4) == (l[0] == l[1] && l[1] == l[2] && l[2] == l[3]), "C18: four columns");
    assert!(component_len(&c4) == l[0]);
}

/// the safe constructor accepts every rectangular batch (no spurious panic) and reports its length
#[kani::proof]
fn batch_new_accepts_rectangular() {
    let n: usize = kani::any();
    let b = Batch::new((col::<P>(n), (col::<Q>(n), (col::<U>(n), Null))));
    assert!(b.len() == n, "C01: batch length is the column length");
    let e = Batch::new((col::<P>(n), Null));
    assert!(e.len() == n);
}

/// the safe constructor never returns for a ragged batch: the statement after it is unreachable.
/// The panic inside `Batch::new` is the expected outcome (`should_panic`).
#[kani::proof]
#[kani::should_panic]
fn batch_new_rejects_ragged_3() {
    let l: [usize; 3] = kani::any();
    kani::assume(!(l[0] == l[1] && l[1] == l[2]));
    let _b = Batch::new((col::<P>(l[0]), (col::<Q>(l[1]), (col::<U>(l[2]), Null))));
    kani::cover!(true, "MUST-BE-UNREACHABLE: Batch::new returned for ragged columns");
}

#[kani::proof]
#[kani::should_panic]
fn batch_new_rejects_ragged_2() {
    let l: [usize; 2] = kani::any();
    kani::assume(l[0] != l[1]);
    let _b = Batch::new((col::<P>(l[0]), (col::<Q>(l[1]), Null)));
    kani::cover!(true, "MUST-BE-UNREACHABLE: Batch::new returned for ragged columns");
}

#[kani::proof]
#[kani::should_panic]
fn batch_new_rejects_ragged_4() {
    let l: [usize; 4] = kani::any();
    kani::assume(!(l[0] == l[1] && l[1] == l[2] && l[2] == l[3]));
    let _b = Batch::new((col::<P>(l[0]), (col::<Q>(l[1]), (col::<U>(l[2]), (col::<W>(l[3]), Null)))));
    kani::cover!(true, "MUST-BE-UNREACHABLE: Batch::new returned for ragged columns");
}
