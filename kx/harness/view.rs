//! K-view: column selection of views and evaluation of filters on archetype identifiers (C03,
//! C05).  Second child module of `crate::archetype`.  Registry V3 = (VA u8, VB u16, VC u32).
//! Bound: 2 rows per table; payloads symbolic; table shapes and view lists fixed per harness
//! (a generated family: every view kind, on present and absent components, several orders);
//! filter truth tables over ALL 8 tables of V3 (complete per filter instance).
use super::*;
use crate::{
    entity,
    query::{filter, Views},
    registry::contains::filter::Sealed as FilterSealed,
    Registry,
};
use alloc::vec;

#[derive(Clone, Copy, PartialEq)]
pub struct VA(u8);
#[derive(Clone, Copy, PartialEq)]
pub struct VB(u16);
#[derive(Clone, Copy, PartialEq)]
pub struct VC(u32);
type V3 = Registry!(VA, VB, VC);

fn table(bits: u8) -> Archetype<V3> {
    Archetype::<V3>::new(unsafe { Identifier::<V3>::new(vec![bits]) })
}

struct Cols {
    a: *const VA,
    b: *const VB,
    c: *const VC,
}

/// raw column base pointers of a full (0b111) table, for address comparison
fn cols_full(t: &Archetype<V3>) -> Cols {
    Cols { a: t.components[0].0 as *const VA, b: t.components[1].0 as *const VB, c: t.components[2].0 as *const VC }
}

fn full_table(alloc: &mut entity::Allocator<V3>) -> (Archetype<V3>, [entity::Identifier; 2]) {
    let mut t = table(0b111);
    let i0 = unsafe { t.push(entity!(VA(kani::any()), VB(kani::any()), VC(kani::any())), alloc) };
    let i1 = unsafe { t.push(entity!(VA(kani::any()), VB(kani::any()), VC(kani::any())), alloc) };
    (t, [i0, i1])
}

/// which row (0 or 1) of the two-row column starting at `base` `p` points at; 2 = neither.
/// The property fixes no iteration order: harnesses identify the row an item belongs to by its
/// address, require every row exactly once, and require the items of the other views of the same
/// result to belong to the SAME row.
fn row_of<T>(p: *const T, base: *const T) -> usize {
    if p == base {
        0
    } else if p == unsafe { base.add(1) } {
        1
    } else {
        2
    }
}

/// `&A, &mut C` over {A,B,C}: each iterator walks the column of *its* component
#[kani::proof]
#[kani::unwind(5)]
fn view_ref_and_mut() {
    let mut alloc = entity::Allocator::<V3>::new();
    let (mut t, _) = full_table(&mut alloc);
    let c = cols_full(&t);
    let (mut ra, (mut rc, _)) = unsafe { t.view::<Views!(&VA, &mut VC), _>() };
    let mut r = 0;
    let mut seen = [false; 2];
    while r < 2 {
        let va = ra.next().unwrap();
        let vc = rc.next().unwrap();
        let k = row_of(va as *const VA, c.a);
        assert!(k < 2 && !seen[k], "C03: &A yields a cell of A's column, every row once");
        seen[k] = true;
        assert!(row_of(vc as *mut VC as *const VC, c.c) == k, "C03: &mut C yields the same row's cell of C's column (skipping B)");
        r += 1;
    }
    assert!(ra.next().is_none() && rc.next().is_none(), "C03: one result per row");
}

/// an optional (mutable) view of a present component consumes that column, so later views are
/// not shifted
#[kani::proof]
#[kani::unwind(5)]
fn view_optional_present_then_later_component() {
    let mut alloc = entity::Allocator::<V3>::new();
    let (mut t, _) = full_table(&mut alloc);
    let c = cols_full(&t);
    {
        let (mut ra, (mut rc, _)) = unsafe { t.view::<Views!(Option<&mut VA>, &VC), _>() };
        let mut r = 0;
        let mut seen = [false; 2];
        while r < 2 {
            let va = ra.next().unwrap();
            let vc = rc.next().unwrap();
            assert!(va.is_some(), "C03: optional view of a present component is Some");
            let k = row_of(va.unwrap() as *mut VA as *const VA, c.a);
            assert!(k < 2 && !seen[k], "C03: Option<&mut A> yields a cell of A's column, every row once");
            seen[k] = true;
            assert!(row_of(vc as *const VC, c.c) == k, "C03: a view after Option<&mut A> still reads its own column (same row)");
            r += 1;
        }
    }
    {
        let (mut rb, (mut rc, _)) = unsafe { t.view::<Views!(Option<&VB>, &mut VC), _>() };
        let mut r = 0;
        let mut seen = [false; 2];
        while r < 2 {
            let vb = rb.next().unwrap();
            let vc = rc.next().unwrap();
            let k = row_of(vb.unwrap() as *const VB, c.b);
            assert!(k < 2 && !seen[k], "C03: Option<&B> yields a cell of B's column, every row once");
            seen[k] = true;
            assert!(row_of(vc as *mut VC as *const VC, c.c) == k, "C03: a view after Option<&B> still reads its own column (same row)");
            r += 1;
        }
    }
}

/// optional views of an absent component are None for every row and consume no column;
/// the identifier view yields each row's own identifier
#[kani::proof]
#[kani::unwind(5)]
fn view_optional_absent_and_identifier() {
    let mut alloc = entity::Allocator::<V3>::new();
    let mut t = table(0b101);
    let i0 = unsafe { t.push(entity!(VA(kani::any()), VC(kani::any())), &mut alloc) };
    let i1 = unsafe { t.push(entity!(VA(kani::any()), VC(kani::any())), &mut alloc) };
    let ca = t.components[0].0 as *const VA;
    let cc = t.components[1].0 as *const VC;
    let (mut rid, (mut ra, (mut rb, (mut rc, _)))) =
        unsafe { t.view::<Views!(entity::Identifier, &VA, Option<&mut VB>, &mut VC), _>() };
    let ids = [i0, i1];
    // the per-column iterators know the exact number of rows left (unit qiter assumes an exact
    // size_hint of the per-table row iterator, which is std's Zip of these: min of the bounds)
    assert!(rid.size_hint() == (2, Some(2)) && ra.size_hint() == (2, Some(2)) && rb.size_hint() == (2, Some(2)) && rc.size_hint() == (2, Some(2)),
            "C03: every column iterator of a 2-row table reports exactly 2 remaining items");
    let mut r = 0;
    let mut seen = [false; 2];
    while r < 2 {
        let k = row_of(ra.next().unwrap() as *const VA, ca);
        assert!(k < 2 && !seen[k], "C03: &A yields a cell of A's column, every row once");
        seen[k] = true;
        assert!(rid.next().unwrap() == ids[k], "C03: each result carries that entity's own identifier");
        assert!(rb.next().unwrap().is_none(), "C03: optional view is None exactly when the component is absent");
        assert!(row_of(rc.next().unwrap() as *mut VC as *const VC, cc) == k, "C03: absent optional component consumes no column (same row)");
        r += 1;
    }
    assert!(rid.size_hint() == (0, Some(0)) && ra.size_hint() == (0, Some(0)) && rb.size_hint() == (0, Some(0)) && rc.size_hint() == (0, Some(0)),
            "C03: exhausted column iterators report 0 remaining items");
    assert!(rid.next().is_none() && ra.next().is_none() && rb.next().is_none() && rc.next().is_none());
}

/// the empty view list: the row iterator of `Views!()` still has one (empty) result per row
#[kani::proof]
#[kani::unwind(5)]
fn view_null_has_one_result_per_row() {
    let mut alloc = entity::Allocator::<V3>::new();
    let (mut t, _) = full_table(&mut alloc);
    let mut it = unsafe { t.view::<Views!(), _>() };
    assert!(it.size_hint() == (2, Some(2)), "C03: the empty view list has one result per row (exact size_hint)");
    assert!(it.next().is_some() && it.next().is_some() && it.next().is_none(), "C03: exactly one result per row");
}

/// single-entity path (World::entry / Entries): view_row_unchecked picks that row's cells
#[kani::proof]
#[kani::unwind(5)]
fn view_row_picks_that_row() {
    let mut alloc = entity::Allocator::<V3>::new();
    let (mut t, ids) = full_table(&mut alloc);
    let c = cols_full(&t);
    let index: usize = kani::any();
    kani::assume(index < 2);
    let (id, (vb, (vc, _))) = unsafe { t.view_row_unchecked::<Views!(entity::Identifier, Option<&mut VB>, &VC), _>(index) };
    assert!(id == ids[index], "C03: entry query yields that entity's identifier");
    assert!(vb.unwrap() as *mut VB as *const VB == unsafe { c.b.add(index) }, "C03: and that entity's values");
    assert!(vc as *const VC == unsafe { c.c.add(index) });
}

/// single-entity path: an immutable optional view of a PRESENT component consumes its column
#[kani::proof]
#[kani::unwind(5)]
fn view_row_optional_present_then_later_component() {
    let mut alloc = entity::Allocator::<V3>::new();
    let (mut t, _) = full_table(&mut alloc);
    let c = cols_full(&t);
    let index: usize = kani::any();
    kani::assume(index < 2);
    {
        let (va, (vb, (vc, _))) = unsafe { t.view_row_unchecked::<Views!(Option<&VA>, &VB, &mut VC), _>(index) };
        assert!(va.unwrap() as *const VA == unsafe { c.a.add(index) });
        assert!(vb as *const VB == unsafe { c.b.add(index) }, "C03: a view after a present Option<&A> reads its own column");
        assert!(vc as *mut VC as *const VC == unsafe { c.c.add(index) }, "C03: and a write through &mut C lands in C");
    }
    {
        let (va, (vc, _)) = unsafe { t.view_row_unchecked::<Views!(Option<&mut VA>, &VC), _>(index) };
        assert!(va.unwrap() as *mut VA as *const VA == unsafe { c.a.add(index) });
        assert!(vc as *const VC == unsafe { c.c.add(index) });
    }
}

/// single-entity path with an optional view of an ABSENT component followed by later components:
/// the absent optional must not consume a column
#[kani::proof]
#[kani::unwind(5)]
fn view_row_optional_absent_then_later_component() {
    let mut alloc = entity::Allocator::<V3>::new();
    let mut t = table(0b110);
    unsafe {
        t.push(entity!(VB(kani::any()), VC(kani::any())), &mut alloc);
        t.push(entity!(VB(kani::any()), VC(kani::any())), &mut alloc);
    }
    let pb = t.components[0].0 as *const VB;
    let pc = t.components[1].0 as *const VC;
    let index: usize = kani::any();
    kani::assume(index < 2);
    {
        let (va, (vb, (vc, _))) = unsafe { t.view_row_unchecked::<Views!(Option<&VA>, &VB, &mut VC), _>(index) };
        assert!(va.is_none(), "C03: optional view of an absent component is None");
        assert!(vb as *const VB == unsafe { pb.add(index) }, "C03/C05: a view after an absent Option<&A> reads its own column");
        assert!(vc as *mut VC as *const VC == unsafe { pc.add(index) }, "C03/C05: and so does the next one (no read past the column list)");
    }
    {
        let (va, (vc, _)) = unsafe { t.view_row_unchecked::<Views!(Option<&mut VA>, &VC), _>(index) };
        assert!(va.is_none());
        assert!(vc as *const VC == unsafe { pc.add(index) }, "C03/C05: a view after an absent Option<&mut A> reads its own column");
    }
}

/// a write through a mutable view changes that cell only
#[kani::proof]
#[kani::unwind(5)]
fn view_write_is_local() {
    let mut alloc = entity::Allocator::<V3>::new();
    let mut t = table(0b110);
    let b: [u16; 2] = kani::any();
    let cv: [u32; 2] = kani::any();
    unsafe {
        t.push(entity!(VB(b[0]), VC(cv[0])), &mut alloc);
        t.push(entity!(VB(b[1]), VC(cv[1])), &mut alloc);
    }
    let nv: u16 = kani::any();
    let pb = t.components[0].0 as *const VB;
    let pc = t.components[1].0 as *const VC;
    let k;
    {
        let (mut rb, _) = unsafe { t.view::<Views!(&mut VB), _>() };
        rb.next();
        let second = rb.next().unwrap();
        k = row_of(second as *mut VB as *const VB, pb);
        assert!(k < 2, "C03: &mut B yields a cell of B's column");
        second.0 = nv;
    }
    unsafe {
        assert!((*pb.add(k)).0 == nv && (*pb.add(1 - k)).0 == b[1 - k], "C03: write seen by later reads of that entity only");
        assert!((*pc).0 == cv[0] && (*pc.add(1)).0 == cv[1], "C03: other components untouched");
    }
}

// ------------------------------------------------------------------ filters: truth tables over all 8 tables
fn bit(bits: u8, k: u8) -> bool {
    (bits >> k) & 1 == 1
}

macro_rules! filter_harness {
    ($name:ident, $filter:ty, |$b:ident| $spec:expr) => {
        #[kani::proof]
        #[kani::unwind(5)]
        fn $name() {
            let $b: u8 = kani::any();
            kani::assume($b < 8);
            let id = unsafe { Identifier::<V3>::new(vec![$b]) };
            let got = unsafe { <V3 as FilterSealed<$filter, _>>::filter(id.as_ref()) };
            assert!(got == $spec, "C03: archetype selected iff its component set satisfies the filter");
        }
    };
}
filter_harness!(filter_has_a, filter::Has<VA>, |b| bit(b, 0));
filter_harness!(filter_has_c, filter::Has<VC>, |b| bit(b, 2));
filter_harness!(filter_none, filter::None, |b| true);
filter_harness!(filter_not_has_b, filter::Not<filter::Has<VB>>, |b| !bit(b, 1));
filter_harness!(filter_and, filter::And<filter::Has<VA>, filter::Has<VC>>, |b| bit(b, 0) && bit(b, 2));
filter_harness!(filter_or, filter::Or<filter::Has<VB>, filter::Has<VC>>, |b| bit(b, 1) || bit(b, 2));
filter_harness!(filter_and_not, filter::And<filter::Has<VC>, filter::Not<filter::Has<VA>>>, |b| bit(b, 2) && !bit(b, 0));
filter_harness!(filter_or_not_and, filter::Or<filter::Not<filter::Has<VC>>, filter::And<filter::Has<VA>, filter::Has<VB>>>, |b| !bit(b, 2) || (bit(b, 0) && bit(b, 1)));
// views used as filters: non-optional views require the component, optional ones and the
// identifier do not
filter_harness!(filter_view_ref, &'static VB, |b| bit(b, 1));
filter_harness!(filter_view_mut, &'static mut VC, |b| bit(b, 2));
filter_harness!(filter_view_option, Option<&'static VA>, |b| true);
filter_harness!(filter_view_option_mut, Option<&'static mut VA>, |b| true);
filter_harness!(filter_view_identifier, entity::Identifier, |b| true);
filter_harness!(filter_views_list, Views!(&'static VA, Option<&'static mut VB>, &'static mut VC), |b| bit(b, 0) && bit(b, 2));
filter_harness!(filter_and_views, filter::And<filter::Not<filter::Has<VB>>, Views!(&'static VC)>, |b| !bit(b, 1) && bit(b, 2));

// ------------------------------------------------------------------ equality across an identifier byte boundary (C16)
macro_rules! eq_comps { ($($n:ident),*) => { $( #[derive(Clone, Copy, PartialEq)] pub struct $n(u8); )* } }
eq_comps!(E0, E1, E2, E3, E4, E5, E6, E7, E8, E9);
type V10 = Registry!(E0, E1, E2, E3, E4, E5, E6, E7, E8, E9);

/// component_eq compares *every* column, including those whose bit sits in a later identifier
/// byte (registry of 10 components; table {E0, E8} and table {E8, E9})
#[kani::proof]
#[kani::unwind(12)]
fn eq_compares_columns_in_later_identifier_bytes() {
    let v: [u8; 4] = kani::any();
    let mut alloc_a = entity::Allocator::<V10>::new();
    let mut alloc_b = entity::Allocator::<V10>::new();
    let mut a = Archetype::<V10>::new(unsafe { Identifier::<V10>::new(vec![0b0000_0001, 0b01]) });
    let mut b = Archetype::<V10>::new(unsafe { Identifier::<V10>::new(vec![0b0000_0001, 0b01]) });
    unsafe {
        a.push(entity!(E0(v[0]), E8(v[1])), &mut alloc_a);
        b.push(entity!(E0(v[2]), E8(v[3])), &mut alloc_b);
    }
    assert!(unsafe { a.component_eq(&b) } == (v[0] == v[2] && v[1] == v[3]), "C16: equal iff every component value is equal (first and second identifier byte)");
    let mut c = Archetype::<V10>::new(unsafe { Identifier::<V10>::new(vec![0, 0b11]) });
    let mut d = Archetype::<V10>::new(unsafe { Identifier::<V10>::new(vec![0, 0b11]) });
    let mut alloc_c = entity::Allocator::<V10>::new();
    let mut alloc_d = entity::Allocator::<V10>::new();
    unsafe {
        c.push(entity!(E8(v[0]), E9(v[1])), &mut alloc_c);
        d.push(entity!(E8(v[2]), E9(v[3])), &mut alloc_d);
    }
    assert!(unsafe { c.component_eq(&d) } == (v[0] == v[2] && v[1] == v[3]), "C16: equal iff every component value is equal (second identifier byte only)");
}

// ------------------------------------------------------------------ Entries: filters over the declared entry views (C03)
use crate::query::view as qview;

fn entry_filter<'a, V, F, I>(indices: &V::Indices, id: IdentifierRef<V3>) -> bool
where
    V: qview::ContainsFilter<'a, F, I>,
{
    unsafe { V::filter(indices, id) }
}

type EV<'a> = Views!(&'a VA, Option<&'a mut VB>, &'a mut VC);

/// the registry positions of a list of entry views, computed by the REAL `indices()` the way
/// `query::entries::Entry::query` computes them
fn real_indices<'a, V, I>() -> V::Indices
where
    V: crate::query::view::Views<'a>,
    V3: crate::registry::ContainsViews<'a, V, I>,
{
    use crate::registry::contains::views::{ContainsViewsOuter, Sealed as ContainsViewsSealed};
    <<V3 as ContainsViewsSealed<'a, V, I>>::Viewable as ContainsViewsOuter<
        'a,
        V,
        <V3 as ContainsViewsSealed<'a, V, I>>::Containments,
        <V3 as ContainsViewsSealed<'a, V, I>>::Indices,
        <V3 as ContainsViewsSealed<'a, V, I>>::ReshapeIndices,
    >>::indices()
}

/// C03: `indices()` gives every entry view the registry position of ITS component, whatever view
/// kinds precede it (all six orders / kinds below would shift a later index if one link of the
/// type-level recursion passed the wrong registry on)
#[kani::proof]
fn view_entry_indices_are_registry_positions() {
    let (a, (b, (c, _))) = real_indices::<EV<'static>, _>();
    assert!(a == 0 && b == 1 && c == 2, "C03: (&VA, Option<&mut VB>, &mut VC) -> positions 0, 1, 2");
    let (c2, (a2, _)) = real_indices::<Views!(&'static mut VC, Option<&'static VA>), _>();
    assert!(c2 == 2 && a2 == 0, "C03: (&mut VC, Option<&VA>) -> positions 2, 0");
    let (a3, (c3, _)) = real_indices::<Views!(Option<&'static mut VA>, &'static VC), _>();
    assert!(a3 == 0 && c3 == 2, "C03: (Option<&mut VA>, &VC) -> positions 0, 2 (a view after Option<&mut _> keeps its own position)");
    let (b4, (c4, _)) = real_indices::<Views!(Option<&'static VB>, &'static mut VC), _>();
    assert!(b4 == 1 && c4 == 2, "C03: (Option<&VB>, &mut VC) -> positions 1, 2");
    let (a5, (b5, (c5, _))) = real_indices::<Views!(&'static mut VA, &'static VB, Option<&'static mut VC>), _>();
    assert!(a5 == 0 && b5 == 1 && c5 == 2, "C03: (&mut VA, &VB, Option<&mut VC>) -> positions 0, 1, 2");
    let (a6, (c6, _)) = real_indices::<Views!(Option<&'static mut VA>, Option<&'static mut VC>), _>();
    assert!(a6 == 0 && c6 == 2, "C03: (Option<&mut VA>, Option<&mut VC>) -> positions 0, 2");
}


macro_rules! entry_filter_harness {
    ($name:ident, $filter:ty, |$b:ident| $spec:expr) => {
        #[kani::proof]
        #[kani::unwind(5)]
        fn $name() {
            let $b: u8 = kani::any();
            kani::assume($b < 8);
            let id = unsafe { Identifier::<V3>::new(vec![$b]) };
            // registry positions of the entry views (&VA, Option<&mut VB>, &mut VC), computed by the
            // real `indices()` as `Entry::query` does
            let indices = real_indices::<EV<'static>, _>();
            let got = entry_filter::<EV<'static>, $filter, _>(&indices, unsafe { id.as_ref() });
            assert!(got == $spec, "C03: an Entries sub-query matches iff the entity's component set satisfies the filter");
        }
    };
}
entry_filter_harness!(entry_filter_has_ref, filter::Has<VA>, |b| bit(b, 0));
entry_filter_harness!(entry_filter_has_optional_mut, filter::Has<VB>, |b| bit(b, 1));
entry_filter_harness!(entry_filter_has_mut, filter::Has<VC>, |b| bit(b, 2));
entry_filter_harness!(entry_filter_not_has_optional_mut, filter::Not<filter::Has<VB>>, |b| !bit(b, 1));
entry_filter_harness!(entry_filter_and, filter::And<filter::Has<VB>, filter::Has<VC>>, |b| bit(b, 1) && bit(b, 2));
entry_filter_harness!(entry_filter_or, filter::Or<filter::Has<VA>, filter::Has<VB>>, |b| bit(b, 0) || bit(b, 1));
entry_filter_harness!(entry_filter_none, filter::None, |b| true);
entry_filter_harness!(entry_filter_subview_ref_of_mut, &'static VC, |b| bit(b, 2));
entry_filter_harness!(entry_filter_subview_ref_of_optional, &'static VB, |b| bit(b, 1));
entry_filter_harness!(entry_filter_subview_optional, Option<&'static VB>, |b| true);
entry_filter_harness!(entry_filter_subviews_list, Views!(&'static VA, &'static mut VC), |b| bit(b, 0) && bit(b, 2));

// ---------------------------------------------------------------------------------------------
// parallel views (C09/C03): the real Archetype::par_view -> registry/sealed/par_view.rs.  The
// rayon iterators are driven through rayon's public Producer interface (sequentially: Kani has
// no threads), so what is checked is the column each parallel view walks, not the scheduling.
mod par {
    use super::*;
    use rayon::iter::plumbing::{Producer, ProducerCallback};
    use rayon::iter::IndexedParallelIterator;

    pub trait Addr {
        fn addr(self) -> usize;
    }
    impl<'a, T> Addr for &'a T {
        fn addr(self) -> usize {
            self as *const T as usize
        }
    }
    impl<'a, T> Addr for &'a mut T {
        fn addr(self) -> usize {
            self as *mut T as usize
        }
    }
    impl<'a, T> Addr for Option<&'a T> {
        fn addr(self) -> usize {
            match self {
                Some(r) => r as *const T as usize,
                None => 0,
            }
        }
    }
    impl<'a, T> Addr for Option<&'a mut T> {
        fn addr(self) -> usize {
            match self {
                Some(r) => r as *mut T as usize,
                None => 0,
            }
        }
    }

    /// walks a whole producer and reports (number of items, addresses of the first two)
    pub struct Walk;
    impl<I: Addr> ProducerCallback<I> for Walk {
        type Output = (usize, [usize; 2]);
        fn callback<P>(self, producer: P) -> Self::Output
        where
            P: Producer<Item = I>,
        {
            let mut n = 0usize;
            let mut out = [0usize; 2];
            for x in producer.into_iter() {
                let a = x.addr();
                if n < 2 {
                    out[n] = a;
                }
                n += 1;
            }
            (n, out)
        }
    }

    pub fn walk<I: Addr, It: IndexedParallelIterator<Item = I>>(it: It) -> (usize, [usize; 2]) {
        it.with_producer(Walk)
    }
}

/// `got` are the addresses of the two rows of the column starting at `base`, in either order
/// (element-wise: an array `==` is a memcmp loop)
fn rows_of<T>(got: [usize; 2], base: *const T) -> bool {
    let (k0, k1) = (row_of(got[0] as *const T, base), row_of(got[1] as *const T, base));
    k0 < 2 && k1 < 2 && k0 != k1
}
/// the two views of one parallel result list are aligned: item i of both belongs to the same row
fn aligned<T, U>(a: [usize; 2], base_a: *const T, b: [usize; 2], base_b: *const U) -> bool {
    row_of(a[0] as *const T, base_a) == row_of(b[0] as *const U, base_b) && row_of(a[1] as *const T, base_a) == row_of(b[1] as *const U, base_b)
}

/// `&mut A, &mut C` in parallel over {A,B,C}: each parallel iterator walks its own column, so no
/// two of them hand out the same cell
#[kani::proof]
#[kani::unwind(5)]
fn view_par_mut_and_mut() {
    let mut alloc = entity::Allocator::<V3>::new();
    let (mut t, _) = full_table(&mut alloc);
    let c = cols_full(&t);
    let (pa, (pc, _)) = unsafe { t.par_view::<Views!(&mut VA, &mut VC), _, _, _>() };
    let (na, aa) = par::walk(pa);
    let (nc, ac) = par::walk(pc);
    assert!(na == 2 && nc == 2, "C09: one parallel result per row");
    assert!(rows_of(aa, c.a), "C09: par &mut A walks A's column");
    assert!(rows_of(ac, c.c), "C09: par &mut C walks C's column (skipping B)");
    assert!(aligned(aa, c.a, ac, c.c), "C09: item i of both views belongs to the same entity");
}

/// an optional mutable parallel view of a PRESENT component consumes that column: the view after
/// it reads its own column and never aliases the optional one
#[kani::proof]
#[kani::unwind(5)]
fn view_par_optional_mut_present_then_later_component() {
    let mut alloc = entity::Allocator::<V3>::new();
    let (mut t, _) = full_table(&mut alloc);
    let c = cols_full(&t);
    let (pa, (pb, _)) = unsafe { t.par_view::<Views!(Option<&mut VA>, &mut VB), _, _, _>() };
    let (na, aa) = par::walk(pa);
    let (nb, ab) = par::walk(pb);
    assert!(na == 2 && nb == 2, "C09: one parallel result per row");
    assert!(rows_of(aa, c.a), "C09: par Option<&mut A> of a present component is Some(cell of A)");
    assert!(rows_of(ab, c.b), "C09: the view after par Option<&mut A> walks its own column (no aliasing)");
    assert!(aligned(aa, c.a, ab, c.b), "C09: item i of both views belongs to the same entity");
}

/// same for an optional immutable parallel view
#[kani::proof]
#[kani::unwind(5)]
fn view_par_optional_ref_present_then_later_component() {
    let mut alloc = entity::Allocator::<V3>::new();
    let (mut t, _) = full_table(&mut alloc);
    let c = cols_full(&t);
    let (pb, (pc, _)) = unsafe { t.par_view::<Views!(Option<&VB>, &mut VC), _, _, _>() };
    let (nb, ab) = par::walk(pb);
    let (nc, ac) = par::walk(pc);
    assert!(nb == 2 && nc == 2);
    assert!(rows_of(ab, c.b), "C09: par Option<&B> of a present component is Some(cell of B)");
    assert!(rows_of(ac, c.c), "C09: the view after par Option<&B> walks its own column");
    assert!(aligned(ab, c.b, ac, c.c), "C09: item i of both views belongs to the same entity");
}

/// optional parallel views of an ABSENT component yield None per row and consume no column
#[kani::proof]
#[kani::unwind(5)]
fn view_par_optional_absent() {
    let mut alloc = entity::Allocator::<V3>::new();
    let mut t = table(0b101);
    unsafe { t.push(entity!(VA(kani::any()), VC(kani::any())), &mut alloc) };
    unsafe { t.push(entity!(VA(kani::any()), VC(kani::any())), &mut alloc) };
    let ca = t.components[0].0 as *const VA;
    let cc = t.components[1].0 as *const VC;
    let (pa, (pb, (pc, _))) = unsafe { t.par_view::<Views!(&VA, Option<&mut VB>, &mut VC), _, _, _>() };
    let (na, aa) = par::walk(pa);
    let (nb, ab) = par::walk(pb);
    let (nc, ac) = par::walk(pc);
    assert!(na == 2 && nb == 2 && nc == 2, "C09: one parallel result per row, also for absent optional views");
    assert!(rows_of(aa, ca));
    assert!(ab[0] == 0 && ab[1] == 0, "C09: par optional view is None exactly when the component is absent");
    assert!(rows_of(ac, cc), "C09: an absent optional component consumes no column");
    assert!(aligned(aa, ca, ac, cc), "C09: item i of both views belongs to the same entity");
}
