//! K-stages: instances of the compile-time stager (C08).  Child module of
//! `crate::system::schedule`.  The staging of a schedule is a *type* computed by trait
//! resolution (`Sealed::Stages`); a contract verifier cannot quantify over it, so these are
//! instance checks: for each three-task schedule below the computed `Stages` type is compared
//! (TypeId) with the staging the property demands.  The instances are chosen so that the
//! conflicting pair is NOT adjacent in the schedule (a stager that only compares neighbours, or
//! only the head of the stage's claim list, gets them wrong), for component views, optional
//! views, entry views and resource views.
use super::Sealed as Schedule;
use crate::{
    query::{filter, Result, Views},
    registry,
    system::{
        schedule::{stage, stages, task},
        System,
    },
    Registry, Resources,
};
use core::any::TypeId;

struct A(u32);
struct B(u32);
struct X(u32);
struct Y(u32);
type Reg = Registry!(A, B);

macro_rules! sys {
    ($name:ident, [$($v:ty),*], [$($r:ty),*], [$($e:ty),*]) => {
        struct $name;
        impl System for $name {
            type Views<'a> = Views!($($v),*);
            type Filter = filter::None;
            type ResourceViews<'a> = Views!($($r),*);
            type EntryViews<'a> = Views!($($e),*);
            fn run<'a, R, S, I, E>(
                &mut self,
                _query_results: Result<R, S, I, Self::ResourceViews<'a>, Self::EntryViews<'a>, E>,
            ) where
                R: registry::Registry,
                I: Iterator<Item = Self::Views<'a>>,
            {
            }
        }
    };
}

type Three<T1, T2, T3> = (task::System<T1>, (task::System<T2>, (task::System<T3>, task::Null)));
/// {T1, T2} | {T3}
type CutBeforeThird<T1, T2, T3> = (
    (&'static mut task::System<T1>, (&'static mut task::System<T2>, stage::Null)),
    ((&'static mut task::System<T3>, stage::Null), stages::Null),
);
/// {T1} | {T2, T3}
type CutAfterFirst<T1, T2, T3> = (
    (&'static mut task::System<T1>, stage::Null),
    ((&'static mut task::System<T2>, (&'static mut task::System<T3>, stage::Null)), stages::Null),
);
/// {T1} | {T2} | {T3}
type AllSeparate<T1, T2, T3> = (
    (&'static mut task::System<T1>, stage::Null),
    ((&'static mut task::System<T2>, stage::Null), ((&'static mut task::System<T3>, stage::Null), stages::Null)),
);
/// {T1, T2, T3}
type OneStage<T1, T2, T3> = (
    (&'static mut task::System<T1>, (&'static mut task::System<T2>, (&'static mut task::System<T3>, stage::Null))),
    stages::Null,
);

// The property demands only that the conflicting pair (first and third task) does not share a
// stage; every order-preserving staging with that cut is accepted ({1,2}|{3}, {1}|{2,3},
// {1}|{2}|{3}), so a different but correct staging policy is not an alarm.  No property demands
// parallelism, so nothing is asserted about conflict-free schedules.
macro_rules! staging {
    ($harness:ident, $res:ty, $t1:ident, $t2:ident, $t3:ident, CutBeforeThird, $msg:literal) => {
        #[kani::proof]
        fn $harness() {
            let got = TypeId::of::<<Three<$t1, $t2, $t3> as Schedule<'static, Reg, $res, _>>::Stages>();
            let ok = got == TypeId::of::<CutBeforeThird<$t1, $t2, $t3>>()
                || got == TypeId::of::<CutAfterFirst<$t1, $t2, $t3>>()
                || got == TypeId::of::<AllSeparate<$t1, $t2, $t3>>();
            assert!(ok, $msg);
        }
    };
}

// ---- component views
sys!(MutA1, [&'a mut A], [], []);
sys!(MutB, [&'a mut B], [], []);
sys!(MutA2, [&'a mut A], [], []);
staging!(stages_mut_other_mut, Resources!(), MutA1, MutB, MutA2, CutBeforeThird,
    "C08: a task writing A is not staged with an earlier, non-adjacent task writing A");

sys!(RefA1, [&'a A], [], []);
sys!(RefA2, [&'a A], [], []);
sys!(RefB, [&'a B], [], []);
staging!(stages_ref_other_mut, Resources!(), RefA1, MutB, MutA2, CutBeforeThird,
    "C08: a task writing A is not staged with an earlier, non-adjacent task reading A");
staging!(stages_mut_other_ref, Resources!(), MutA1, RefB, RefA2, CutBeforeThird,
    "C08: a task reading A is not staged with an earlier, non-adjacent task writing A");

// ---- optional views
sys!(OptMutA, [Option<&'a mut A>], [], []);
sys!(OptRefA, [Option<&'a A>], [], []);
staging!(stages_optmut_other_optref, Resources!(), OptMutA, MutB, OptRefA, CutBeforeThird,
    "C08: optional views conflict like plain ones (non-adjacent pair)");

// ---- entry views
sys!(EntryMutA, [], [], [&'a mut A]);
sys!(EntryRefA, [], [], [&'a A]);
sys!(EntryMutB, [], [], [&'a mut B]);
staging!(stages_entry_mut_other_ref, Resources!(), EntryMutA, EntryMutB, EntryRefA, CutBeforeThird,
    "C08: entry views are claimed like component views (non-adjacent pair)");
staging!(stages_view_mut_other_entry_ref, Resources!(), MutA1, MutB, EntryRefA, CutBeforeThird,
    "C08: an entry view of A conflicts with an earlier, non-adjacent component view writing A");

// ---- resource views
sys!(ResMutX1, [], [&'a mut X], []);
sys!(ResMutY, [], [&'a mut Y], []);
sys!(ResRefX, [], [&'a X], []);
sys!(ResMutX2, [], [&'a mut X], []);
sys!(ResRefX2, [], [&'a X], []);
sys!(ResRefY, [], [&'a Y], []);
staging!(stages_res_mut_other_ref, Resources!(X, Y), ResMutX1, ResMutY, ResRefX, CutBeforeThird,
    "C08: a task reading resource X is not staged with an earlier, non-adjacent task writing X");
staging!(stages_res_mut_other_mut, Resources!(X, Y), ResMutX1, ResMutY, ResMutX2, CutBeforeThird,
    "C08: a task writing resource X is not staged with an earlier, non-adjacent task writing X");
