//! K-alloc (K-pair twins of unit V-alloc): bounded contract harnesses of the real
//! `entity::allocator::Allocator`.  Child module of `crate::entity::allocator`.
//! Bound: at most 3 slots before the call, batches of at most 3 rows.  Everything else
//! (generations, which slots are active, order of the free list, identifier under test) is
//! symbolic.  NOT counted as proof: the unbounded proof is unit V-alloc; these run as a
//! referee that produces a concrete failing input when V fails or cannot read the code.
use super::*;
use crate::{
    archetype,
    entity,
    Registry,
};
use alloc::vec;

pub struct A(u8);
pub struct B(u8);
type R = Registry!(A, B);

const N: usize = 3;

fn ident(bits: u8) -> archetype::Identifier<R> {
    unsafe { archetype::Identifier::<R>::new(vec![bits]) }
}

/// a symbolic allocator satisfying the representation invariant, with <= N slots.
/// Capacity is reserved up front so that no reallocation happens inside the harness.
fn any_wf_allocator(idref: archetype::IdentifierRef<R>) -> Allocator<R> {
    let n: usize = kani::any();
    kani::assume(n <= N);
    let mut a = Allocator::<R>::new();
    a.slots.reserve(2 * N);
    a.free.reserve(2 * N);
    let mut inactive = [false; N];
    let mut i = 0;
    while i < N {
        if i < n {
            let generation: u64 = kani::any();
            kani::assume(generation < u64::MAX); // A5
            let active: bool = kani::any();
            let row: usize = kani::any();
            a.slots.push(Slot {
                generation,
                location: if active { Some(Location::new(idref, row)) } else { None },
            });
            inactive[i] = !active;
        }
        i += 1;
    }
    // free list: the inactive slots in a symbolic order (rotation + optional reversal of 0,1,2)
    let rot: usize = kani::any();
    kani::assume(rot < N);
    let rev: bool = kani::any();
    let mut k = 0;
    while k < N {
        let j = (k + rot) % N;
        let s = if rev { N - 1 - j } else { j };
        if inactive[s] {
            a.free.push_back(s);
        }
        k += 1;
    }
    a
}

/// exec form of V-alloc's `wf` (single passes over a bit mask; no nested loops)
fn wf(a: &mut Allocator<R>) -> bool {
    let mut ok = true;
    let mut seen: u32 = 0;
    let n_slots = a.slots.len();
    let (fr0, fr1) = a.free.as_slices();
    let mut k = 0;
    while k < fr0.len() + fr1.len() {
        let s = if k < fr0.len() { fr0[k] } else { fr1[k - fr0.len()] };
        if s < n_slots && s < 32 {
            ok = ok && a.slots[s].location.is_none() && (seen >> s) & 1 == 0;
            seen |= 1 << s;
        } else {
            ok = false;
        }
        k += 1;
    }
    let mut s = 0;
    while s < n_slots {
        if a.slots[s].location.is_none() {
            ok = ok && (seen >> s) & 1 == 1;
        }
        s += 1;
    }
    ok
}

fn resolves(a: &Allocator<R>, id: entity::Identifier) -> bool {
    id.index < a.slots.len() && a.slots[id.index].generation == id.generation && a.slots[id.index].location.is_some()
}

#[derive(Clone, Copy)]
struct Snap {
    len: usize,
    generation: [u64; N],
    active: [bool; N],
    row: [usize; N],
    free_len: usize,
}

fn snap(a: &Allocator<R>) -> Snap {
    let mut s = Snap { len: a.slots.len(), generation: [0; N], active: [false; N], row: [0; N], free_len: a.free.len() };
    let mut i = 0;
    while i < a.slots.len() && i < N {
        s.generation[i] = a.slots[i].generation;
        s.active[i] = a.slots[i].location.is_some();
        s.row[i] = a.slots[i].location.map_or(0, |l| l.index);
        i += 1;
    }
    s
}

fn unchanged_except(a: &Allocator<R>, old: &Snap, except: usize) -> bool {
    let mut ok = true;
    let mut i = 0;
    while i < old.len {
        if i != except {
            ok = ok
                && a.slots[i].generation == old.generation[i]
                && a.slots[i].location.is_some() == old.active[i]
                && (!old.active[i] || a.slots[i].location.unwrap().index == old.row[i]);
        }
        i += 1;
    }
    ok
}

#[kani::proof]
#[kani::unwind(6)]
fn pair_allocate() {
    let idb = ident(1);
    let idref = unsafe { idb.as_ref() };
    let mut a = any_wf_allocator(idref);
    kani::cover!(a.free.len() == 2, "two free slots reachable");
    let old = snap(&a);
    let stale: entity::Identifier = entity::Identifier::new(kani::any(), kani::any());
    let stale_resolved = resolves(&a, stale);
    let row: usize = kani::any();
    let id = a.allocate(Location::new(idref, row));
    assert!(wf(&mut a), "wf preserved by allocate");
    assert!(resolves(&a, id), "C02.resolves");
    assert!(a.get(id).unwrap().index == row, "C01.view: new identifier maps to the given location");
    assert!(id != stale || !stale_resolved, "C02.fresh: identifier did not resolve before");
    assert!(stale == id || resolves(&a, stale) == stale_resolved, "C02: other identifiers resolve as before");
    assert!(unchanged_except(&a, &old, id.index), "frame.other_slots");
    if id.index < old.len {
        assert!(id.generation == old.generation[id.index].wrapping_add(1), "C02.generation_bumped");
        assert!(!old.active[id.index], "reused slot was inactive");
        assert!(a.slots.len() == old.len);
    } else {
        assert!(id.index == old.len && id.generation == 0 && a.slots.len() == old.len + 1, "C02.new_slot");
        assert!(old.free_len == 0, "C13: a new slot is created only when no released slot is available");
    }
}

#[kani::proof]
#[kani::unwind(8)]
fn pair_allocate_batch() {
    let idb = ident(1);
    let idref = unsafe { idb.as_ref() };
    let mut a = any_wf_allocator(idref);
    let old = snap(&a);
    let start: usize = kani::any();
    let n: usize = kani::any();
    kani::assume(n <= 3 && start < 1000);
    kani::cover!(a.free.len() > n && n > 0, "free list longer than the batch reachable");
    let stale: entity::Identifier = entity::Identifier::new(kani::any(), kani::any());
    let stale_resolved = resolves(&a, stale);
    let ids = a.allocate_batch(Locations::new(start..(start + n), idref));
    assert!(wf(&mut a), "wf preserved by allocate_batch (no released slot lost)");
    assert!(ids.len() == n, "C01.batch_len");
    let mut k = 0;
    let mut is_new = false;
    while k < n {
        assert!(resolves(&a, ids[k]), "C01.batch_order: returned identifier resolves");
        assert!(a.get(ids[k]).unwrap().index == start + k, "C01.batch_order: k-th identifier maps to k-th row");
        assert!(ids[k] != stale || !stale_resolved, "C02.fresh");
        if ids[k] == stale {
            is_new = true;
        }
        let mut j = k + 1;
        while j < n {
            assert!(ids[j].index != ids[k].index, "C02.distinct");
            j += 1;
        }
        if ids[k].index < old.len {
            assert!(ids[k].generation == old.generation[ids[k].index].wrapping_add(1), "C02.generation_bumped");
        } else {
            assert!(ids[k].generation == 0, "C02.new_slot");
        }
        k += 1;
    }
    assert!(is_new || resolves(&a, stale) == stale_resolved, "C01.view_dom: other identifiers resolve as before");
    let reused = if old.free_len < n { old.free_len } else { n };
    assert!(a.slots.len() == old.len + n - reused, "frame.slots_len: new slots only when the free list is exhausted");
    assert!(a.free.len() == old.free_len - reused, "C13.free_consumed_exactly");
}

#[kani::proof]
#[kani::unwind(6)]
fn pair_free_modify_get() {
    let idb = ident(1);
    let idref = unsafe { idb.as_ref() };
    let mut a = any_wf_allocator(idref);
    let old = snap(&a);
    let id = entity::Identifier::new(kani::any(), kani::any());
    let other = entity::Identifier::new(kani::any(), kani::any());
    let r = resolves(&a, id);
    let ro = resolves(&a, other);
    assert!(a.is_active(id) == r, "C02.is_active_is_dom");
    assert!(a.get(id).is_some() == r, "C02.get_is_view");
    kani::assume(r);
    kani::cover!(true, "a live identifier exists");
    let which: u8 = kani::any();
    if which == 0 {
        unsafe { a.free_unchecked(id) };
        assert!(wf(&mut a), "wf preserved by free_unchecked");
        assert!(!resolves(&a, id), "C02.dead");
        assert!(a.free.len() == old.free_len + 1, "C13: released slot becomes available");
        assert!(a.slots[id.index].generation == old.generation[id.index], "frame.generations");
    } else if which == 1 {
        let row: usize = kani::any();
        unsafe { a.modify_location_index_unchecked(id, row) };
        assert!(wf(&mut a));
        assert!(a.get(id).unwrap().index == row, "C02.same_ids: location row updated");
    } else {
        let row: usize = kani::any();
        unsafe { a.modify_location_unchecked(id, Location::new(idref, row)) };
        assert!(wf(&mut a));
        assert!(a.get(id).unwrap().index == row);
    }
    assert!(unchanged_except(&a, &old, id.index), "frame.other_slots");
    assert!(other == id || resolves(&a, other) == ro, "other identifiers resolve as before");
}

#[kani::proof]
#[kani::unwind(6)]
fn pair_shrink_to_fit() {
    let idb = ident(1);
    let idref = unsafe { idb.as_ref() };
    let mut a = any_wf_allocator(idref);
    let old = snap(&a);
    a.shrink_to_fit();
    assert!(wf(&mut a));
    assert!(a.slots.len() == old.len, "C02.shrink_keeps_slots: no slot (and no generation counter) is dropped");
    assert!(unchanged_except(&a, &old, usize::MAX), "C02.shrink_keeps_slots");
    assert!(a.free.len() == old.free_len, "C13.shrink_keeps_free");
}

#[kani::proof]
#[kani::unwind(6)]
fn probe_construct_only() {
    let idb = ident(1);
    let idref = unsafe { idb.as_ref() };
    let a = any_wf_allocator(idref);
    assert!(a.slots.len() <= N);
}

#[kani::proof]
#[kani::unwind(6)]
fn probe_wf_only() {
    let idb = ident(1);
    let idref = unsafe { idb.as_ref() };
    let mut a = any_wf_allocator(idref);
    assert!(wf(&mut a));
}

#[kani::proof]
#[kani::unwind(6)]
fn probe_p1_slots_only() {
    let idb = ident(1);
    let idref = unsafe { idb.as_ref() };
    let a = any_wf_allocator(idref);
    let mut s = 0;
    let mut cnt = 0;
    while s < a.slots.len() {
        if a.slots[s].location.is_none() { cnt += 1; }
        s += 1;
    }
    assert!(cnt <= N);
}

#[kani::proof]
#[kani::unwind(6)]
fn probe_p2_free_iter() {
    let idb = ident(1);
    let idref = unsafe { idb.as_ref() };
    let a = any_wf_allocator(idref);
    let mut sum = 0usize;
    for x in a.free.iter() { sum += *x; }
    assert!(sum <= 3);
}

#[kani::proof]
#[kani::unwind(6)]
fn probe_p3_free_len() {
    let idb = ident(1);
    let idref = unsafe { idb.as_ref() };
    let a = any_wf_allocator(idref);
    assert!(a.free.len() <= N);
}

#[kani::proof]
#[kani::unwind(6)]
fn probe_p4_free_get() {
    let idb = ident(1);
    let idref = unsafe { idb.as_ref() };
    let a = any_wf_allocator(idref);
    if let Some(x) = a.free.get(0) { assert!(*x < N); }
    if let Some(x) = a.free.get(1) { assert!(*x < N); }
}
